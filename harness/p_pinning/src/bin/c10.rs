//! C10 — pinning takes effect in the OS and the library's view of it stays truthful.
//!
//! Section `os` (real hardware, `SystemHardware::current()`): a case is a sequence of 1..6
//! non-empty subsets of the processors available to the process, applied on a FRESH thread with
//! `pin_current_thread_to` (or the first one through `spawn_thread` / `spawn_threads`, the rest as
//! re-pins inside the spawned threads).  After every pin the pinned thread itself calls
//! `libc::sched_getaffinity(0, ..)` / `libc::sched_getcpu()` and asks the library about itself.
//! Oracle: kernel mask == requested set, executing cpu in the set, one singleton-pinned thread per
//! processor for `spawn_threads`, the library's answers consistent with the LAST pin, and a
//! concurrently alive thread that never pinned (the oracle thread) sees nothing of it.
//!
//! Section `bookkeeping` (fake hardware): two generated topologies alive at once, 1..3 worker
//! threads driven in lock-step by a generated operation list (pin / spawn_thread / spawn_threads /
//! observe, each naming a thread, a hardware instance and a set).  A reference model keeps the last
//! pin per (thread, hardware); after every operation the acting thread's answers for BOTH hardware
//! instances are compared with the model, at the end every thread's (and the coordinator's).

use std::collections::{BTreeMap, BTreeSet};
use std::sync::Arc;
use std::sync::mpsc;

use many_cpus_impl::__verif::{FakeAffinity, MemoryFilesystem, linux_hardware};
use many_cpus_impl::fake::{HardwareBuilder, ProcessorBuilder};
use many_cpus_impl::{Processor, ProcessorSet, SystemHardware};
use nonempty::NonEmpty;
use proptest::prelude::*;
use serde::{Deserialize, Serialize};
use vcommon::serde_json::json;
use vcommon::{Ctx, Harness, Verdict, catch, ensure, fail, pick_index};

const PARTIAL: &str = "C10/thread_processors/partial-region-pin";
const MULTI: &str = "C10/thread_processors/multi-region-pin";

// ------------------------------------------------------------------------------------------
// set specifications (resolved against a concrete processor list at run time)
// ------------------------------------------------------------------------------------------

#[derive(Debug, Clone, Serialize, Deserialize)]
enum Spec {
    Single(u16),
    Pair(u16, u16),
    /// 0 = low half, 1 = high half, 2 = even positions, 3 = odd positions
    Half(u8),
    All,
    ComplSingle(u16),
    ComplPair(u16, u16),
    /// bit (position % 64) selects the processor at that position
    Mask(u64),
    /// the whole memory region of the picked processor
    Region(u16),
    /// members of the picked processor's region selected by the mask (by rank inside the region)
    RegionPart(u16, u64),
}

#[derive(Debug, Clone, Serialize, Deserialize)]
struct SetSpec {
    spec: Spec,
    /// rotation of the order in which the processors are handed to `take_exact`
    rot: u16,
}

fn spec_strategy() -> impl Strategy<Value = SetSpec> {
    let spec = prop_oneof![
        3 => any::<u16>().prop_map(Spec::Single),
        2 => (any::<u16>(), any::<u16>()).prop_map(|(a, b)| Spec::Pair(a, b)),
        2 => (0u8..4).prop_map(Spec::Half),
        1 => Just(Spec::All),
        1 => any::<u16>().prop_map(Spec::ComplSingle),
        1 => (any::<u16>(), any::<u16>()).prop_map(|(a, b)| Spec::ComplPair(a, b)),
        3 => any::<u64>().prop_map(Spec::Mask),
        1 => (any::<u64>(), any::<u64>()).prop_map(|(a, b)| Spec::Mask(a & b)),
        2 => any::<u16>().prop_map(Spec::Region),
        2 => (any::<u16>(), any::<u64>()).prop_map(|(a, m)| Spec::RegionPart(a, m)),
    ];
    (spec, any::<u16>()).prop_map(|(spec, rot)| SetSpec { spec, rot })
}

/// Positions (into a processor list whose regions are `region_of`) selected by `s`; never empty,
/// no duplicates, in the order to hand to the library.
fn resolve(s: &SetSpec, region_of: &[u32]) -> Vec<usize> {
    let n = region_of.len();
    assert!(n > 0);
    let mut sel: BTreeSet<usize> = BTreeSet::new();
    match &s.spec {
        Spec::Single(a) => {
            sel.insert(pick_index(*a, n));
        }
        Spec::Pair(a, b) => {
            sel.insert(pick_index(*a, n));
            sel.insert(pick_index(*b, n));
        }
        Spec::Half(k) => {
            for i in 0..n {
                let take = match k {
                    0 => i < n.div_ceil(2),
                    1 => i >= n / 2,
                    2 => i % 2 == 0,
                    _ => i % 2 == 1,
                };
                if take {
                    sel.insert(i);
                }
            }
        }
        Spec::All => sel.extend(0..n),
        Spec::ComplSingle(a) => {
            let x = pick_index(*a, n);
            sel.extend((0..n).filter(|i| *i != x));
        }
        Spec::ComplPair(a, b) => {
            let (x, y) = (pick_index(*a, n), pick_index(*b, n));
            sel.extend((0..n).filter(|i| *i != x && *i != y));
        }
        Spec::Mask(m) => {
            sel.extend((0..n).filter(|i| (m >> (i % 64)) & 1 == 1));
            if sel.is_empty() {
                sel.insert(pick_index((*m & 0xffff) as u16, n));
            }
        }
        Spec::Region(a) => {
            let r = region_of[pick_index(*a, n)];
            sel.extend((0..n).filter(|i| region_of[*i] == r));
        }
        Spec::RegionPart(a, m) => {
            let x = pick_index(*a, n);
            let r = region_of[x];
            for (rank, i) in (0..n).filter(|i| region_of[*i] == r).enumerate() {
                if (m >> (rank % 64)) & 1 == 1 {
                    sel.insert(i);
                }
            }
            if sel.is_empty() {
                sel.insert(x);
            }
        }
    }
    if sel.is_empty() {
        // complement of everything (n <= 2): fall back to all
        sel.extend(0..n);
    }
    let mut v: Vec<usize> = sel.into_iter().collect();
    let k = pick_index(s.rot, v.len());
    v.rotate_left(k);
    v
}

// ------------------------------------------------------------------------------------------
// topology view + observations
// ------------------------------------------------------------------------------------------

#[derive(Debug, Clone)]
struct Topo {
    /// (id, region) sorted by id
    procs: Vec<(u32, u32)>,
}

impl Topo {
    fn ids(&self) -> BTreeSet<u32> {
        self.procs.iter().map(|p| p.0).collect()
    }
    fn region(&self, id: u32) -> Option<u32> {
        self.procs.iter().find(|p| p.0 == id).map(|p| p.1)
    }
    fn regions_of(&self, set: &BTreeSet<u32>) -> BTreeSet<u32> {
        set.iter().filter_map(|i| self.region(*i)).collect()
    }
    fn members(&self, region: u32) -> BTreeSet<u32> {
        self.procs
            .iter()
            .filter(|p| p.1 == region)
            .map(|p| p.0)
            .collect()
    }
    fn all_regions(&self) -> BTreeSet<u32> {
        self.procs.iter().map(|p| p.1).collect()
    }
}

fn ids_of(set: &ProcessorSet) -> Vec<u32> {
    set.processors().iter().map(Processor::id).collect()
}

/// What the library says about the calling thread.
#[derive(Debug, Clone)]
struct LibObs {
    proc_pinned: bool,
    region_pinned: bool,
    cur_proc: Vec<u32>,
    cur_region: Vec<u32>,
    /// (id, region) of the processor handed to `with_current_processor`
    with_cur: Vec<(u32, u32)>,
    thread_procs: Option<Vec<u32>>,
    available: Option<Vec<u32>>,
}

fn observe_lib(hw: &SystemHardware, samples: usize) -> LibObs {
    let proc_pinned = hw.is_thread_processor_pinned();
    let region_pinned = hw.is_thread_memory_region_pinned();
    let mut cur_proc = Vec::new();
    let mut cur_region = Vec::new();
    let mut with_cur = Vec::new();
    for _ in 0..samples {
        cur_proc.push(hw.current_processor_id());
        cur_region.push(hw.current_memory_region_id());
        with_cur.push(hw.with_current_processor(|p| (p.id(), p.memory_region_id())));
    }
    LibObs {
        proc_pinned,
        region_pinned,
        cur_proc,
        cur_region,
        with_cur,
        thread_procs: hw.thread_processors().map(|s| ids_of(&s)),
        available: hw
            .all_processors()
            .to_builder()
            .where_available_for_current_thread()
            .take_all()
            .map(|s| ids_of(&s)),
    }
}

/// What the kernel says about the calling thread.
#[derive(Debug, Clone)]
struct OsObs {
    mask: BTreeSet<u32>,
    cpu: i32,
}

fn kernel_affinity() -> BTreeSet<u32> {
    // room for 8192 processors
    let mut buf = [0u64; 128];
    // SAFETY: the buffer is valid for the declared number of bytes for the duration of the call.
    let r = unsafe {
        libc::sched_getaffinity(
            0,
            size_of_val(&buf),
            buf.as_mut_ptr().cast::<libc::cpu_set_t>(),
        )
    };
    assert!(
        r == 0,
        "harness: sched_getaffinity failed: {}",
        std::io::Error::last_os_error()
    );
    let mut out = BTreeSet::new();
    for (w, bits) in buf.iter().enumerate() {
        for b in 0..64 {
            if (bits >> b) & 1 == 1 {
                out.insert((w * 64 + b) as u32);
            }
        }
    }
    out
}

fn observe_os() -> OsObs {
    let mask = kernel_affinity();
    // SAFETY: no requirements.
    let cpu = unsafe { libc::sched_getcpu() };
    OsObs { mask, cpu }
}

fn to_set(v: &[u32]) -> BTreeSet<u32> {
    v.iter().copied().collect()
}

/// The library's answers on one thread for one hardware instance against the last pin made on
/// that (thread, hardware) pair (`None` = never pinned).
fn judge_lib(
    ctx: &mut Ctx,
    part: &str,
    topo: &Topo,
    pinned: Option<&BTreeSet<u32>>,
    unpinned_available: &BTreeSet<u32>,
    o: &LibObs,
    at: &str,
) -> Verdict {
    let sig = |what: &str| -> String {
        if pinned.is_some() {
            format!("C10/{part}/{what}")
        } else {
            format!("C10/{part}/unpinned/{what}")
        }
    };
    let all_ids = topo.ids();
    let (allowed, want_proc, want_region, regions): (&BTreeSet<u32>, bool, bool, BTreeSet<u32>) =
        match pinned {
            Some(set) => {
                let regions = topo.regions_of(set);
                (set, set.len() == 1, regions.len() == 1, regions)
            }
            None => (&all_ids, false, false, topo.all_regions()),
        };
    ensure!(
        o.proc_pinned == want_proc,
        sig("is_thread_processor_pinned"),
        "{at}: is_thread_processor_pinned() = {} but last pin = {:?}",
        o.proc_pinned,
        pinned
    );
    ensure!(
        o.region_pinned == want_region,
        sig("is_thread_memory_region_pinned"),
        "{at}: is_thread_memory_region_pinned() = {} but last pin = {:?} spanning regions {:?}",
        o.region_pinned,
        pinned,
        regions
    );
    for p in &o.cur_proc {
        ensure!(
            allowed.contains(p),
            sig("current_processor_id/outside-set"),
            "{at}: current_processor_id() = {p}, thread may only run on {:?}",
            allowed
        );
    }
    for (p, r) in &o.with_cur {
        ensure!(
            allowed.contains(p) && topo.region(*p) == Some(*r),
            sig("with_current_processor/outside-set"),
            "{at}: with_current_processor() gave processor {p} region {r}, thread may only run on {:?}",
            allowed
        );
    }
    for r in &o.cur_region {
        ensure!(
            regions.contains(r),
            sig("current_memory_region_id/outside-regions"),
            "{at}: current_memory_region_id() = {r}, last pin {:?} spans regions {:?}",
            pinned,
            regions
        );
    }
    // processors available to the thread (affinity read back by the platform)
    {
        let want = pinned.unwrap_or(unpinned_available);
        let got = o.available.as_deref().map(to_set);
        let dup = o
            .available
            .as_ref()
            .is_some_and(|v| v.len() != to_set(v).len());
        ensure!(
            got.as_ref() == Some(want) && !dup,
            sig("where_available_for_current_thread/mismatch"),
            "{at}: where_available_for_current_thread().take_all() = {:?}, thread may run on {:?}",
            o.available,
            want
        );
    }
    // thread_processors(): "the set of processors that the current thread is pinned to, or None"
    match pinned {
        None => ensure!(
            o.thread_procs.is_none(),
            sig("thread_processors/some"),
            "{at}: thread_processors() = {:?} on a thread that never pinned on this hardware",
            o.thread_procs
        ),
        Some(set) => {
            let got = o.thread_procs.as_deref().map(to_set);
            let dup = o
                .thread_procs
                .as_ref()
                .is_some_and(|v| v.len() != to_set(v).len());
            if got.as_ref() != Some(set) || dup {
                let known = if !dup && regions.len() == 1 && set.len() >= 2 {
                    let whole = topo.members(*regions.iter().next().expect("one"));
                    (got.as_ref() == Some(&whole)).then_some(PARTIAL)
                } else if regions.len() >= 2 && got.is_none() {
                    Some(MULTI)
                } else {
                    None
                };
                match known {
                    Some(k) => {
                        if !ctx.tolerate(k) {
                            fail!(
                                k,
                                "{at}: pinned to {:?} (regions {:?}) but thread_processors() = {:?}",
                                set,
                                regions,
                                o.thread_procs
                            );
                        }
                    }
                    None => fail!(
                        format!("C10/{part}/thread_processors/wrong-set"),
                        "{at}: pinned to {:?} but thread_processors() = {:?}",
                        set,
                        o.thread_procs
                    ),
                }
            }
        }
    }
    Ok(())
}

fn set_kind(topo: &Topo, set: &BTreeSet<u32>) -> &'static str {
    let regions = topo.regions_of(set);
    if set.len() == 1 {
        "singleton"
    } else if regions.len() == 1 {
        if topo.members(*regions.iter().next().expect("one")) == *set {
            "whole-region"
        } else {
            "partial-region"
        }
    } else {
        "multi-region"
    }
}

fn make_set(hw: &SystemHardware, ids: &[u32]) -> ProcessorSet {
    let all = hw.all_processors();
    let by_id: BTreeMap<u32, &Processor> = all.processors().iter().map(|p| (p.id(), p)).collect();
    let v: Vec<Processor> = ids
        .iter()
        .map(|i| (*by_id.get(i).expect("id from the topology")).clone())
        .collect();
    all.to_builder()
        .take_exact(NonEmpty::from_vec(v).expect("non-empty"))
}

// ------------------------------------------------------------------------------------------
// section `os`
// ------------------------------------------------------------------------------------------

#[derive(Debug, Clone, Serialize, Deserialize)]
struct CaseA {
    /// 0 = plain thread + pin_current_thread_to, 1 = spawn_thread, 2 = spawn_threads
    mode: u8,
    sets: Vec<SetSpec>,
}

fn case_a_strategy() -> impl Strategy<Value = CaseA> {
    (
        prop_oneof![6 => Just(0u8), 3 => Just(1u8), 1 => Just(2u8)],
        prop::collection::vec(spec_strategy(), 1..=6),
    )
        .prop_map(|(mode, sets)| CaseA { mode, sets })
}

struct RealEnv {
    hw: &'static SystemHardware,
    topo: Topo,
    /// processors both known to the library and in the process's kernel mask, sorted by id
    avail: Vec<u32>,
    avail_regions: Vec<u32>,
    initial_mask: BTreeSet<u32>,
    /// what an unpinned thread's `where_available_for_current_thread` must give
    unpinned_available: BTreeSet<u32>,
}

impl RealEnv {
    fn new() -> Self {
        let initial_mask = kernel_affinity();
        let hw = SystemHardware::current();
        let mut procs: Vec<(u32, u32)> = hw
            .all_processors()
            .processors()
            .iter()
            .map(|p| (p.id(), p.memory_region_id()))
            .collect();
        procs.sort_unstable();
        let topo = Topo { procs };
        let avail: Vec<u32> = topo
            .procs
            .iter()
            .map(|p| p.0)
            .filter(|i| initial_mask.contains(i))
            .collect();
        if avail.is_empty() {
            eprintln!(
                "infrastructure: no processor is both known to the library and in the kernel mask"
            );
            std::process::exit(2);
        }
        let avail_regions = avail
            .iter()
            .map(|i| topo.region(*i).expect("known"))
            .collect();
        let unpinned_available = avail.iter().copied().collect();
        Self {
            hw,
            topo,
            avail,
            avail_regions,
            initial_mask,
            unpinned_available,
        }
    }
}

#[derive(Debug, Clone)]
struct Step {
    os: OsObs,
    lib: LibObs,
}

#[derive(Debug, Clone)]
struct ThreadReport {
    /// ids handed to the entry point by spawn_thread / spawn_threads
    given: Option<Vec<u32>>,
    steps: Vec<Step>,
}

fn step(hw: &SystemHardware) -> Step {
    Step {
        os: observe_os(),
        lib: observe_lib(hw, 2),
    }
}

fn join_msg<T>(r: std::thread::Result<T>) -> Result<T, String> {
    r.map_err(|p| vcommon::panic_message(&*p))
}

fn check_a(env: &RealEnv, case: &CaseA, ctx: &mut Ctx) -> Verdict {
    let hw = env.hw;
    let sets: Vec<Vec<u32>> = case
        .sets
        .iter()
        .map(|s| {
            resolve(s, &env.avail_regions)
                .into_iter()
                .map(|i| env.avail[i])
                .collect()
        })
        .collect();
    let psets: Vec<ProcessorSet> = sets.iter().map(|ids| make_set(hw, ids)).collect();
    let want: Vec<BTreeSet<u32>> = sets.iter().map(|v| to_set(v)).collect();
    let n = env.avail.len();

    ctx.classify(match case.mode {
        0 => "mode:pin_current_thread_to",
        1 => "mode:spawn_thread",
        _ => "mode:spawn_threads",
    });
    for w in &want {
        ctx.classify(&format!(
            "set:{}",
            if w.len() == 1 {
                "singleton"
            } else if w.len() == n {
                "all"
            } else if w.len() == 2 {
                "pair"
            } else if w.len() + 2 >= n {
                "complement"
            } else if w.len() == n / 2 || w.len() == n.div_ceil(2) {
                "half"
            } else {
                "other"
            }
        ));
    }

    // ---- run
    // (expected pin sequence, report) per pinned thread
    let mut threads: Vec<(Vec<BTreeSet<u32>>, Result<ThreadReport, String>)> = Vec::new();
    let observer: Step;
    match case.mode {
        0 | 1 => {
            let (tx, rx) = mpsc::channel::<Result<ThreadReport, String>>();
            let (rel_tx, rel_rx) = mpsc::channel::<()>();
            let handle = if case.mode == 0 {
                let psets = psets.clone();
                std::thread::spawn(move || {
                    let r = catch(|| {
                        let mut steps = Vec::new();
                        for s in &psets {
                            s.pin_current_thread_to();
                            steps.push(step(hw));
                        }
                        ThreadReport { given: None, steps }
                    });
                    let _ = tx.send(r);
                    let _ = rel_rx.recv();
                })
            } else {
                let rest: Vec<ProcessorSet> = psets[1..].to_vec();
                psets[0].spawn_thread(move |given| {
                    let r = catch(|| {
                        let mut steps = vec![step(hw)];
                        for s in &rest {
                            s.pin_current_thread_to();
                            steps.push(step(hw));
                        }
                        ThreadReport {
                            given: Some(ids_of(&given)),
                            steps,
                        }
                    });
                    let _ = tx.send(r);
                    let _ = rel_rx.recv();
                })
            };
            let report = rx.recv();
            // the pinned thread is still alive here: the oracle thread never pinned
            observer = step(hw);
            drop(rel_tx);
            let joined = join_msg(handle.join());
            let report = match (report, joined) {
                (Ok(r), _) => r,
                (Err(_), Err(msg)) => Err(msg),
                (Err(_), Ok(())) => Err("thread ended without reporting".to_string()),
            };
            threads.push((want.clone(), report));
        }
        _ => {
            let rest: Arc<Vec<ProcessorSet>> = Arc::new(psets[1..].to_vec());
            let handles = psets[0].spawn_threads(move |p: Processor| {
                catch(|| {
                    let mut steps = vec![step(hw)];
                    for s in rest.iter() {
                        s.pin_current_thread_to();
                        steps.push(step(hw));
                    }
                    ThreadReport {
                        given: Some(vec![p.id()]),
                        steps,
                    }
                })
            });
            let results: Vec<Result<ThreadReport, String>> = handles
                .into_vec()
                .into_iter()
                .map(|h| join_msg(h.join()).and_then(|r| r))
                .collect();
            observer = step(hw);
            ensure!(
                results.len() == want[0].len(),
                "C10/os/spawn_threads/thread-count",
                "spawn_threads on {:?} started {} threads",
                want[0],
                results.len()
            );
            let mut seen: BTreeSet<u32> = BTreeSet::new();
            for r in results {
                let mut seq = want.clone();
                if let Ok(rep) = &r {
                    let g = rep.given.clone().unwrap_or_default();
                    ensure!(
                        g.len() == 1 && want[0].contains(&g[0]) && seen.insert(g[0]),
                        "C10/os/spawn_threads/processors-not-one-each",
                        "spawn_threads on {:?}: an entry point was given processor {:?} (already given: {:?})",
                        want[0],
                        g,
                        seen
                    );
                    seq[0] = to_set(&g);
                }
                threads.push((seq, r));
            }
            ensure!(
                seen == want[0] || threads.iter().any(|t| t.1.is_err()),
                "C10/os/spawn_threads/processors-not-one-each",
                "spawn_threads on {:?} covered only {:?}",
                want[0],
                seen
            );
        }
    }

    // ---- judge
    let mut nontrivial = false;
    for (seq, rep) in &threads {
        let rep = match rep {
            Ok(r) => r,
            Err(msg) => fail!(
                "C10/os/pin/panic",
                "pinning sequence {:?} panicked: {msg}",
                seq
            ),
        };
        ensure!(
            rep.steps.len() == seq.len(),
            "C10/os/harness/step-count",
            "internal: {} steps for {} pins",
            rep.steps.len(),
            seq.len()
        );
        if case.mode == 1 {
            let g = rep.given.as_deref().map(to_set);
            ensure!(
                g.as_ref() == Some(&want[0]),
                "C10/os/spawn_thread/entrypoint-set",
                "spawn_thread on {:?} handed {:?} to the entry point",
                want[0],
                rep.given
            );
        }
        let mut distinct: BTreeSet<&BTreeSet<u32>> = BTreeSet::new();
        for (k, (set, st)) in seq.iter().zip(&rep.steps).enumerate() {
            distinct.insert(set);
            let at = format!("pin #{k} of {:?} (mode {})", seq, case.mode);
            let spawned_first = k == 0 && case.mode == 2;
            ensure!(
                st.os.mask == *set,
                if spawned_first {
                    "C10/os/spawn_threads/kernel-mask-differs"
                } else {
                    "C10/os/affinity/kernel-mask-differs"
                },
                "{at}: kernel affinity of the thread is {:?}, requested {:?}",
                st.os.mask,
                set
            );
            ensure!(
                u32::try_from(st.os.cpu).is_ok_and(|c| set.contains(&c)),
                "C10/os/sched_getcpu/outside-set",
                "{at}: sched_getcpu() = {} right after pinning to {:?}",
                st.os.cpu,
                set
            );
            judge_lib(
                ctx,
                "os",
                &env.topo,
                Some(set),
                &env.unpinned_available,
                &st.lib,
                &at,
            )?;
            if k > 0 {
                let prev = &seq[k - 1];
                if prev != set {
                    ctx.classify(&format!(
                        "repin:{}->{}",
                        if prev.len() == 1 { "single" } else { "multi" },
                        if set.len() == 1 { "single" } else { "multi" }
                    ));
                }
            }
        }
        if distinct.len() >= 2 {
            nontrivial = true;
        }
    }
    // the thread that never pinned
    ensure!(
        observer.os.mask == env.initial_mask,
        "C10/os/leak/other-thread-affinity-changed",
        "kernel affinity of the never-pinned oracle thread is {:?}, was {:?} at start",
        observer.os.mask,
        env.initial_mask
    );
    judge_lib(
        ctx,
        "os",
        &env.topo,
        None,
        &env.unpinned_available,
        &observer.lib,
        "never-pinned oracle thread",
    )?;

    if nontrivial {
        ctx.nontrivial();
    }
    Ok(())
}

// ------------------------------------------------------------------------------------------
// section `bookkeeping`
// ------------------------------------------------------------------------------------------

#[derive(Debug, Clone, Serialize, Deserialize)]
struct FProc {
    id: u32,
    region: u32,
}

#[derive(Debug, Clone, Serialize, Deserialize)]
struct OpB {
    thread: u8,
    /// 0 = hardware A, 1 = hardware B
    hw: u8,
    /// 0 = pin_current_thread_to, 1 = spawn_thread, 2 = spawn_threads, 3 = observe only
    kind: u8,
    set: SetSpec,
}

#[derive(Debug, Clone, Serialize, Deserialize)]
struct CaseB {
    a: Vec<FProc>,
    b: Vec<FProc>,
    nthreads: u8,
    ops: Vec<OpB>,
}

fn topo_strategy() -> impl Strategy<Value = Vec<FProc>> {
    let count = prop_oneof![2 => 1usize..=6, 3 => 1usize..=24, 2 => 1usize..=64];
    (count, 1usize..=8, 0u8..3).prop_flat_map(|(count, nregions, skew)| {
        (
            prop::sample::subsequence((0u32..200).collect::<Vec<_>>(), count),
            prop::sample::subsequence((0u32..16).collect::<Vec<_>>(), nregions),
            prop::collection::vec(any::<u16>(), count),
        )
            .prop_map(move |(ids, regions, raw)| {
                let nr = regions.len();
                ids.into_iter()
                    .zip(raw)
                    .enumerate()
                    .map(|(i, (id, raw))| {
                        let x = f64::from(raw) / 65536.0;
                        let ri = match skew {
                            0 => (x * nr as f64) as usize,
                            1 => (x * x * x * nr as f64) as usize,
                            _ => i % nr,
                        };
                        FProc {
                            id,
                            region: regions[ri.min(nr - 1)],
                        }
                    })
                    .collect()
            })
    })
}

fn case_b_strategy() -> impl Strategy<Value = CaseB> {
    (topo_strategy(), topo_strategy(), 1u8..=3).prop_flat_map(|(a, b, nthreads)| {
        let op = (
            0..nthreads,
            0u8..2,
            prop_oneof![12 => Just(0u8), 2 => Just(1u8), 1 => Just(2u8), 1 => Just(3u8)],
            spec_strategy(),
        )
            .prop_map(|(thread, hw, kind, set)| OpB {
                thread,
                hw,
                kind,
                set,
            });
        prop::collection::vec(op, 1..=12).prop_map(move |ops| CaseB {
            a: a.clone(),
            b: b.clone(),
            nthreads,
            ops,
        })
    })
}

fn build_fake(procs: &[FProc]) -> (SystemHardware, Topo) {
    let mut b = HardwareBuilder::new();
    for p in procs {
        b = b.processor(ProcessorBuilder::new().id(p.id).memory_region(p.region));
    }
    let mut v: Vec<(u32, u32)> = procs.iter().map(|p| (p.id, p.region)).collect();
    v.sort_unstable();
    (SystemHardware::fake(b), Topo { procs: v })
}

enum Cmd {
    /// kind, hardware index, ids in hand-over order
    Do(u8, usize, Vec<u32>),
    Observe,
}

#[derive(Debug)]
struct Child {
    given: Vec<u32>,
    obs: [LibObs; 2],
}

#[derive(Debug)]
struct Reply {
    obs: [LibObs; 2],
    children: Vec<Result<Child, String>>,
}

const SAMPLES_B: usize = 3;
const SPAWN_THREADS_MAX: usize = 4;

fn observe_both(hws: &[SystemHardware; 2]) -> [LibObs; 2] {
    [
        observe_lib(&hws[0], SAMPLES_B),
        observe_lib(&hws[1], SAMPLES_B),
    ]
}

fn exec(hws: &[SystemHardware; 2], cmd: Cmd) -> Reply {
    let mut children = Vec::new();
    match cmd {
        Cmd::Observe => {}
        Cmd::Do(kind, hi, ids) => {
            let set = make_set(&hws[hi], &ids);
            match kind {
                0 => set.pin_current_thread_to(),
                1 => {
                    let hc = hws.clone();
                    let h = set.spawn_thread(move |given| {
                        catch(|| Child {
                            given: ids_of(&given),
                            obs: observe_both(&hc),
                        })
                    });
                    children.push(join_msg(h.join()).and_then(|r| r));
                }
                _ => {
                    let hc = hws.clone();
                    let hs = set.spawn_threads(move |p: Processor| {
                        catch(|| Child {
                            given: vec![p.id()],
                            obs: observe_both(&hc),
                        })
                    });
                    for h in hs.into_vec() {
                        children.push(join_msg(h.join()).and_then(|r| r));
                    }
                }
            }
        }
    }
    Reply {
        obs: observe_both(hws),
        children,
    }
}

fn check_b(case: &CaseB, ctx: &mut Ctx) -> Verdict {
    let (hw_a, topo_a) = build_fake(&case.a);
    let (hw_b, topo_b) = build_fake(&case.b);
    let hws = [hw_a, hw_b];
    let topos = [topo_a, topo_b];
    let all_ids = [topos[0].ids(), topos[1].ids()];
    let id_lists: [Vec<u32>; 2] = [
        topos[0].procs.iter().map(|p| p.0).collect(),
        topos[1].procs.iter().map(|p| p.0).collect(),
    ];
    let region_lists: [Vec<u32>; 2] = [
        topos[0].procs.iter().map(|p| p.1).collect(),
        topos[1].procs.iter().map(|p| p.1).collect(),
    ];
    let names = ["A", "B"];
    let nthreads = usize::from(case.nthreads.max(1));
    ctx.classify(&format!("threads:{nthreads}"));

    // workers, driven in lock-step
    let mut links: Vec<(
        mpsc::Sender<Cmd>,
        mpsc::Receiver<Result<Reply, String>>,
        std::thread::JoinHandle<()>,
    )> = Vec::new();
    for _ in 0..nthreads {
        let (ctx_tx, crx) = mpsc::channel::<Cmd>();
        let (rtx, rrx) = mpsc::channel::<Result<Reply, String>>();
        let hc = hws.clone();
        let h = std::thread::spawn(move || {
            for cmd in crx {
                let r = catch(|| exec(&hc, cmd));
                if rtx.send(r).is_err() {
                    break;
                }
            }
        });
        links.push((ctx_tx, rrx, h));
    }
    let ask = |t: usize, cmd: Cmd| -> Result<Reply, String> {
        links[t]
            .0
            .send(cmd)
            .map_err(|_| "worker gone".to_string())?;
        links[t].1.recv().map_err(|_| "worker gone".to_string())?
    };

    // reference model: last pin per (thread, hardware)
    let mut model: Vec<[Option<BTreeSet<u32>>; 2]> = vec![[None, None]; nthreads];
    let mut pins_per_thread: Vec<BTreeSet<(usize, BTreeSet<u32>)>> =
        vec![BTreeSet::new(); nthreads];

    let result = (|| -> Verdict {
        for (k, op) in case.ops.iter().enumerate() {
            let t = usize::from(op.thread) % nthreads;
            let hi = usize::from(op.hw % 2);
            let mut ids: Vec<u32> = resolve(&op.set, &region_lists[hi])
                .into_iter()
                .map(|i| id_lists[hi][i])
                .collect();
            if op.kind == 2 {
                // one OS thread per processor: keep the fan-out small (thread creation dominates the cost)
                ids.truncate(SPAWN_THREADS_MAX);
            }
            let set = to_set(&ids);
            let kind_name = set_kind(&topos[hi], &set);
            let cmd = if op.kind == 3 {
                Cmd::Observe
            } else {
                Cmd::Do(op.kind, hi, ids.clone())
            };
            let at = format!(
                "op #{k} (kind {} on hardware {} set {:?}) thread {t}",
                op.kind, names[hi], set
            );
            let reply = match ask(t, cmd) {
                Ok(r) => r,
                Err(msg) => fail!("C10/bookkeeping/op/panic", "{at}: panicked: {msg}"),
            };
            match op.kind {
                0 => {
                    ctx.classify(&format!("pin:{kind_name}"));
                    if let Some(prev) = &model[t][hi] {
                        if *prev != set {
                            ctx.classify(&format!(
                                "repin:{}->{}",
                                set_kind(&topos[hi], prev),
                                kind_name
                            ));
                        }
                    }
                    model[t][hi] = Some(set.clone());
                    pins_per_thread[t].insert((hi, set.clone()));
                    if model[t][0].is_some() && model[t][1].is_some() {
                        ctx.classify("thread-pinned-on-both-hardware");
                    }
                }
                1 => ctx.classify(&format!("spawn_thread:{kind_name}")),
                2 => ctx.classify(&format!("spawn_threads:{kind_name}")),
                _ => ctx.classify("observe"),
            }
            // the acting thread, both hardware instances
            for h in 0..2 {
                judge_lib(
                    ctx,
                    "bookkeeping",
                    &topos[h],
                    model[t][h].as_ref(),
                    &all_ids[h],
                    &reply.obs[h],
                    &format!("{at}, asked hardware {}", names[h]),
                )?;
            }
            // threads spawned by the operation: pinned on `hi` only
            if op.kind == 1 || op.kind == 2 {
                let expect_n = if op.kind == 1 { 1 } else { set.len() };
                ensure!(
                    reply.children.len() == expect_n,
                    "C10/bookkeeping/spawn/thread-count",
                    "{at}: {} threads started, expected {expect_n}",
                    reply.children.len()
                );
                let mut seen = BTreeSet::new();
                for c in &reply.children {
                    let c = match c {
                        Ok(c) => c,
                        Err(msg) => fail!(
                            "C10/bookkeeping/spawn/panic",
                            "{at}: spawned thread panicked: {msg}"
                        ),
                    };
                    let g = to_set(&c.given);
                    let child_pin = if op.kind == 1 {
                        ensure!(
                            g == set,
                            "C10/bookkeeping/spawn_thread/entrypoint-set",
                            "{at}: entry point was handed {:?}",
                            c.given
                        );
                        set.clone()
                    } else {
                        ensure!(
                            c.given.len() == 1
                                && set.contains(&c.given[0])
                                && seen.insert(c.given[0]),
                            "C10/bookkeeping/spawn_threads/processors-not-one-each",
                            "{at}: entry point was handed {:?} (already handed {:?})",
                            c.given,
                            seen
                        );
                        g
                    };
                    for h in 0..2 {
                        let pinned = (h == hi).then_some(&child_pin);
                        judge_lib(
                            ctx,
                            "bookkeeping",
                            &topos[h],
                            pinned,
                            &all_ids[h],
                            &c.obs[h],
                            &format!(
                                "{at}, spawned thread given {:?}, asked hardware {}",
                                c.given, names[h]
                            ),
                        )?;
                    }
                }
            }
        }
        // final sweep: every worker, then the coordinator (never pinned anywhere)
        for t in 0..nthreads {
            let reply = match ask(t, Cmd::Observe) {
                Ok(r) => r,
                Err(msg) => fail!(
                    "C10/bookkeeping/op/panic",
                    "final observation on thread {t} panicked: {msg}"
                ),
            };
            for h in 0..2 {
                judge_lib(
                    ctx,
                    "bookkeeping",
                    &topos[h],
                    model[t][h].as_ref(),
                    &all_ids[h],
                    &reply.obs[h],
                    &format!("final sweep thread {t}, asked hardware {}", names[h]),
                )?;
            }
        }
        let me = match catch(|| observe_both(&hws)) {
            Ok(o) => o,
            Err(msg) => fail!(
                "C10/bookkeeping/op/panic",
                "observation on the coordinator panicked: {msg}"
            ),
        };
        for h in 0..2 {
            judge_lib(
                ctx,
                "bookkeeping",
                &topos[h],
                None,
                &all_ids[h],
                &me[h],
                &format!("coordinator (never pinned), asked hardware {}", names[h]),
            )?;
        }
        Ok(())
    })();

    for (tx, _rx, h) in links {
        drop(tx);
        let _ = h.join();
    }
    if pins_per_thread.iter().any(|p| p.len() >= 2) {
        ctx.nontrivial();
    }
    result
}

// ------------------------------------------------------------------------------------------
// section `wide-mask`: the real Linux platform over a recording fake of the affinity syscalls
// ------------------------------------------------------------------------------------------

#[derive(Debug, Clone, Serialize, Deserialize)]
struct CaseC {
    /// processor ids of the machine (made distinct and sorted before use), each < 4096
    ids: Vec<u32>,
    /// 0 = the kernel publishes no NUMA directory, n = n nodes, processor at rank r in node r % n
    nodes: u8,
    /// width of the fake kernel's mask: 0 = just wide enough, else max(needed, 16 << (k-1))
    kernel_width: u8,
    pins: Vec<SetSpec>,
}

fn wide_id_strategy(limit: u32) -> impl Strategy<Value = u32> {
    // ids below `limit` (a multiple of 64), clustered on mask-word boundaries
    let words = limit / 64;
    prop_oneof![
        2 => 0u32..limit,
        3 => (0u32..words, 0u32..3).prop_map(move |(w, d)| (w * 64 + 63 + d).saturating_sub(1).min(limit - 1)),
        1 => (0u32..words).prop_map(|w| w * 64),
        1 => (limit - 64)..limit,
    ]
}

fn case_c_strategy() -> impl Strategy<Value = CaseC> {
    let limit = prop_oneof![2 => Just(64u32), 2 => Just(256u32), 2 => Just(1024u32), 2 => Just(1152u32), 3 => Just(4096u32)];
    limit.prop_flat_map(|limit| {
        (
            prop::collection::vec(wide_id_strategy(limit), 1..=40),
            0u8..4,
            0u8..5,
            prop::collection::vec(spec_strategy(), 1..=4),
        )
            .prop_map(|(ids, nodes, kernel_width, pins)| CaseC {
                ids,
                nodes,
                kernel_width,
                pins,
            })
    })
}

fn words_of(ids: impl IntoIterator<Item = u32>, words: usize) -> Vec<libc::c_ulong> {
    let bits = libc::c_ulong::BITS;
    let mut out = vec![0 as libc::c_ulong; words];
    for i in ids {
        out[(i / bits) as usize] |= (1 as libc::c_ulong) << (i % bits);
    }
    out
}

fn decode_words(words: &[libc::c_ulong]) -> BTreeSet<u32> {
    let bits = libc::c_ulong::BITS as usize;
    let mut out = BTreeSet::new();
    for (wi, w) in words.iter().enumerate() {
        for b in 0..bits {
            if (w >> b) & 1 == 1 {
                out.insert((wi * bits + b) as u32);
            }
        }
    }
    out
}

fn list_of(ids: impl IntoIterator<Item = u32>) -> String {
    ids.into_iter()
        .map(|i| i.to_string())
        .collect::<Vec<_>>()
        .join(",")
}

fn check_c(case: &CaseC, ctx: &mut Ctx) -> Verdict {
    let ids: Vec<u32> = case
        .ids
        .iter()
        .copied()
        .collect::<BTreeSet<u32>>()
        .into_iter()
        .collect();
    let max_id = *ids.last().expect("at least one id");
    let nodes = u32::from(case.nodes);
    let region_of = |rank: usize| -> u32 { if nodes == 0 { 0 } else { rank as u32 % nodes } };
    let topo = Topo {
        procs: ids
            .iter()
            .enumerate()
            .map(|(r, i)| (*i, region_of(r)))
            .collect(),
    };
    let region_list: Vec<u32> = topo.procs.iter().map(|p| p.1).collect();

    let mut fs = MemoryFilesystem::new();
    let mut cpuinfo = String::new();
    for i in &ids {
        cpuinfo.push_str(&format!(
            "processor\t: {i}\nmodel name\t: Verif CPU\nbogomips\t: 4000.00\n\n"
        ));
    }
    fs.insert("/proc/cpuinfo", cpuinfo);
    fs.insert(
        "/proc/self/status",
        format!(
            "Name:\tc10\nCpus_allowed_list:\t{}\nMems_allowed_list:\t0\n",
            list_of(ids.iter().copied())
        ),
    );
    fs.insert("/sys/devices/system/cpu/possible", format!("0-{max_id}\n"));
    fs.insert(
        "/sys/devices/system/cpu/online",
        format!("{}\n", list_of(ids.iter().copied())),
    );
    if nodes > 0 {
        fs.insert(
            "/sys/devices/system/node/possible",
            format!("0-{}\n", nodes - 1),
        );
        for n in 0..nodes {
            let members: Vec<u32> = topo
                .procs
                .iter()
                .filter(|p| p.1 == n)
                .map(|p| p.0)
                .collect();
            if !members.is_empty() {
                fs.insert(
                    format!("/sys/devices/system/node/node{n}/cpulist"),
                    format!("{}\n", list_of(members)),
                );
            }
        }
    }
    let bits = libc::c_ulong::BITS;
    let needed = (max_id / bits) as usize + 1;
    let kernel_words = if case.kernel_width == 0 {
        needed
    } else {
        needed.max(16usize << (case.kernel_width - 1))
    };
    let current_cpu = ids[0];
    let kernel = Arc::new(FakeAffinity::new(
        kernel_words,
        words_of(ids.iter().copied(), kernel_words),
        current_cpu as i32,
    ));

    if max_id >= 1024 {
        ctx.classify("id>=1024 (beyond cpu_set_t)");
    }
    if ids.iter().any(|i| i % bits == 0 || i % bits == bits - 1) {
        ctx.classify("id on a word boundary");
    }
    ctx.classify(&format!("nodes:{nodes}"));
    ctx.classify(if kernel_words > 16 {
        "kernel mask wider than cpu_set_t"
    } else {
        "kernel mask <= cpu_set_t"
    });

    let all_ids = topo.ids();
    let mut distinct: BTreeSet<BTreeSet<u32>> = BTreeSet::new();
    let res = catch(|| -> Verdict {
        let hw = linux_hardware(fs, Arc::clone(&kernel));
        // the machine the platform read must be the machine described (C11 judges the details)
        let seen: Vec<(u32, u32)> = hw
            .all_processors()
            .processors()
            .iter()
            .map(|p| (p.id(), p.memory_region_id()))
            .collect();
        let mut seen_sorted = seen.clone();
        seen_sorted.sort_unstable();
        if seen_sorted != topo.procs {
            // not this property's business; do not judge pins on a machine we do not understand
            ctx.classify("SKIPPED: platform inventory differs from the description");
            fail!(
                "C11/c10-wide-mask/inventory-differs",
                "platform read {:?}, described {:?}",
                seen_sorted,
                topo.procs
            );
        }
        let o = observe_lib(&hw, 1);
        judge_lib(
            ctx,
            "wide-mask",
            &topo,
            None,
            &all_ids,
            &o,
            "before any pin",
        )?;
        for (k, spec) in case.pins.iter().enumerate() {
            let want_ids: Vec<u32> = resolve(spec, &region_list)
                .into_iter()
                .map(|i| ids[i])
                .collect();
            let want = to_set(&want_ids);
            ctx.classify(&format!("pin:{}", set_kind(&topo, &want)));
            if want.iter().any(|i| *i >= 1024) {
                ctx.classify("pinned id>=1024");
            }
            make_set(&hw, &want_ids).pin_current_thread_to();
            let calls = kernel.set_calls();
            ensure!(
                calls.len() == k + 1,
                "C10/wide-mask/setaffinity-call-count",
                "pin #{k} to {:?}: {} sched_setaffinity calls so far",
                want,
                calls.len()
            );
            let got = decode_words(&calls[k]);
            ensure!(
                got == want,
                "C10/wide-mask/recorded-mask-differs",
                "pin #{k}: requested {:?}, the mask handed to sched_setaffinity ({} words) decodes to {:?}",
                want,
                calls[k].len(),
                got
            );
            // the fake kernel's sched_getcpu() is a constant: only ask where the thread is when that
            // constant is a legal answer (or the library answers from its own pin state)
            let samples = usize::from(want.len() == 1 || want.contains(&current_cpu));
            let o = observe_lib(&hw, samples);
            judge_lib(
                ctx,
                "wide-mask",
                &topo,
                Some(&want),
                &all_ids,
                &o,
                &format!("pin #{k} to {:?}", want),
            )?;
            distinct.insert(want);
        }
        Ok(())
    });
    if distinct.len() >= 2 {
        ctx.nontrivial();
    }
    match res {
        Ok(v) => v,
        Err(msg) => fail!("C10/wide-mask/panic", "panicked: {msg}"),
    }
}

// ------------------------------------------------------------------------------------------

fn main() {
    let mut h = Harness::from_args("C10");
    let env = RealEnv::new();
    h.note("os.available_processors", json!(env.avail.len()));
    h.note("os.memory_regions", json!(env.topo.all_regions().len()));

    let cases_a = h.cases(12_000, 160_000);
    h.section(
        "os",
        "real hardware: 1..6 generated non-empty subsets (singletons, pairs, halves, all, complements, arbitrary masks) of the processors available to the process, applied on a fresh thread by pin_current_thread_to, or the first by spawn_thread / spawn_threads and the rest as re-pins inside the spawned threads; after each pin the thread reads its own kernel mask (sched_getaffinity) and cpu (sched_getcpu) and the library's answers; the never-pinned oracle thread is observed while the pinned thread is alive; non-trivial = some thread received >= 2 different pins; distinct by serialised case",
        cases_a,
        case_a_strategy(),
        |case, ctx| check_a(&env, case, ctx),
    );

    let cases_b = h.cases(16_000, 240_000);
    h.section(
        "bookkeeping",
        "two generated fake topologies (1..64 processors, sparse ids, 1..8 regions) alive at once, 1..3 worker threads driven in lock-step through 1..12 generated operations (pin / spawn_thread / spawn_threads / observe on hardware A or B); reference model = last pin per (thread, hardware); after each operation the acting thread (and any spawned thread) answers for both hardware instances, at the end every thread and the coordinator; non-trivial = some thread made >= 2 different pins; distinct by serialised case",
        cases_b,
        case_b_strategy(),
        |case, ctx| check_b(case, ctx),
    );
    let cases_c = h.cases(200_000, 4_000_000);
    h.section(
        "wide-mask",
        "real Linux platform (cfg(folo_verif) hook many_cpus_impl::__verif) over a generated in-memory /proc + /sys describing 1..40 processors with ids < 4096 (clustered on mask-word boundaries and around 1024 = the end of cpu_set_t), 0..3 NUMA nodes, and a recording fake of sched_setaffinity / sched_getaffinity whose kernel mask is 1..128 words wide; 1..4 generated pins on one thread; the raw words handed to sched_setaffinity are decoded independently and must equal the requested id set, the library's answers (including the widening affinity read-back) must match the last pin; non-trivial = >= 2 different pins; distinct by serialised case",
        cases_c,
        case_c_strategy(),
        |case, ctx| check_c(case, ctx),
    );
    h.finish()
}
