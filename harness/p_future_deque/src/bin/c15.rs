//! C15 — future deque keeps deque order and never loses a wake-up.
//!
//! Section `history`: single-owner histories of push_front/back, poll / poll_front / poll_back
//! with changing parent wakers, pop_front/back, completion of scripted futures and wake /
//! wake_by_ref / clone / drop of the wakers they captured (on the owner thread or on a helper
//! thread that is joined at once), against a `VecDeque` model.
//! Section `schedules`: an owner task and 1..2 waker tasks under generated schedule bytes
//! (vsched over the sync shim of `future_deque`): no lost wake-up, metadata reference count
//! released with proper happens-before, never touched after reaching zero.

use std::collections::VecDeque;
use std::future::Future;
use std::pin::Pin;
use std::sync::atomic::{AtomicBool, AtomicU32, AtomicU64, Ordering};
use std::sync::{Arc, Mutex};
use std::task::{Context, Poll, Waker};

use future_deque::{FutureDeque, LocalFutureDeque};
use p_events_once::{Ledger, set_stateless_ledger, waker, waker_stateless};
use proptest::prelude::*;
use serde::{Deserialize, Serialize};
use vcommon::{Ctx, Failure, Harness, Verdict, pick_index};

// ------------------------------------------------------------------------------------------------
// scripted futures

#[derive(Default)]
struct FutState {
    ready: AtomicBool,
    polls: AtomicU32,
    waker: Mutex<Option<Arc<Waker>>>,
    dropped: AtomicU32,
    /// a poll returned Ready
    completed: AtomicBool,
    /// completed before the harness's final poll
    completed_before_finale: AtomicBool,
    /// a wake was issued after the ready flag had been set
    woken_when_ready: AtomicBool,
    /// schedules: one clone of the captured waker per waker task (handed over with modelled HB)
    task_wakers: Mutex<Vec<Option<Waker>>>,
}

#[derive(Default)]
struct World {
    futs: Mutex<Vec<Arc<FutState>>>,
    /// ids polled, in order
    poll_log: Mutex<Vec<u32>>,
    outputs_created: AtomicU32,
    outputs_dropped: AtomicU32,
    clock: AtomicU64,
    /// number of waker tasks (0 in the history section)
    nwakers: AtomicU32,
}

impl World {
    fn stamp(&self) -> u64 {
        self.clock.fetch_add(1, Ordering::SeqCst)
    }
}

struct Scripted {
    id: u32,
    st: Arc<FutState>,
    world: Arc<World>,
}

struct Out {
    id: u32,
    world: Arc<World>,
}

impl Drop for Out {
    fn drop(&mut self) {
        self.world.outputs_dropped.fetch_add(1, Ordering::Relaxed);
    }
}

impl Future for Scripted {
    type Output = Out;
    fn poll(self: Pin<&mut Self>, cx: &mut Context<'_>) -> Poll<Out> {
        self.st.polls.fetch_add(1, Ordering::Relaxed);
        self.world.poll_log.lock().unwrap().push(self.id);
        if self.st.ready.load(Ordering::SeqCst) {
            self.world.outputs_created.fetch_add(1, Ordering::Relaxed);
            self.st.completed.store(true, Ordering::SeqCst);
            Poll::Ready(Out {
                id: self.id,
                world: Arc::clone(&self.world),
            })
        } else {
            // never hold the harness lock across a clone/drop of a waker: those are scheduling points
            let nw = self.world.nwakers.load(Ordering::SeqCst) as usize;
            if nw == 0 {
                let fresh = Arc::new(cx.waker().clone());
                let old = self.st.waker.lock().unwrap().replace(fresh);
                drop(old);
            }
            // schedules: hand one clone to every waker task (the hand-over is an external
            // synchronisation, e.g. a channel, and is modelled as such)
            for t in 0..nw {
                let key = (self.id as usize) * 8 + t + 1;
                let fresh = cx.waker().clone();
                let old = {
                    let mut g = self.st.task_wakers.lock().unwrap();
                    if g.len() < nw {
                        g.resize_with(nw, || None);
                    }
                    g[t].replace(fresh)
                };
                vsched::hb_recv(key);
                drop(old);
                vsched::hb_send(key);
            }
            Poll::Pending
        }
    }
}

impl Drop for Scripted {
    fn drop(&mut self) {
        self.st.dropped.fetch_add(1, Ordering::Relaxed);
    }
}

fn new_future(world: &Arc<World>) -> (u32, Scripted) {
    let st = Arc::new(FutState::default());
    let mut f = world.futs.lock().unwrap();
    let id = f.len() as u32;
    f.push(Arc::clone(&st));
    (
        id,
        Scripted {
            id,
            st,
            world: Arc::clone(world),
        },
    )
}

trait Deque: 'static {
    fn new() -> Self;
    fn push_back(&mut self, f: Scripted);
    fn push_front(&mut self, f: Scripted);
    fn poll(&mut self, cx: &Context<'_>) -> Poll<()>;
    fn poll_front(&mut self, cx: &Context<'_>) -> Poll<Option<Out>>;
    fn poll_back(&mut self, cx: &Context<'_>) -> Poll<Option<Out>>;
    fn pop_front(&mut self) -> Option<Out>;
    fn pop_back(&mut self) -> Option<Out>;
    fn len(&self) -> usize;
    fn is_empty(&self) -> bool;
}

macro_rules! deque_impl {
    ($t:ty) => {
        impl Deque for $t {
            fn new() -> Self {
                <$t>::new()
            }
            fn push_back(&mut self, f: Scripted) {
                <$t>::push_back(self, f);
            }
            fn push_front(&mut self, f: Scripted) {
                <$t>::push_front(self, f);
            }
            fn poll(&mut self, cx: &Context<'_>) -> Poll<()> {
                <$t>::poll(self, cx)
            }
            fn poll_front(&mut self, cx: &Context<'_>) -> Poll<Option<Out>> {
                <$t>::poll_front(self, cx)
            }
            fn poll_back(&mut self, cx: &Context<'_>) -> Poll<Option<Out>> {
                <$t>::poll_back(self, cx)
            }
            fn pop_front(&mut self) -> Option<Out> {
                <$t>::pop_front(self)
            }
            fn pop_back(&mut self) -> Option<Out> {
                <$t>::pop_back(self)
            }
            fn len(&self) -> usize {
                <$t>::len(self)
            }
            fn is_empty(&self) -> bool {
                <$t>::is_empty(self)
            }
        }
    };
}
deque_impl!(FutureDeque<Out>);
deque_impl!(LocalFutureDeque<Out>);

// ------------------------------------------------------------------------------------------------
// section `history`

#[derive(Debug, Clone, Copy, Serialize, Deserialize, PartialEq, Eq)]
enum HOp {
    PushBack,
    PushFront,
    Poll { parent: u8 },
    PollFront { parent: u8 },
    PollBack { parent: u8 },
    PopFront,
    PopBack,
    /// mark future `f` complete (its next poll returns Ready); `then_wake` also wakes it
    Complete { f: u16, then_wake: bool },
    /// act on the waker future `f` captured at its last pending poll
    Wake { f: u16, how: u8, foreign: bool },
    Len,
}

#[derive(Debug, Clone, Serialize, Deserialize)]
struct HCase {
    local: bool,
    /// parent wakers share one (null) data pointer - the same as `Waker::noop()` - and differ only
    /// by vtable, like the wakers of minimal executors; otherwise every waker has its own data
    #[serde(default)]
    stateless_parents: bool,
    ops: Vec<HOp>,
}

fn hcase_strategy(max: usize) -> impl Strategy<Value = HCase> {
    let op = prop_oneof![
        5 => Just(HOp::PushBack),
        3 => Just(HOp::PushFront),
        5 => (0u8..3).prop_map(|parent| HOp::Poll { parent }),
        2 => (0u8..3).prop_map(|parent| HOp::PollFront { parent }),
        2 => (0u8..3).prop_map(|parent| HOp::PollBack { parent }),
        3 => Just(HOp::PopFront),
        2 => Just(HOp::PopBack),
        5 => (any::<u16>(), prop::bool::weighted(0.7)).prop_map(|(f, then_wake)| HOp::Complete { f, then_wake }),
        5 => (any::<u16>(), 0u8..4, prop::bool::weighted(0.15)).prop_map(|(f, how, foreign)| HOp::Wake { f, how, foreign }),
        1 => Just(HOp::Len),
    ];
    (any::<bool>(), prop::bool::weighted(0.4), prop::collection::vec(op, 0..max)).prop_map(|(local, stateless_parents, ops)| HCase { local, stateless_parents, ops })
}

#[derive(Clone, Copy, PartialEq, Eq, Debug)]
enum MState {
    Pending,
    Done,
}

struct MEntry {
    id: u32,
    state: MState,
    /// inserted or woken since its last poll
    activated: bool,
}

fn run_history<D: Deque>(case: &HCase, ctx: &mut Ctx) -> Verdict {
    let kind = if case.local { "LocalFutureDeque" } else { "FutureDeque" };
    let fl = |k: &str, msg: String| Failure::new(format!("C15/{kind}/{k}"), msg);
    let world = Arc::new(World::default());
    let ledger = Arc::new(Ledger::default());
    set_stateless_ledger(Some(Arc::clone(&ledger)));
    let mut dq = D::new();
    let mut model: VecDeque<MEntry> = VecDeque::new();
    let mut popped: Vec<Out> = Vec::new();
    let mut cur_parent: Option<u8> = None;
    let mut stats = (0u32, 0u32, false, false); // foreign wakes, completions, out-of-order completion, parent change
    let mut completion_order: Vec<u32> = Vec::new();

    for (step, op) in case.ops.iter().enumerate() {
        let parent_wakes = |p: u8| ledger.wakes[usize::from(p)].load(Ordering::Relaxed);
        match *op {
            HOp::PushBack | HOp::PushFront => {
                let (id, f) = new_future(&world);
                let e = MEntry {
                    id,
                    state: MState::Pending,
                    activated: true,
                };
                if matches!(op, HOp::PushBack) {
                    dq.push_back(f);
                    model.push_back(e);
                } else {
                    dq.push_front(f);
                    model.push_front(e);
                }
            }
            HOp::Poll { parent } | HOp::PollFront { parent } | HOp::PollBack { parent } => {
                if cur_parent.is_some() && cur_parent != Some(parent) {
                    stats.3 = true;
                }
                cur_parent = Some(parent);
                let wk = if case.stateless_parents { waker_stateless(usize::from(parent)) } else { waker(usize::from(parent), &ledger, false, None) };
                let cx = Context::from_waker(&wk);
                world.poll_log.lock().unwrap().clear();
                // expectation: exactly the activated pending entries are polled, front to back
                let expect: Vec<u32> = model.iter().filter(|e| e.state == MState::Pending && e.activated).map(|e| e.id).collect();
                let result: (Poll<()>, Option<Option<u32>>) = match op {
                    HOp::Poll { .. } => (dq.poll(&cx), None),
                    HOp::PollFront { .. } => match dq.poll_front(&cx) {
                        Poll::Ready(v) => (Poll::Ready(()), Some(v.map(|o| {
                            let id = o.id;
                            popped.push(o);
                            id
                        }))),
                        Poll::Pending => (Poll::Pending, None),
                    },
                    _ => match dq.poll_back(&cx) {
                        Poll::Ready(v) => (Poll::Ready(()), Some(v.map(|o| {
                            let id = o.id;
                            popped.push(o);
                            id
                        }))),
                        Poll::Pending => (Poll::Pending, None),
                    },
                };
                let polled = world.poll_log.lock().unwrap().clone();
                if polled != expect {
                    let extra: Vec<&u32> = polled.iter().filter(|p| !expect.contains(p)).collect();
                    let k = if !extra.is_empty() { "poll/polled-without-insert-or-wake" } else { "poll/woken-future-not-polled" };
                    return Err(fl(k, format!("step {step} {op:?}: futures polled {polled:?}, expected exactly the inserted-or-woken pending ones {expect:?}")));
                }
                let futs = world.futs.lock().unwrap();
                for e in model.iter_mut() {
                    if e.state == MState::Pending && e.activated {
                        e.activated = false;
                        if futs[e.id as usize].ready.load(Ordering::SeqCst) {
                            e.state = MState::Done;
                        }
                    }
                }
                drop(futs);
                let any_pending = model.iter().any(|e| e.state == MState::Pending);
                match op {
                    HOp::Poll { .. } => {
                        if result.0.is_ready() == any_pending {
                            return Err(fl("poll/readiness-wrong", format!("step {step}: poll returned {:?} with pending futures present = {any_pending}", result.0)));
                        }
                    }
                    HOp::PollFront { .. } | HOp::PollBack { .. } => {
                        let front = matches!(op, HOp::PollFront { .. });
                        let end_done = if front { model.front().map(|e| e.state == MState::Done) } else { model.back().map(|e| e.state == MState::Done) };
                        let want: Option<Option<u32>> = match end_done {
                            None => Some(None),
                            Some(true) => Some(Some(if front { model.pop_front().expect("some").id } else { model.pop_back().expect("some").id })),
                            Some(false) => None,
                        };
                        if result.1 != want {
                            return Err(fl("poll-end/result-differs-from-model", format!("step {step} {op:?}: returned {:?}, a plain deque gives {:?}", result.1, want)));
                        }
                    }
                    _ => {}
                }
                drop(wk);
            }
            HOp::PopFront | HOp::PopBack => {
                let front = matches!(op, HOp::PopFront);
                let got = if front { dq.pop_front() } else { dq.pop_back() }.map(|o| {
                    let id = o.id;
                    popped.push(o);
                    id
                });
                let end_done = if front { model.front().is_some_and(|e| e.state == MState::Done) } else { model.back().is_some_and(|e| e.state == MState::Done) };
                let want = if end_done { Some(if front { model.pop_front().expect("some").id } else { model.pop_back().expect("some").id }) } else { None };
                if got != want {
                    return Err(fl("pop/result-differs-from-model", format!("step {step} {op:?}: returned {got:?}, a plain deque of the same pushes and pops gives {want:?}")));
                }
            }
            HOp::Len => {
                if dq.len() != model.len() || dq.is_empty() != model.is_empty() {
                    return Err(fl("len/differs-from-model", format!("step {step}: len {} is_empty {}, model {}", dq.len(), dq.is_empty(), model.len())));
                }
            }
            HOp::Complete { f, then_wake } => {
                let n = world.futs.lock().unwrap().len();
                if n == 0 {
                    continue;
                }
                let id = pick_index(f, n);
                let st = Arc::clone(&world.futs.lock().unwrap()[id]);
                if !st.ready.swap(true, Ordering::SeqCst) {
                    stats.1 += 1;
                    if completion_order.last().is_some_and(|l| *l > id as u32) {
                        stats.2 = true;
                    }
                    completion_order.push(id as u32);
                }
                if then_wake {
                    wake_op(&world, &ledger, &mut model, id, 1, false, cur_parent, step, kind, &mut stats)?;
                }
            }
            HOp::Wake { f, how, foreign } => {
                let n = world.futs.lock().unwrap().len();
                if n == 0 {
                    continue;
                }
                let id = pick_index(f, n);
                wake_op(&world, &ledger, &mut model, id, how, foreign, cur_parent, step, kind, &mut stats)?;
            }
        }
        let _ = parent_wakes;
    }
    // teardown: drop the deque, then every captured waker, then the outputs
    let live_in_deque = model.len();
    drop(dq);
    let futs = world.futs.lock().unwrap().clone();
    for st in &futs {
        drop(st.waker.lock().unwrap().take());
    }
    drop(popped);
    for (id, st) in futs.iter().enumerate() {
        let d = st.dropped.load(Ordering::Relaxed);
        if d != 1 {
            return Err(fl("drop/future-not-dropped-exactly-once", format!("future {id} was dropped {d} times ({live_in_deque} entries were still in the deque when it was dropped)")));
        }
    }
    let oc = world.outputs_created.load(Ordering::Relaxed);
    let od = world.outputs_dropped.load(Ordering::Relaxed);
    if oc != od {
        return Err(fl("drop/output-not-dropped-exactly-once", format!("{oc} outputs produced, {od} dropped after the deque and all popped values are gone")));
    }
    let clones = ledger.waker_clones.load(Ordering::Relaxed);
    let consumed = ledger.waker_consumed.load(Ordering::Relaxed);
    if ledger.waker_double_consume.load(Ordering::Relaxed) > 0 || clones != consumed {
        return Err(fl("parent-waker/clone-not-consumed-exactly-once", format!("{clones} clones of parent wakers made, {consumed} consumed after the deque and every child waker are gone")));
    }
    ledger.free_wakers();
    ctx.classify(kind);
    if case.stateless_parents {
        ctx.classify("parent-wakers:stateless(same-null-data-pointer,different-vtables)");
    }
    if stats.0 > 0 {
        ctx.classify("foreign-thread-wake");
    }
    if stats.2 {
        ctx.classify("completion-order!=insertion-order");
    }
    if stats.3 {
        ctx.classify("parent-waker-changed");
    }
    if stats.2 && stats.0 > 0 {
        ctx.nontrivial();
    }
    Ok(())
}

#[allow(clippy::too_many_arguments)]
fn wake_op(world: &Arc<World>, ledger: &Arc<Ledger>, model: &mut VecDeque<MEntry>, id: usize, how: u8, foreign: bool, cur_parent: Option<u8>, step: usize, kind: &str, stats: &mut (u32, u32, bool, bool)) -> Verdict {
    let st = Arc::clone(&world.futs.lock().unwrap()[id]);
    let captured = st.waker.lock().unwrap().clone();
    let Some(w) = captured else {
        return Ok(()); // never returned Pending: nothing captured
    };
    let before = cur_parent.map(|p| ledger.wakes[usize::from(p)].load(Ordering::Relaxed));
    let act = move || match how % 4 {
        0 => (*w).clone().wake(),
        1 => w.wake_by_ref(),
        2 => {
            let c = (*w).clone();
            let c2 = c.clone();
            drop(c);
            c2.wake();
        }
        _ => drop((*w).clone()),
    };
    if foreign {
        stats.0 += 1;
        // a helper thread that exits at once: exercises the thread-local metadata pool from a
        // foreign (and afterwards dead) thread
        std::thread::spawn(act).join().map_err(|_| Failure::new(format!("C15/{kind}/wake/panicked-on-foreign-thread"), format!("step {step}: waking future {id} from a helper thread panicked")))?;
    } else {
        act();
    }
    if how % 4 == 3 {
        return Ok(()); // only dropped a clone
    }
    // the wake counts if the future is still in the deque and pending
    if let Some(e) = model.iter_mut().find(|e| e.id == id as u32 && e.state == MState::Pending) {
        let was_activated = e.activated;
        e.activated = true;
        if !was_activated {
            // the deque's own task must be woken through the current parent waker
            if let (Some(p), Some(b)) = (cur_parent, before) {
                let after = ledger.wakes[usize::from(p)].load(Ordering::Relaxed);
                if after == b {
                    return Err(Failure::new(format!("C15/{kind}/wake/parent-not-woken"), format!("step {step}: future {id} was woken after it returned Pending but the deque's current parent waker {p} was not invoked")));
                }
            }
        }
    }
    Ok(())
}

// ------------------------------------------------------------------------------------------------
// section `schedules`

#[derive(Debug, Clone, Copy, Serialize, Deserialize, PartialEq, Eq)]
enum WOp {
    /// complete future f and wake it
    CompleteWake { f: u8 },
    Wake { f: u8, how: u8 },
    /// take the waker the future captured out of the future's state and drop it on this task
    DropCaptured { f: u8 },
    Yield,
}

#[derive(Debug, Clone, Serialize, Deserialize)]
struct SCase {
    futures: u8,
    /// owner script: number of polls (with alternating parents) interleaved with pops
    owner_polls: u8,
    drop_deque_early: bool,
    wakers: Vec<Vec<WOp>>,
    schedule: Vec<u8>,
}

fn scase_strategy() -> impl Strategy<Value = SCase> {
    let wop = prop_oneof![
        4 => (0u8..3).prop_map(|f| WOp::CompleteWake { f }),
        4 => (0u8..3, 0u8..4).prop_map(|(f, how)| WOp::Wake { f, how }),
        3 => (0u8..3).prop_map(|f| WOp::DropCaptured { f }),
        1 => Just(WOp::Yield),
    ];
    let sched_byte = prop_oneof![5 => Just(0u8), 3 => 128u8..=255, 1 => 1u8..128];
    (1u8..4, 1u8..4, prop::bool::weighted(0.3), prop::collection::vec(prop::collection::vec(wop, 1..5), 1..3), prop::collection::vec(sched_byte, 0..60)).prop_map(|(futures, owner_polls, drop_deque_early, wakers, schedule)| SCase {
        futures,
        owner_polls,
        drop_deque_early,
        wakers,
        schedule,
    })
}

fn run_schedule(case: &SCase, ctx: &mut Ctx) -> Verdict {
    let fl = |k: &str, msg: String| Failure::new(format!("C15/schedules/{k}"), format!("{msg}; case={case:?}"));
    let world = Arc::new(World::default());
    let ledger = Arc::new(Ledger::default());
    // (end stamp of the owner's last poll, parent id used) and start stamps of effective wakes
    let owner_last: Arc<Mutex<Option<(u64, u8)>>> = Arc::new(Mutex::new(None));
    let wake_starts: Arc<Mutex<Vec<(u64, u8)>>> = Arc::new(Mutex::new(Vec::new()));
    let deque_slot: Arc<Mutex<Option<FutureDeque<Out>>>> = Arc::new(Mutex::new(None));
    let final_ok: Arc<Mutex<Option<String>>> = Arc::new(Mutex::new(None));
    let cfg = vsched::Config {
        free_on_refcount_zero: true,
        ..vsched::Config::default()
    };
    let out = {
        let world1 = Arc::clone(&world);
        let world_f = Arc::clone(&world);
        let ledger1 = Arc::clone(&ledger);
        let ledger_f = Arc::clone(&ledger);
        let owner_last1 = Arc::clone(&owner_last);
        let wake_starts1 = Arc::clone(&wake_starts);
        let deque1 = Arc::clone(&deque_slot);
        let deque_f = Arc::clone(&deque_slot);
        let final1 = Arc::clone(&final_ok);
        let case1 = case.clone();
        vsched::run_with_finale(
            &case.schedule,
            &cfg,
            move || {
                // setup on the harness thread: build the deque and poll it once so that every
                // future has captured a waker
                world1.nwakers.store(case1.wakers.len() as u32, Ordering::SeqCst);
                let mut dq = FutureDeque::<Out>::new();
                for _ in 0..case1.futures {
                    let (_, f) = new_future(&world1);
                    dq.push_back(f);
                }
                let wk = waker(0, &ledger1, false, None);
                let _ = dq.poll(&Context::from_waker(&wk));
                drop(wk);
                *owner_last1.lock().unwrap() = Some((world1.stamp(), 0));
                let mut tasks: Vec<vsched::TaskFn> = Vec::new();
                // owner
                {
                    let world = Arc::clone(&world1);
                    let ledger = Arc::clone(&ledger1);
                    let owner_last = Arc::clone(&owner_last1);
                    let deque = Arc::clone(&deque1);
                    let case = case1.clone();
                    tasks.push(Box::new(move || {
                        let mut dq = dq;
                        let mut popped = Vec::new();
                        for i in 0..case.owner_polls {
                            let parent = 1 + (i % 2);
                            let wk = waker(usize::from(parent), &ledger, false, None);
                            let _ = dq.poll(&Context::from_waker(&wk));
                            drop(wk);
                            *owner_last.lock().unwrap() = Some((world.stamp(), parent));
                            while let Some(o) = dq.pop_front() {
                                popped.push(o);
                            }
                        }
                        drop(popped);
                        if case.drop_deque_early {
                            drop(dq);
                        } else {
                            *deque.lock().unwrap() = Some(dq);
                        }
                    }));
                }
                for (wi, script) in case1.wakers.iter().enumerate() {
                    let world = Arc::clone(&world1);
                    let wake_starts = Arc::clone(&wake_starts1);
                    let script = script.clone();
                    let nf = usize::from(case1.futures);
                    tasks.push(Box::new(move || {
                        for op in &script {
                            match *op {
                                WOp::Yield => vsched::yield_point(),
                                WOp::DropCaptured { f } => {
                                    let id = usize::from(f) % nf;
                                    let st = Arc::clone(&world.futs.lock().unwrap()[id]);
                                    let key = id * 8 + wi + 1;
                                    let taken = st.task_wakers.lock().unwrap().get_mut(wi).and_then(Option::take);
                                    vsched::hb_recv(key);
                                    drop(taken);
                                }
                                WOp::CompleteWake { f } | WOp::Wake { f, .. } => {
                                    let id = usize::from(f) % nf;
                                    let st = Arc::clone(&world.futs.lock().unwrap()[id]);
                                    let key = id * 8 + wi + 1;
                                    let how = match *op {
                                        WOp::CompleteWake { .. } => {
                                            st.ready.store(true, Ordering::SeqCst);
                                            1
                                        }
                                        WOp::Wake { how, .. } => how % 4,
                                        WOp::Yield | WOp::DropCaptured { .. } => unreachable!(),
                                    };
                                    let taken = st.task_wakers.lock().unwrap().get_mut(wi).and_then(Option::take);
                                    let Some(w) = taken else { continue };
                                    vsched::hb_recv(key);
                                    if how != 3 {
                                        wake_starts.lock().unwrap().push((world.stamp(), f));
                                        if st.ready.load(Ordering::SeqCst) {
                                            st.woken_when_ready.store(true, Ordering::SeqCst);
                                        }
                                    }
                                    let back = match how {
                                        0 => {
                                            w.wake();
                                            None
                                        }
                                        1 => {
                                            w.wake_by_ref();
                                            Some(w)
                                        }
                                        2 => {
                                            let c = w.clone();
                                            c.wake();
                                            Some(w)
                                        }
                                        _ => {
                                            drop(w);
                                            None
                                        }
                                    };
                                    if let Some(w) = back {
                                        // put the clone back unless the owner handed over a newer one
                                        vsched::hb_send(key);
                                        let stale = {
                                            let mut g = st.task_wakers.lock().unwrap();
                                            match g.get_mut(wi) {
                                                Some(slot) if slot.is_none() => {
                                                    *slot = Some(w);
                                                    None
                                                }
                                                _ => Some(w),
                                            }
                                        };
                                        drop(stale);
                                    }
                                }
                            }
                        }
                    }));
                }
                tasks
            },
            move || {
                // quiescence: if the deque still exists, one more poll must pick up every woken
                // future: all completed+woken futures become poppable
                let mut msg = None;
                for st in world_f.futs.lock().unwrap().iter() {
                    st.completed_before_finale.store(st.completed.load(Ordering::SeqCst), Ordering::SeqCst);
                }
                if let Some(mut dq) = deque_f.lock().unwrap().take() {
                    let wk = waker(3, &ledger_f, false, None);
                    let _ = dq.poll(&Context::from_waker(&wk));
                    drop(wk);
                    let futs = world_f.futs.lock().unwrap().clone();
                    let mut got = Vec::new();
                    // pop everything poppable from the front
                    while let Some(o) = dq.pop_front() {
                        got.push(o.id);
                    }
                    // every future that was completed and woken must by now have been polled to
                    // completion; the ones at the front are poppable
                    let mut expect = Vec::new();
                    for (id, st) in futs.iter().enumerate() {
                        let woken_ready = st.ready.load(Ordering::SeqCst) && st.woken_when_ready.load(Ordering::SeqCst);
                        if woken_ready {
                            expect.push(id as u32);
                        } else {
                            break;
                        }
                    }
                    // earlier pops by the owner removed a prefix already
                    let missing: Vec<&u32> = expect.iter().filter(|id| !got.contains(id) && futs[**id as usize].dropped.load(Ordering::Relaxed) == 0).collect();
                    if !missing.is_empty() {
                        msg = Some(format!("after a final poll, completed-and-woken futures {missing:?} at the front are still not poppable (popped {got:?})"));
                    }
                    drop(dq);
                }
                let futs = world_f.futs.lock().unwrap().clone();
                for st in &futs {
                    let w = st.waker.lock().unwrap().take();
                    drop(w);
                    let ws: Vec<Option<Waker>> = std::mem::take(&mut *st.task_wakers.lock().unwrap());
                    drop(ws);
                }
                *final1.lock().unwrap() = msg;
            },
        )
    };
    ctx.classify(&format!("waker-tasks:{}", case.wakers.len()));
    if case.drop_deque_early {
        ctx.classify("deque-dropped-while-wakers-live");
    }
    if out.hung {
        return Err(fl("hang", "execution did not finish".into()));
    }
    if out.step_bound_hit {
        ctx.classify("inconclusive-step-bound");
        return Ok(());
    }
    if let Some((t, m)) = out.panics.first() {
        return Err(fl("panic", format!("task {t} panicked: {m}")));
    }
    if out.preemptions > 0 {
        ctx.classify("preempted");
        ctx.nontrivial();
    }
    if let Some(m) = final_ok.lock().unwrap().take() {
        return Err(fl("wake/lost", m));
    }
    // parent obligation: a wake that started after the owner's last poll had ended must have
    // invoked the parent waker of that poll (otherwise the deque's task sleeps forever)
    if !case.drop_deque_early {
        if let Some((end, parent)) = *owner_last.lock().unwrap() {
            // only wakes of futures that were still pending oblige
            let futs = world.futs.lock().unwrap().clone();
            let nf = futs.len();
            let late: Vec<(u64, u8)> = wake_starts.lock().unwrap().iter().copied().filter(|(s, f)| *s > end && !futs[usize::from(*f) % nf].completed_before_finale.load(Ordering::SeqCst)).collect();
            if !late.is_empty() {
                let wakes = ledger.wakes[usize::from(parent)].load(Ordering::Relaxed);
                // only a wake of a future that was pending and not yet re-activated obliges; the
                // first late wake of each future is such a wake unless an earlier concurrent one
                // already re-activated it - in which case that earlier one woke the parent
                if wakes == 0 {
                    // the earlier wake may have invoked an older parent only if it ran before
                    // the owner's last poll replaced the parent; it then re-activated the future
                    // and that last poll polled it. A late wake after that poll found it idle.
                    return Err(fl("wake/parent-not-woken", format!("wakes {late:?} started after the owner's last poll (parent {parent}) had ended, but that parent waker was never invoked")));
                }
            }
        }
    }
    if out.releases.iter().any(|r| r.task < 1 + case.wakers.len()) {
        ctx.classify("metadata-freed-by-a-task");
    }
    for r in &out.releases {
        if !r.unordered_with.is_empty() {
            return Err(fl("meta/freed-without-happens-before", format!("task {} dropped a waker metadata reference count to zero although accesses of task(s) {:?} to it do not happen-before that", r.task, r.unordered_with)));
        }
    }
    if let Some(u) = out.use_after_free.first() {
        return Err(fl("meta/used-after-refcount-zero", u.clone()));
    }
    if let Some(r) = out.races.first() {
        return Err(fl("race/parent-waker-clone", format!("unordered conflicting accesses to a {}: task {} {} vs task {} {}", r.object, r.first_task, r.first, r.second_task, r.second)));
    }
    let futs = world.futs.lock().unwrap().clone();
    for (id, st) in futs.iter().enumerate() {
        let d = st.dropped.load(Ordering::Relaxed);
        if d != 1 {
            return Err(fl("drop/future-not-dropped-exactly-once", format!("future {id} dropped {d} times")));
        }
    }
    if world.outputs_created.load(Ordering::Relaxed) != world.outputs_dropped.load(Ordering::Relaxed) {
        return Err(fl("drop/output-not-dropped-exactly-once", "outputs produced != outputs dropped".into()));
    }
    let clones = ledger.waker_clones.load(Ordering::Relaxed);
    let consumed = ledger.waker_consumed.load(Ordering::Relaxed);
    if ledger.waker_double_consume.load(Ordering::Relaxed) > 0 || clones != consumed {
        return Err(fl("parent-waker/clone-not-consumed-exactly-once", format!("{clones} parent waker clones made, {consumed} consumed")));
    }
    ledger.free_wakers();
    Ok(())
}

fn main() {
    vsched::install_shim!(future_deque);
    let mut h = Harness::from_args("C15");
    let max_ops = h.pick(60usize, 300usize);
    let cases = h.cases(120_000, 6_000_000);
    h.section(
        "history",
        "generated single-owner history over FutureDeque / LocalFutureDeque: push_back/front of scripted futures, poll / poll_front / poll_back with parent wakers 0..2, pop_front/back, complete(future), wake|wake_by_ref|clone+wake|drop of the waker a future captured (on the owner thread or on a helper thread joined at once), len. Oracle after every step against a VecDeque model: pops equal the model's and return nothing for an uncompleted end, exactly the inserted-or-woken pending futures are polled (front to back), a wake of an idle pending future invokes the current parent waker, poll readiness, len; at the end every future and output dropped exactly once, parent waker clones consumed exactly once. non-trivial = completion order differs from insertion order and >= 1 wake from a foreign thread; distinct by serialised case",
        cases,
        hcase_strategy(max_ops),
        |case, ctx| if case.local { run_history::<LocalFutureDeque<Out>>(case, ctx) } else { run_history::<FutureDeque<Out>>(case, ctx) },
    );
    let cases = h.cases(100_000, 8_000_000);
    h.section(
        "schedules",
        "owner task (polls with alternating parent wakers, pops, then drops or keeps the deque) and 1..2 waker tasks (complete+wake, wake, wake_by_ref, clone+wake, drop of captured wakers) under generated schedule bytes; every atomic / mutex operation of future_deque is a scheduling point. Oracle: after a final poll every completed-and-woken future at the front is poppable (no lost wake-up), a wake that started after the owner's last poll invoked that poll's parent waker, the metadata reference count reaches zero only after every other task's accesses happen-before it and is never touched afterwards, futures/outputs dropped exactly once, parent waker clones consumed exactly once. non-trivial = execution with >= 1 pre-emption; distinct by serialised case",
        cases,
        scase_strategy(),
        run_schedule,
    );
    h.finish()
}
