//! C09 — processor selection returns exactly what was asked for, or nothing.
//!
//! Generator: fake topologies (1..64 processors, sparse ids, 1..8 regions with skewed sizes,
//! mixed efficiency classes, optional quota) × requests (source subset, class selector, region
//! policy, except set, filter mask, quota on/off, take(n) | take_all), each request repeated
//! because the implementation draws from `rand::rng()`.
//! Oracle: validity of the returned set + brute-force satisfiability when `None` is returned.

use std::collections::{BTreeMap, BTreeSet};
use std::num::NonZero;

use many_cpus_impl::fake::{HardwareBuilder, ProcessorBuilder};
use many_cpus_impl::{EfficiencyClass, Processor, ProcessorSet, SystemHardware};
use nonempty::NonEmpty;
use proptest::prelude::*;
use serde::{Deserialize, Serialize};
use vcommon::{Ctx, Harness, Verdict, ensure, fail, pick_index};

#[derive(Debug, Clone, Serialize, Deserialize)]
struct Proc {
    id: u32,
    region: u32,
    eff: bool,
}

#[derive(Debug, Clone, Serialize, Deserialize)]
struct Case {
    procs: Vec<Proc>,
    /// None = no quota configured
    quota: Option<f64>,
    /// source: 0 = all_processors(), 1 = processors() (quota-limited default set),
    /// 2 = take_exact of `source_pick`
    source_kind: u8,
    source_pick: Vec<u16>,
    class: u8,
    policy: u8,
    except: Vec<u16>,
    /// predicate = bit (index in topology) % 64 set in mask
    filter_mask: Option<u64>,
    enforce_quota: bool,
    /// None = take_all, Some(raw) = take(n) with n mapped into 1..=count+2
    take: Option<u16>,
    /// n is mapped into 1..=candidates+2 (true) or 1..=count+2 (false)
    take_rel: bool,
    /// the builder calls, in order (any number of each, any order); `None` (older replay files) =
    /// one call per criterion from the fields above in the fixed order class, policy, except,
    /// filter, quota
    #[serde(default)]
    mods: Option<Vec<Mod>>,
    /// pin the calling thread (on the fake hardware) to these processors before building
    #[serde(default)]
    pin_pick: Option<Vec<u16>>,
}

/// One builder call. Class and region-policy calls overwrite earlier ones (last call wins);
/// exclusions, filters and the thread-availability restriction accumulate; the quota flag sticks.
#[derive(Debug, Clone, Serialize, Deserialize)]
enum Mod {
    Performance,
    Efficiency,
    /// 1 same, 2 different, 3 prefer-same, 4 prefer-different
    Policy(u8),
    Except(Vec<u16>),
    Filter(u64),
    EnforceQuota,
    AvailableForThread,
}

fn mods_strategy() -> impl Strategy<Value = Vec<Mod>> {
    let m = prop_oneof![
        2 => Just(Mod::Performance),
        2 => Just(Mod::Efficiency),
        4 => (1u8..=4).prop_map(Mod::Policy),
        2 => prop::collection::vec(any::<u16>(), 0..6).prop_map(Mod::Except),
        1 => prop::collection::vec(any::<u16>(), 0..40).prop_map(Mod::Except),
        2 => any::<u64>().prop_map(Mod::Filter),
        2 => (any::<u64>(), any::<u64>()).prop_map(|(a, b)| Mod::Filter(a | b)),
        2 => Just(Mod::EnforceQuota),
        1 => Just(Mod::AvailableForThread),
    ];
    prop::collection::vec(m, 0..8)
}

fn topo_strategy() -> impl Strategy<Value = (Vec<Proc>, Option<f64>)> {
    (1usize..=64, 1usize..=8, 0u8..4).prop_flat_map(|(count, nregions, skew)| {
        (
            prop::sample::subsequence((0u32..200).collect::<Vec<_>>(), count),
            prop::sample::subsequence((0u32..16).collect::<Vec<_>>(), nregions),
            prop::collection::vec((any::<u16>(), prop::bool::weighted(0.3)), count),
            Just(skew),
            prop_oneof![
                3 => Just(None),
                1 => Just(Some(0.3)),
                1 => Just(Some(1.0)),
                1 => Just(Some(1.5)),
                1 => Just(Some(2.0)),
                2 => (1u32..70).prop_map(|k| Some(f64::from(k))),
                2 => (1u32..70).prop_map(|k| Some(f64::from(k) + 0.9)),
            ],
        )
            .prop_map(|(ids, regions, assign, skew, quota)| {
                let regions: Vec<u32> = regions.into_iter().collect();
                let nr = regions.len();
                let procs = ids
                    .into_iter()
                    .zip(assign)
                    .enumerate()
                    .map(|(i, (id, (raw, eff)))| {
                        let x = f64::from(raw) / 65536.0;
                        let ri = match skew {
                            0 => (x * nr as f64) as usize,
                            1 => (x * x * x * nr as f64) as usize, // first-heavy
                            2 => i * nr / 64usize.max(1) % nr,     // blocks
                            _ => {
                                // two big regions then singletons
                                if x < 0.4 {
                                    0
                                } else if x < 0.8 {
                                    1 % nr
                                } else {
                                    (x * nr as f64) as usize
                                }
                            }
                        };
                        Proc {
                            id,
                            region: regions[ri.min(nr - 1)],
                            eff,
                        }
                    })
                    .collect();
                (procs, quota)
            })
    })
}

fn case_strategy() -> impl Strategy<Value = Case> {
    (
        topo_strategy(),
        prop_oneof![3 => Just(0u8), 1 => Just(1u8), 2 => Just(2u8)],
        prop::collection::vec(any::<u16>(), 1..40),
        0u8..3,
        0u8..5,
        prop_oneof![2 => Just(vec![]), 2 => prop::collection::vec(any::<u16>(), 0..6), 1 => prop::collection::vec(any::<u16>(), 0..40)],
        prop_oneof![2 => Just(None), 1 => any::<u64>().prop_map(Some), 1 => (any::<u64>(), any::<u64>()).prop_map(|(a, b)| Some(a | b))],
        any::<bool>(),
        prop_oneof![1 => Just(None), 4 => any::<u16>().prop_map(Some)],
        prop::bool::weighted(0.75),
        (mods_strategy(), prop::option::weighted(0.3, prop::collection::vec(any::<u16>(), 1..12))),
    )
        .prop_map(
            |((procs, quota), source_kind, source_pick, class, policy, except, filter_mask, enforce_quota, take, take_rel, (mods, pin_pick))| Case {
                procs,
                quota,
                source_kind,
                source_pick,
                class,
                policy,
                except,
                filter_mask,
                enforce_quota,
                take,
                take_rel,
                mods: Some(mods),
                pin_pick,
            },
        )
}

const POLICY: [&str; 5] = ["any", "require-same", "require-different", "prefer-same", "prefer-different"];

fn build_hw(case: &Case) -> SystemHardware {
    let mut b = HardwareBuilder::new();
    for p in &case.procs {
        b = b.processor(
            ProcessorBuilder::new()
                .id(p.id)
                .memory_region(p.region)
                .efficiency_class(if p.eff {
                    EfficiencyClass::Efficiency
                } else {
                    EfficiencyClass::Performance
                }),
        );
    }
    if let Some(q) = case.quota {
        b = b.max_processor_time(q);
    }
    SystemHardware::fake(b)
}

fn ids_of(set: &ProcessorSet) -> Vec<u32> {
    set.processors().iter().map(Processor::id).collect()
}

fn check(case: &Case, ctx: &mut Ctx, repeats: u32) -> Verdict {
    let hw = build_hw(case);
    let by_id: BTreeMap<u32, (usize, &Proc)> = case.procs.iter().enumerate().map(|(i, p)| (p.id, (i, p))).collect();
    let quota_time = case.quota.unwrap_or(case.procs.len() as f64);
    let quota_limit = (quota_time.floor() as usize).max(1);

    // --- the whole-hardware sets
    let all = hw.all_processors();
    {
        let got: BTreeSet<u32> = ids_of(&all).into_iter().collect();
        let want: BTreeSet<u32> = case.procs.iter().map(|p| p.id).collect();
        ensure!(got == want && all.len() == want.len(), "C09/all_processors/not-all", "all_processors() = {:?}, topology = {:?}", got, want);
    }

    // --- source set
    let (source, source_ids): (ProcessorSet, BTreeSet<u32>) = match case.source_kind {
        0 => {
            let ids = ids_of(&all).into_iter().collect();
            (all.clone(), ids)
        }
        1 => {
            let s = hw.processors();
            let ids: BTreeSet<u32> = ids_of(&s).into_iter().collect();
            ensure!(ids.len() == s.len(), "C09/processors/duplicates", "processors() has duplicates: {:?}", ids_of(&s));
            ensure!(
                s.len() == case.procs.len().min(quota_limit),
                "C09/processors/quota-size",
                "processors() returned {} of {} with quota {:?} (limit {})",
                s.len(),
                case.procs.len(),
                case.quota,
                quota_limit
            );
            ensure!(ids.iter().all(|i| by_id.contains_key(i)), "C09/processors/foreign", "processors() has unknown ids");
            (s, ids)
        }
        _ => {
            let mut picked = BTreeSet::new();
            for raw in &case.source_pick {
                picked.insert(pick_index(*raw, case.procs.len()));
            }
            let chosen: Vec<Processor> = all
                .processors()
                .iter()
                .filter(|p| picked.contains(&by_id[&p.id()].0))
                .cloned()
                .collect();
            let ne = NonEmpty::from_vec(chosen).expect("at least one picked");
            let s = all.to_builder().take_exact(ne);
            let ids: BTreeSet<u32> = ids_of(&s).into_iter().collect();
            let want: BTreeSet<u32> = picked.iter().map(|i| case.procs[*i].id).collect();
            ensure!(ids == want, "C09/take_exact/mismatch", "take_exact returned {:?}, wanted {:?}", ids, want);
            (s, ids)
        }
    };

    // --- the builder calls and what they mean
    let mods: Vec<Mod> = case.mods.clone().unwrap_or_else(|| {
        let mut v = Vec::new();
        match case.class {
            0 => {}
            1 => v.push(Mod::Performance),
            _ => v.push(Mod::Efficiency),
        }
        if case.policy > 0 {
            v.push(Mod::Policy(case.policy));
        }
        if !case.except.is_empty() {
            v.push(Mod::Except(case.except.clone()));
        }
        if let Some(m) = case.filter_mask {
            v.push(Mod::Filter(m));
        }
        if case.enforce_quota {
            v.push(Mod::EnforceQuota);
        }
        v
    });
    let mut eff_class = 0u8;
    let mut eff_policy = 0u8;
    let mut except_ids: BTreeSet<u32> = BTreeSet::new();
    let mut filters: Vec<u64> = Vec::new();
    let mut enforce_quota = false;
    let mut avail_only = false;
    for m in &mods {
        match m {
            Mod::Performance => eff_class = 1,
            Mod::Efficiency => eff_class = 2,
            Mod::Policy(p) => eff_policy = (*p).clamp(1, 4),
            Mod::Except(raws) => except_ids.extend(raws.iter().map(|r| case.procs[pick_index(*r, case.procs.len())].id)),
            Mod::Filter(f) => filters.push(*f),
            Mod::EnforceQuota => enforce_quota = true,
            Mod::AvailableForThread => avail_only = true,
        }
    }
    if mods.len() >= 2 {
        ctx.classify("builder-calls>=2");
    }
    {
        let classes = mods.iter().filter(|m| matches!(m, Mod::Performance | Mod::Efficiency)).count();
        let policies = mods.iter().filter(|m| matches!(m, Mod::Policy(_))).count();
        if classes >= 2 || policies >= 2 {
            ctx.classify("criterion-overwritten-by-later-call");
        }
        let first_filter = mods.iter().position(|m| matches!(m, Mod::Filter(_) | Mod::AvailableForThread));
        let last_class = mods.iter().rposition(|m| matches!(m, Mod::Performance | Mod::Efficiency));
        if first_filter.zip(last_class).is_some_and(|(f, c)| f < c) {
            ctx.classify("class-selector-after-filter");
        }
        if filters.len() >= 2 {
            ctx.classify(">=2-filters");
        }
    }
    // the calling thread's pin on this fake hardware (this harness thread is used for every case;
    // pin state is per hardware instance, and every case builds its own)
    let pinned_ids: Option<BTreeSet<u32>> = case.pin_pick.as_ref().map(|picks| {
        let idxs: BTreeSet<usize> = picks.iter().map(|r| pick_index(*r, case.procs.len())).collect();
        let chosen: Vec<Processor> = all.processors().iter().filter(|p| idxs.contains(&by_id[&p.id()].0)).cloned().collect();
        let set = all.to_builder().take_exact(NonEmpty::from_vec(chosen).expect("at least one picked"));
        set.pin_current_thread_to();
        ids_of(&set).into_iter().collect()
    });
    if avail_only {
        ctx.classify(if pinned_ids.is_some() { "available-for-thread:pinned" } else { "available-for-thread:unpinned" });
    }

    // --- independent candidate computation
    let passes_filter = |idx: usize| filters.iter().all(|m| (m >> (idx % 64)) & 1 == 1);
    let cand: BTreeSet<u32> = source_ids
        .iter()
        .copied()
        .filter(|id| {
            let (idx, p) = by_id[id];
            !except_ids.contains(id)
                && passes_filter(idx)
                && (!avail_only || pinned_ids.as_ref().is_none_or(|s| s.contains(id)))
                && match eff_class {
                    0 => true,
                    1 => !p.eff,
                    _ => p.eff,
                }
        })
        .collect();
    let mut region_sizes: BTreeMap<u32, usize> = BTreeMap::new();
    for id in &cand {
        *region_sizes.entry(by_id[id].1.region).or_insert(0) += 1;
    }
    let mut sizes_desc: Vec<usize> = region_sizes.values().copied().collect();
    sizes_desc.sort_unstable_by(|a, b| b.cmp(a));
    let nregions = sizes_desc.len();
    let policy = POLICY[eff_policy as usize];
    ctx.classify(&format!("policy:{policy}"));
    ctx.classify(match case.source_kind {
        0 => "source:all",
        1 => "source:default",
        _ => "source:subset",
    });
    if nregions >= 2 && sizes_desc.first() != sizes_desc.last() {
        ctx.classify("unequal-regions");
    }

    let n_req = case.take.map(|raw| 1 + pick_index(raw, if case.take_rel { cand.len() + 2 } else { case.procs.len() + 2 }));
    if let Some(n) = n_req {
        ctx.classify(if n <= cand.len() { "take-n<=candidates" } else { "take-n>candidates" });
    } else {
        ctx.classify("take_all");
    }

    let min_regions_for = |n: usize| -> Option<usize> {
        let mut acc = 0;
        for (k, s) in sizes_desc.iter().enumerate() {
            acc += s;
            if acc >= n {
                return Some(k + 1);
            }
        }
        None
    };

    for _rep in 0..repeats {
        let mut b = source.to_builder();
        let idx_of: BTreeMap<u32, usize> = by_id.iter().map(|(k, v)| (*k, v.0)).collect();
        for m in &mods {
            b = match m {
                Mod::Performance => b.performance_processors_only(),
                Mod::Efficiency => b.efficiency_processors_only(),
                Mod::Policy(1) => b.same_memory_region(),
                Mod::Policy(2) => b.different_memory_regions(),
                Mod::Policy(3) => b.prefer_same_memory_region(),
                Mod::Policy(_) => b.prefer_different_memory_regions(),
                Mod::Except(raws) => {
                    let these: BTreeSet<u32> = raws.iter().map(|r| case.procs[pick_index(*r, case.procs.len())].id).collect();
                    let ex: Vec<Processor> = all.processors().iter().filter(|p| these.contains(&p.id())).cloned().collect();
                    b.except(ex.iter())
                }
                Mod::Filter(f) => {
                    let f = *f;
                    let idx_of = &idx_of;
                    b.filter(move |p| (f >> (idx_of[&p.id()] % 64)) & 1 == 1)
                }
                Mod::EnforceQuota => b.enforce_resource_quota(),
                Mod::AvailableForThread => b.where_available_for_current_thread(),
            };
        }

        let result = match n_req {
            Some(n) => b.take(NonZero::new(n).expect("n>=1")),
            None => b.take_all(),
        };

        let op = if n_req.is_some() { "take" } else { "take_all" };
        match (&result, n_req) {
            (Some(set), n_opt) => {
                let got = ids_of(set);
                let got_set: BTreeSet<u32> = got.iter().copied().collect();
                ensure!(got_set.len() == got.len(), format!("C09/{op}/{policy}/duplicates"), "returned duplicates {:?}", got);
                ensure!(set.len() == got.len(), format!("C09/{op}/{policy}/len-mismatch"), "len() {} vs {} processors", set.len(), got.len());
                ensure!(
                    got_set.is_subset(&cand),
                    format!("C09/{op}/{policy}/not-candidate"),
                    "returned {:?} contains non-candidates; candidates {:?}",
                    got,
                    cand
                );
                for p in set.processors() {
                    let (_, tp) = by_id[&p.id()];
                    ensure!(
                        p.memory_region_id() == tp.region && (p.efficiency_class() == EfficiencyClass::Efficiency) == tp.eff,
                        format!("C09/{op}/{policy}/processor-attributes"),
                        "processor {} reported region {} class {:?}; topology says region {} eff {}",
                        p.id(),
                        p.memory_region_id(),
                        p.efficiency_class(),
                        tp.region,
                        tp.eff
                    );
                }
                let spanned: BTreeSet<u32> = got.iter().map(|id| by_id[id].1.region).collect();
                if let Some(n) = n_opt {
                    if got.len() > n {
                        fail!(format!("C09/take/{policy}/returned_more_than_n"), "take({n}) returned {} processors {:?}; region sizes {:?}", got.len(), got, sizes_desc);
                    }
                    ensure!(got.len() == n, format!("C09/take/{policy}/returned_fewer_than_n"), "take({n}) returned {} processors {:?}", got.len(), got);
                    if enforce_quota {
                        ensure!(n <= quota_limit, format!("C09/take/{policy}/quota-exceeded"), "take({n}) succeeded with quota {:?} (limit {quota_limit})", case.quota);
                    }
                    match eff_policy {
                        1 => ensure!(spanned.len() == 1, "C09/take/require-same/spans-regions", "take({n}) same-region spans {:?}", spanned),
                        2 => ensure!(spanned.len() == n, "C09/take/require-different/shares-region", "take({n}) different-regions spans only {:?}", spanned),
                        3 => {
                            let want = min_regions_for(n).expect("Some result implies enough candidates (checked above by subset+len)");
                            ensure!(
                                spanned.len() == want,
                                "C09/take/prefer-same/not-fewest-regions",
                                "take({n}) prefer-same spans {} regions, fewest possible {want}; sizes {:?}",
                                spanned.len(),
                                sizes_desc
                            );
                        }
                        4 => {
                            let want = n.min(nregions);
                            ensure!(
                                spanned.len() == want,
                                "C09/take/prefer-different/not-most-regions",
                                "take({n}) prefer-different spans {} regions, most possible {want}; sizes {:?}",
                                spanned.len(),
                                sizes_desc
                            );
                        }
                        _ => {}
                    }
                } else {
                    // take_all: a largest qualifying set, cut down to the quota
                    let limit = if enforce_quota { quota_limit } else { usize::MAX };
                    match eff_policy {
                        1 => {
                            ensure!(spanned.len() == 1, "C09/take_all/require-same/spans-regions", "spans {:?}", spanned);
                            let r = *spanned.iter().next().expect("one");
                            let full = region_sizes[&r];
                            ensure!(
                                got.len() == full.min(limit),
                                "C09/take_all/require-same/not-whole-region",
                                "returned {} of region {r} holding {full} candidates (limit {limit})",
                                got.len()
                            );
                        }
                        2 => {
                            ensure!(spanned.len() == got.len(), "C09/take_all/require-different/shares-region", "returned {:?} spanning {:?}", got, spanned);
                            ensure!(
                                got.len() == nregions.min(limit),
                                "C09/take_all/require-different/not-one-per-region",
                                "returned {} processors for {nregions} candidate regions (limit {limit})",
                                got.len()
                            );
                        }
                        _ => {
                            ensure!(
                                got.len() == cand.len().min(limit),
                                format!("C09/take_all/{policy}/not-all-candidates"),
                                "returned {} of {} candidates (limit {limit})",
                                got.len(),
                                cand.len()
                            );
                        }
                    }
                }
            }
            (None, Some(n)) => {
                let quota_forbids = enforce_quota && n > quota_limit;
                let satisfiable = match eff_policy {
                    1 => sizes_desc.first().is_some_and(|s| *s >= n),
                    2 => nregions >= n,
                    _ => cand.len() >= n,
                };
                ensure!(
                    quota_forbids || !satisfiable,
                    format!("C09/take/{policy}/none-but-satisfiable"),
                    "take({n}) returned None; candidates {} region sizes {:?} quota_limit {:?}",
                    cand.len(),
                    sizes_desc,
                    enforce_quota.then_some(quota_limit)
                );
            }
            (None, None) => {
                ensure!(cand.is_empty(), format!("C09/take_all/{policy}/none-but-candidates"), "take_all returned None with candidates {:?}", cand);
            }
        }
    }

    // non-trivial: >=2 candidate regions of unequal size and a satisfiable request the largest
    // region alone cannot serve (or a take_all over them)
    if nregions >= 2 && sizes_desc.first() != sizes_desc.last() {
        match n_req {
            Some(n) if n <= cand.len() && n > sizes_desc[0] => ctx.nontrivial(),
            None => ctx.nontrivial(),
            _ => {}
        }
    }
    Ok(())
}

fn main() {
    let mut h = Harness::from_args("C09");
    let repeats = h.pick(8u32, 64u32);
    let cases = h.cases(240_000, 4_000_000);
    h.section(
        "selection",
        "generated fake topology x request (source, class, policy, except, filter, quota, take(n)|take_all), each request repeated (8 quick / 64 thorough) for the implementation's internal randomness; non-trivial = >=2 candidate regions of unequal size and (take_all, or a satisfiable take(n) larger than the largest region); distinct by serialised case",
        cases,
        case_strategy(),
        |case, ctx| check(case, ctx, repeats),
    );
    h.finish()
}
