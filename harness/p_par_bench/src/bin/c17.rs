//! C17 — multithreaded benchmark runs: exact iteration counts, no use after return.
//!
//! Section `healthy` (in process): generated (thread count 1..16 taken from the real hardware,
//! 1..3 consecutive runs on ONE pool, each with a group count dividing the thread count, an
//! iteration count 0..200 and optionally one slow preparing thread). Every callback logs
//! (thread, phase, entry/exit sequence number, observed meta) into harness-owned storage.
//! Oracle: exact per-thread call counts and order, even group sizes, "released together"
//! (every prepare callback of every thread exits before any thread's measured part begins),
//! one measure output per thread, same pool threads in every run.
//!
//! Section `fault` (child process, engine E3): a healthy probe run tells the harness in which
//! order the pool reports its threads (measure outputs are in that order), then a scripted run
//! panics in a generated phase on a generated subset of threads while the other threads are
//! parked inside generated callbacks for generated times (released early when DEAD is set).
//! All state borrowed by the callbacks is leaked, `DEAD` is set right after
//! `catch_unwind(execute_on)` came back, and every callback reads `DEAD` on entry and exit:
//! a callback that sees it ran (or was still running) after the call had returned/unwound.

use std::num::NonZero;
use std::panic::{AssertUnwindSafe, catch_unwind};
use std::sync::atomic::{AtomicBool, AtomicU32, AtomicU64, AtomicUsize, Ordering::SeqCst};
use std::sync::{Arc, Condvar, Mutex, OnceLock};
use std::thread::ThreadId;
use std::time::{Duration, Instant};

use many_cpus::SystemHardware;
use par_bench::{ConfiguredRun, Run, RunMeta, ThreadPool};
use proptest::prelude::*;
use serde::{Deserialize, Serialize};
use vcommon::worker::{Reply, Worker, serve, worker_role};
use vcommon::{Ctx, Failure, Harness, Verdict, ensure, fail, pick_index};

const PT: u8 = 0;
const PI: u8 = 1;
const BG: u8 = 2;
const IT: u8 = 3;
const EN: u8 = 4;
/// drop of the value an `iter` callback returned ("dropped after the measured part")
const CL: u8 = 5;
const PHASE: [&str; 6] = ["prepare_thread", "prepare_iter", "begin", "iter", "end", "cleanup-drop"];

/// How long the worker waits for `execute_on` before it calls the run hung (never a verdict).
const HANG_MS: u64 = 1200;

// ------------------------------------------------------------------------------------------
// Recording callbacks (shared by both sections)
// ------------------------------------------------------------------------------------------

#[derive(Clone, Debug)]
struct Ev {
    phase: u8,
    entry: u64,
    exit: u64,
    /// group index seen through the meta argument (usize::MAX: callback has no meta)
    group: usize,
    meta_ok: bool,
}

/// One slot per thread that ever ran a callback of the run: claimed lock-free on the thread's
/// first callback, afterwards only that thread (and the oracle) touch the slot's mutex.
struct Slot {
    id: OnceLock<ThreadId>,
    evs: Mutex<Vec<Ev>>,
}

const SLOTS: usize = 48;

struct ThreadLog {
    id: ThreadId,
    evs: Vec<Ev>,
}

#[derive(Default)]
struct Script {
    threads: usize,
    groups: usize,
    iterations: u64,
    /// (arrival ordinal at its first callback, microseconds slept inside prepare_thread)
    slow: Option<(usize, u64)>,
    /// (phase, k): where the panicking threads panic
    fault: Option<(u8, u64)>,
    panickers: Vec<ThreadId>,
    /// (thread, phase, k, milliseconds): park inside that callback until DEAD or the time passed
    holds: Vec<(ThreadId, u8, u64, u64)>,
}

struct Rec {
    script: Script,
    seq: AtomicU64,
    dead: AtomicBool,
    fired: AtomicBool,
    inside: AtomicUsize,
    /// bit per phase: a callback of that phase observed DEAD on entry or exit
    uar: AtomicU32,
    /// callbacks that finished after the first scripted panic had fired
    ran_after_fired: AtomicU64,
    /// state handed to a callback was not the state the same thread's earlier callback produced:
    /// bit 0 thread state in prepare_iter, 1 thread state in begin, 2 thread state in iter,
    /// 3 iteration state in iter
    state_mismatch: AtomicU32,
    slots: Vec<Slot>,
    /// threads that found no free slot (more than SLOTS distinct threads ran callbacks)
    overflow: AtomicUsize,
    gate: (Mutex<()>, Condvar),
}

impl Rec {
    fn new(script: Script) -> Self {
        Self {
            script,
            seq: AtomicU64::new(0),
            dead: AtomicBool::new(false),
            fired: AtomicBool::new(false),
            inside: AtomicUsize::new(0),
            uar: AtomicU32::new(0),
            ran_after_fired: AtomicU64::new(0),
            state_mismatch: AtomicU32::new(0),
            slots: (0..SLOTS)
                .map(|_| Slot {
                    id: OnceLock::new(),
                    evs: Mutex::new(Vec::new()),
                })
                .collect(),
            overflow: AtomicUsize::new(0),
            gate: (Mutex::new(()), Condvar::new()),
        }
    }

    /// Slot index of the calling thread (claims one on first use).
    fn slot_of(&self, me: ThreadId) -> usize {
        for (i, s) in self.slots.iter().enumerate() {
            match s.id.get() {
                Some(id) if *id == me => return i,
                Some(_) => {}
                None => {
                    if s.id.set(me).is_ok() || s.id.get() == Some(&me) {
                        return i;
                    }
                }
            }
        }
        self.overflow.fetch_add(1, SeqCst);
        SLOTS - 1
    }

    /// Snapshot of the per-thread logs in slot order.
    fn logs(&self) -> Vec<ThreadLog> {
        self.slots
            .iter()
            .filter_map(|s| {
                s.id.get().map(|id| ThreadLog {
                    id: *id,
                    evs: s.evs.lock().unwrap_or_else(|e| e.into_inner()).clone(),
                })
            })
            .collect()
    }

    fn set_dead(&self) {
        let _g = self.gate.0.lock().unwrap_or_else(|e| e.into_inner());
        self.dead.store(true, SeqCst);
        self.gate.1.notify_all();
    }
}

struct InsideGuard<'a>(&'a Rec);

impl Drop for InsideGuard<'_> {
    fn drop(&mut self) {
        self.0.inside.fetch_sub(1, SeqCst);
    }
}

fn indexed(phase: u8) -> bool {
    phase == PI || phase == IT
}

/// Body of every callback. Returns the calling thread's ordinal (order of first appearance).
fn callback(rec: &Rec, phase: u8, meta: Option<&RunMeta>) -> usize {
    if rec.dead.load(SeqCst) {
        rec.uar.fetch_or(1 << phase, SeqCst);
    }
    rec.inside.fetch_add(1, SeqCst);
    let _inside = InsideGuard(rec);
    let entry = rec.seq.fetch_add(1, SeqCst);
    let s = &rec.script;
    let me = std::thread::current().id();
    let (group, meta_ok) = match meta {
        Some(m) => (
            m.group_index(),
            m.group_count().get() == s.groups && m.thread_count().get() == s.threads && m.iterations() == s.iterations,
        ),
        None => (usize::MAX, true),
    };
    let ordinal = rec.slot_of(me);
    let (k, slot) = {
        let mut evs = rec.slots[ordinal].evs.lock().unwrap_or_else(|e| e.into_inner());
        let k = evs.iter().filter(|e| e.phase == phase).count() as u64;
        evs.push(Ev {
            phase,
            entry,
            exit: u64::MAX,
            group,
            meta_ok,
        });
        (k, evs.len() - 1)
    };

    if let Some((fp, fk)) = s.fault {
        if fp == phase && (!indexed(phase) || fk == k) && s.panickers.contains(&me) {
            rec.fired.store(true, SeqCst);
            panic!("C17 scripted panic");
        }
    }
    if let Some(&(_, _, _, ms)) = s.holds.iter().find(|(t, p, hk, _)| *t == me && *p == phase && (!indexed(phase) || *hk == k)) {
        let until = Instant::now() + Duration::from_millis(ms);
        let mut g = rec.gate.0.lock().unwrap_or_else(|e| e.into_inner());
        while !rec.dead.load(SeqCst) {
            let now = Instant::now();
            if now >= until {
                break;
            }
            g = rec.gate.1.wait_timeout(g, until - now).unwrap_or_else(|e| e.into_inner()).0;
        }
    }
    if phase == PT {
        if let Some((o, us)) = s.slow {
            if o == ordinal {
                std::thread::sleep(Duration::from_micros(us));
            }
        }
    }

    let exit = rec.seq.fetch_add(1, SeqCst);
    rec.slots[ordinal].evs.lock().unwrap_or_else(|e| e.into_inner())[slot].exit = exit;
    if rec.fired.load(SeqCst) {
        rec.ran_after_fired.fetch_add(1, SeqCst);
    }
    if rec.dead.load(SeqCst) {
        rec.uar.fetch_or(1 << phase, SeqCst);
    }
    ordinal
}

/// What an `iter` callback returns: "a value to drop after the measured part".
struct Cleanup<'a>(&'a Rec);

impl Drop for Cleanup<'_> {
    fn drop(&mut self) {
        callback(self.0, CL, None);
    }
}

type TheRun<'a> = ConfiguredRun<'a, usize, usize, usize, (usize, usize), Cleanup<'a>>;

/// Every callback returns its thread's ordinal as the state it produces, so each later callback
/// can tell whether the state it is handed was produced on its own thread.
fn build_run(rec: &Rec) -> TheRun<'_> {
    let mismatch = move |bit: u32, got: usize, me: usize| {
        if got != me {
            rec.state_mismatch.fetch_or(1 << bit, SeqCst);
        }
    };
    Run::new()
        .groups(NonZero::new(rec.script.groups).expect("groups >= 1"))
        .prepare_thread(move |a| callback(rec, PT, Some(a.meta())))
        .prepare_iter(move |a| {
            let me = callback(rec, PI, Some(a.meta()));
            mismatch(0, *a.thread_state(), me);
            me
        })
        .measure_wrapper(
            move |a| {
                let me = callback(rec, BG, Some(a.meta()));
                mismatch(1, *a.thread_state(), me);
                me
            },
            move |begin_ordinal: usize| (begin_ordinal, callback(rec, EN, None)),
        )
        .iter(move |mut a| {
            let me = callback(rec, IT, Some(a.meta()));
            mismatch(2, *a.thread_state(), me);
            mismatch(3, a.take_iter_state(), me);
            Cleanup(rec)
        })
}

/// Oracle for a run in which nothing panicked. `pool_threads` carries the pool's thread ids from
/// one run on a pool to the next.
fn judge_healthy(rec: &Rec, outputs: &[(usize, usize)], pool_threads: &mut Option<Vec<ThreadId>>) -> Verdict {
    let s = &rec.script;
    let logs = rec.logs();
    let what = format!("threads={} groups={} iterations={}", s.threads, s.groups, s.iterations);
    ensure!(
        logs.len() == s.threads && rec.overflow.load(SeqCst) == 0,
        "C17/execute_on/thread-set",
        "{what}: callbacks ran on {} distinct threads, the pool has {}",
        logs.len(),
        s.threads
    );
    match pool_threads {
        Some(prev) => ensure!(
            prev.len() == logs.len() && logs.iter().all(|l| prev.contains(&l.id)),
            "C17/execute_on/thread-set",
            "{what}: a later run on the same pool ran on other threads than the first run"
        ),
        None => *pool_threads = Some(logs.iter().map(|l| l.id).collect()),
    }
    let mut group_sizes = vec![0usize; s.groups];
    let mut last_prepare_exit = 0u64;
    let mut first_begin_entry = u64::MAX;
    for (t, l) in logs.iter().enumerate() {
        let count = |p: u8| l.evs.iter().filter(|e| e.phase == p).count() as u64;
        ensure!(count(PT) == 1, "C17/execute_on/prepare_thread-count", "{what}: thread #{t} ran prepare_thread {} times", count(PT));
        ensure!(
            count(PI) == s.iterations,
            "C17/execute_on/prepare_iter-count",
            "{what}: thread #{t} ran prepare_iter {} times",
            count(PI)
        );
        ensure!(count(IT) == s.iterations, "C17/execute_on/iter-count", "{what}: thread #{t} ran iter {} times", count(IT));
        ensure!(count(BG) == 1, "C17/execute_on/begin-count", "{what}: thread #{t} ran the measure wrapper begin {} times", count(BG));
        ensure!(count(EN) == 1, "C17/execute_on/end-count", "{what}: thread #{t} ran the measure wrapper end {} times", count(EN));
        ensure!(
            count(CL) == s.iterations,
            "C17/execute_on/cleanup-drop-count",
            "{what}: thread #{t}: {} of the {} values returned by iter were dropped by the time execute_on returned",
            count(CL),
            s.iterations
        );
        ensure!(
            l.evs.windows(2).all(|w| w[0].phase <= w[1].phase && w[0].exit < w[1].entry),
            "C17/execute_on/callback-order",
            "{what}: thread #{t} callbacks not in order prepare_thread, prepare_iter*, begin, iter*, end: {:?}",
            l.evs.iter().map(|e| e.phase).collect::<Vec<_>>()
        );
        let g = l.evs[0].group;
        ensure!(
            l.evs.iter().all(|e| e.meta_ok && (e.group == g || e.group == usize::MAX)) && g < s.groups,
            "C17/execute_on/meta-mismatch",
            "{what}: thread #{t} saw inconsistent run meta (group {g}; group_count/thread_count/iterations ok: {})",
            l.evs.iter().all(|e| e.meta_ok)
        );
        group_sizes[g] += 1;
        for e in &l.evs {
            if e.phase <= PI {
                last_prepare_exit = last_prepare_exit.max(e.exit);
            } else {
                first_begin_entry = first_begin_entry.min(e.entry);
            }
        }
    }
    let mm = rec.state_mismatch.load(SeqCst);
    ensure!(
        mm == 0,
        "C17/execute_on/state-from-another-thread",
        "{what}: a callback was handed state that a different thread's callback produced (bits: 0 thread state in prepare_iter, 1 in begin, 2 in iter, 3 iteration state in iter): {mm:#b}"
    );
    ensure!(
        group_sizes.iter().all(|n| *n == s.threads / s.groups),
        "C17/execute_on/groups-uneven",
        "{what}: threads per group index = {:?}",
        group_sizes
    );
    ensure!(
        last_prepare_exit < first_begin_entry,
        "C17/execute_on/not-released-together",
        "{what}: a thread entered its measured part (seq {first_begin_entry}) before every thread had finished preparing (seq {last_prepare_exit})"
    );
    ensure!(
        outputs.len() == s.threads,
        "C17/execute_on/measure-outputs",
        "{what}: {} measure outputs",
        outputs.len()
    );
    let mut seen = vec![0usize; s.threads];
    for (b, e) in outputs {
        ensure!(
            b == e && *e < s.threads,
            "C17/execute_on/measure-outputs",
            "{what}: measure output built from begin state of thread #{b} on thread #{e}"
        );
        seen[*e] += 1;
    }
    ensure!(
        seen.iter().all(|n| *n == 1),
        "C17/execute_on/measure-outputs",
        "{what}: measure outputs per thread = {:?}",
        seen
    );
    Ok(())
}

fn divisors(n: usize) -> Vec<usize> {
    (1..=n).filter(|d| n % d == 0).collect()
}

fn new_pool(threads: usize) -> ThreadPool {
    let set = SystemHardware::current()
        .all_processors()
        .take(NonZero::new(threads).expect("threads >= 1"))
        .expect("the machine has at least 16 processors");
    ThreadPool::new(&set)
}

// ------------------------------------------------------------------------------------------
// Section healthy
// ------------------------------------------------------------------------------------------

#[derive(Debug, Clone, Serialize, Deserialize)]
struct HRun {
    groups_raw: u16,
    iterations: u16,
    /// (arrival ordinal raw, microseconds) of one thread that is slow inside prepare_thread
    slow: Option<(u16, u16)>,
}

#[derive(Debug, Clone, Serialize, Deserialize)]
struct HCase {
    threads: u8,
    /// true: the case creates its own pool; false: it continues on the pool an earlier case of
    /// the same thread count left behind (longer pool histories, far fewer thread creations)
    #[serde(default)]
    fresh_pool: bool,
    runs: Vec<HRun>,
}

fn threads_strategy() -> impl Strategy<Value = u8> {
    prop_oneof![1 => Just(1u8), 3 => 2u8..=4, 3 => 5u8..=15, 2 => Just(16u8), 2 => prop::sample::select(vec![6u8, 8, 12])]
}

fn hcase_strategy() -> impl Strategy<Value = HCase> {
    let run = (
        any::<u16>(),
        prop_oneof![1 => Just(0u16), 2 => Just(1u16), 4 => 2u16..=8, 2 => 9u16..=200],
        prop_oneof![1 => Just(None), 1 => (any::<u16>(), 100u16..1500).prop_map(Some)],
    )
        .prop_map(|(groups_raw, iterations, slow)| HRun { groups_raw, iterations, slow });
    (threads_strategy(), prop::bool::weighted(0.1), prop::collection::vec(run, 1..=3)).prop_map(|(threads, fresh_pool, runs)| HCase { threads, fresh_pool, runs })
}

/// Pools kept between cases, by thread count. A pool whose run panicked is never put back.
type PoolCache = Vec<Option<ThreadPool>>;

fn check_healthy(case: &HCase, ctx: &mut Ctx, cache: &mut PoolCache) -> Verdict {
    let threads = usize::from(case.threads).clamp(1, 16);
    let divs = divisors(threads);
    let cached = cache[threads].take();
    let mut pool = match cached {
        Some(p) if !case.fresh_pool => {
            ctx.classify("pool:continued-from-earlier-case");
            p
        }
        other => {
            drop(other);
            ctx.classify("pool:fresh");
            new_pool(threads)
        }
    };
    ensure!(pool.thread_count().get() == threads, "C17/threadpool/thread_count", "pool over {threads} processors reports {} threads", pool.thread_count());
    ctx.classify(match threads {
        1 => "threads:1",
        2..=4 => "threads:2-4",
        _ => "threads:5-16",
    });
    ctx.classify(&format!("runs:{}", case.runs.len()));
    let mut pool_threads = None;
    let mut verdict = Ok(());
    for r in &case.runs {
        let groups = divs[pick_index(r.groups_raw, divs.len())];
        let iterations = u64::from(r.iterations);
        ctx.classify(if groups == 1 {
            "groups:1"
        } else if groups == threads {
            "groups:one-thread-each"
        } else {
            "groups:2+"
        });
        ctx.classify(match iterations {
            0 => "iterations:0",
            1 => "iterations:1",
            2..=8 => "iterations:2-8",
            _ => "iterations:9-200",
        });
        if r.slow.is_some() && threads >= 2 {
            ctx.classify("slow-preparer");
        }
        if threads >= 2 && groups >= 2 && iterations >= 1 {
            ctx.nontrivial();
        }
        let rec = Arc::new(Rec::new(Script {
            threads,
            groups,
            iterations,
            slow: r.slow.map(|(o, us)| (pick_index(o, threads), u64::from(us))),
            ..Script::default()
        }));
        let run = build_run(&rec);
        let res = catch_unwind(AssertUnwindSafe(|| run.execute_on(&mut pool, iterations)));
        match res {
            Ok(mut summary) => {
                let n_ref = summary.measure_outputs().count();
                let outputs = summary.take_measure_outputs().into_vec();
                if n_ref != outputs.len() {
                    verdict = Err(Failure::new("C17/execute_on/measure-outputs", "measure_outputs() and take_measure_outputs() disagree"));
                    break;
                }
                if let Err(f) = judge_healthy(&rec, &outputs, &mut pool_threads) {
                    verdict = Err(f);
                    break;
                }
            }
            Err(p) => {
                // Pool threads may still be running with borrowed state: leak everything.
                std::mem::forget(Arc::clone(&rec));
                std::mem::forget(run);
                std::mem::forget(pool);
                fail!(
                    "C17/execute_on/healthy-panic",
                    "threads={threads} groups={groups} iterations={iterations}: execute_on panicked although no callback did: {}",
                    vcommon::panic_message(&*p)
                );
            }
        }
    }
    cache[threads] = Some(pool);
    verdict
}

// ------------------------------------------------------------------------------------------
// Section fault
// ------------------------------------------------------------------------------------------

#[derive(Debug, Clone, Serialize, Deserialize)]
struct Hold {
    /// 0..3 mapped to a callback on the same side of the start barrier as the fault
    sel: u8,
    k_raw: u16,
    /// 0..4 -> 5, 25, 45, 65 ms
    ms_sel: u8,
}

#[derive(Debug, Clone, Serialize, Deserialize)]
struct FCase {
    threads: u8,
    groups_raw: u16,
    iterations: u8,
    /// bit p: the thread the pool reports at position p panics (bits >= threads ignored)
    panic_mask: u16,
    /// position that always panics (so the set is never empty)
    panic_first: u16,
    /// 0 prepare_thread, 1 prepare_iter k, 2 begin, 3 iter k, 4 end
    phase: u8,
    k_raw: u16,
    /// per position: park inside one callback
    holds: Vec<Option<Hold>>,
    /// one more healthy run on the pool before the probe run
    extra_warm: bool,
}

fn fcase_strategy() -> impl Strategy<Value = FCase> {
    (
        threads_strategy(),
        any::<u16>(),
        prop_oneof![1 => Just(0u8), 1 => Just(1u8), 4 => 2u8..=6, 2 => 7u8..=24],
        prop_oneof![6 => Just(0u16), 3 => any::<u16>(), 1 => Just(u16::MAX)],
        prop_oneof![2 => Just(0u16), 1 => Just(u16::MAX), 3 => any::<u16>()],
        prop_oneof![1 => Just(PT), 1 => Just(PI), 3 => Just(BG), 8 => Just(IT), 3 => Just(EN)],
        any::<u16>(),
        prop::collection::vec(
            prop_oneof![
                1 => Just(None),
                3 => (0u8..3, any::<u16>(), 0u8..4).prop_map(|(sel, k_raw, ms_sel)| Some(Hold { sel, k_raw, ms_sel })),
            ],
            16,
        ),
        prop::bool::weighted(0.3),
    )
        .prop_map(|(threads, groups_raw, iterations, panic_mask, panic_first, phase, k_raw, holds, extra_warm)| FCase {
            threads,
            groups_raw,
            iterations,
            panic_mask,
            panic_first,
            phase,
            k_raw,
            holds,
            extra_warm,
        })
}

/// The case with every raw value resolved (pure function of the case; used on both sides).
struct Resolved {
    threads: usize,
    groups: usize,
    iterations: u64,
    fault: (u8, u64),
    /// positions that panic
    panic_pos: Vec<usize>,
    /// per position (phase, k, ms)
    holds: Vec<Option<(u8, u64, u64)>>,
}

fn resolve(case: &FCase) -> Resolved {
    let threads = usize::from(case.threads).clamp(1, 16);
    let divs = divisors(threads);
    let groups = divs[pick_index(case.groups_raw, divs.len())];
    let iterations = u64::from(case.iterations);
    let k_of = |raw: u16| pick_index(raw, iterations as usize) as u64;
    let mut phase = case.phase.min(EN);
    if iterations == 0 {
        phase = match phase {
            PI => PT,
            IT => BG,
            p => p,
        };
    }
    let fault = (phase, if indexed(phase) { k_of(case.k_raw) } else { 0 });
    let first = pick_index(case.panic_first, threads);
    let panic_pos: Vec<usize> = (0..threads).filter(|p| *p == first || (case.panic_mask >> p) & 1 == 1).collect();
    let pre = phase <= PI;
    let holds = (0..threads)
        .map(|p| {
            case.holds.get(p).cloned().flatten().map(|h| {
                let mut hp = if pre { [PT, PI, PI][usize::from(h.sel % 3)] } else { [BG, IT, EN][usize::from(h.sel % 3)] };
                if iterations == 0 {
                    hp = match hp {
                        PI => PT,
                        IT => BG,
                        x => x,
                    };
                }
                (hp, if indexed(hp) { k_of(h.k_raw) } else { 0 }, 5 + 20 * u64::from(h.ms_sel % 4))
            })
        })
        .collect();
    Resolved {
        threads,
        groups,
        iterations,
        fault,
        panic_pos,
        holds,
    }
}

#[derive(Debug, Default, Serialize, Deserialize)]
struct FReply {
    /// "unwound" | "returned" | "hang" | "error"
    outcome: String,
    fired: bool,
    uar: u32,
    ran_after_fired: u64,
    inside_at_unwind: usize,
    warm_failure: Option<(String, String)>,
    detail: String,
}

/// Runs one healthy run on `pool` with leaked state; returns the pool's thread ids in the order
/// in which the pool reports them (measure outputs).
fn worker_healthy_run(pool: &mut ThreadPool, r: &Resolved, pool_threads: &mut Option<Vec<ThreadId>>) -> Result<Vec<ThreadId>, Failure> {
    let rec: &'static Rec = Box::leak(Box::new(Rec::new(Script {
        threads: r.threads,
        groups: r.groups,
        iterations: r.iterations,
        ..Script::default()
    })));
    let run: &'static TheRun<'static> = Box::leak(Box::new(build_run(rec)));
    let res = catch_unwind(AssertUnwindSafe(|| run.execute_on(pool, r.iterations)));
    match res {
        Ok(mut summary) => {
            let outputs = summary.take_measure_outputs().into_vec();
            judge_healthy(rec, &outputs, pool_threads)?;
            let logs = rec.logs();
            Ok(outputs.iter().map(|(_, e)| logs[*e].id).collect())
        }
        Err(p) => Err(Failure::new(
            "C17/execute_on/healthy-panic",
            format!("warm-up run panicked although no callback did: {}", vcommon::panic_message(&*p)),
        )),
    }
}

fn worker_fault(req: &str) -> FReply {
    let case: FCase = match serde_json::from_str(req) {
        Ok(c) => c,
        Err(e) => {
            return FReply {
                outcome: "error".into(),
                detail: format!("bad request: {e}"),
                ..FReply::default()
            };
        }
    };
    let r = resolve(&case);
    let mut pool = new_pool(r.threads);
    let mut pool_threads = None;
    let mut positions = Vec::new();
    for _ in 0..(1 + usize::from(case.extra_warm)) {
        match worker_healthy_run(&mut pool, &r, &mut pool_threads) {
            Ok(p) => positions = p,
            Err(f) => {
                std::mem::forget(pool);
                return FReply {
                    outcome: "returned".into(),
                    warm_failure: Some((f.signature, f.message)),
                    ..FReply::default()
                };
            }
        }
    }
    let rec: &'static Rec = Box::leak(Box::new(Rec::new(Script {
        threads: r.threads,
        groups: r.groups,
        iterations: r.iterations,
        slow: None,
        fault: Some(r.fault),
        panickers: r.panic_pos.iter().map(|p| positions[*p]).collect(),
        holds: r
            .holds
            .iter()
            .enumerate()
            .filter_map(|(p, h)| h.map(|(ph, k, ms)| (positions[p], ph, k, ms)))
            .collect(),
    })));
    let run: &'static TheRun<'static> = Box::leak(Box::new(build_run(rec)));
    let iterations = r.iterations;
    let (tx, rx) = std::sync::mpsc::channel();
    std::thread::spawn(move || {
        let res = catch_unwind(AssertUnwindSafe(|| run.execute_on(&mut pool, iterations)));
        let inside = rec.inside.load(SeqCst);
        rec.set_dead();
        // workers that panicked are gone: the pool cannot be shut down any more
        std::mem::forget(pool);
        let msg = match res {
            Ok(s) => {
                std::mem::forget(s);
                None
            }
            Err(p) => Some(vcommon::panic_message(&*p)),
        };
        let _ = tx.send((inside, msg));
    });
    match rx.recv_timeout(Duration::from_millis(HANG_MS)) {
        Ok((inside, msg)) => {
            // let the threads that are still running show themselves
            let t0 = Instant::now();
            let mut last = rec.seq.load(SeqCst);
            let mut stable_since = Instant::now();
            while t0.elapsed() < Duration::from_millis(1000) {
                std::thread::sleep(Duration::from_millis(2));
                let now = rec.seq.load(SeqCst);
                if now != last || rec.inside.load(SeqCst) != 0 {
                    last = now;
                    stable_since = Instant::now();
                } else if stable_since.elapsed() >= Duration::from_millis(30) {
                    break;
                }
            }
            FReply {
                outcome: if msg.is_some() { "unwound".into() } else { "returned".into() },
                fired: rec.fired.load(SeqCst),
                uar: rec.uar.load(SeqCst),
                ran_after_fired: rec.ran_after_fired.load(SeqCst),
                inside_at_unwind: inside,
                warm_failure: None,
                detail: msg.unwrap_or_default(),
            }
        }
        Err(_) => FReply {
            outcome: "hang".into(),
            fired: rec.fired.load(SeqCst),
            uar: rec.uar.load(SeqCst),
            ran_after_fired: rec.ran_after_fired.load(SeqCst),
            inside_at_unwind: rec.inside.load(SeqCst),
            warm_failure: None,
            detail: String::new(),
        },
    }
}

struct FaultDriver {
    worker: Option<Worker>,
    served: u32,
    infra: Vec<String>,
}

impl FaultDriver {
    fn call(&mut self, req: &str) -> Result<FReply, String> {
        if self.served >= 8 {
            // every fault run leaves a pool with dead workers behind: start afresh regularly
            self.worker = None;
            self.served = 0;
        }
        let w = self.worker.get_or_insert_with(|| Worker::spawn("fault"));
        self.served += 1;
        match w.call(req, Duration::from_secs(30)) {
            Reply::Line(l) => serde_json::from_str::<FReply>(&l).map_err(|e| format!("bad reply {l}: {e}")),
            Reply::Timeout => {
                self.served = 0;
                Ok(FReply {
                    outcome: "hang".into(),
                    detail: "worker did not answer".into(),
                    ..FReply::default()
                })
            }
            Reply::Died(s) => {
                self.served = 0;
                Err(s)
            }
        }
    }
}

fn check_fault(case: &FCase, ctx: &mut Ctx, drv: &mut FaultDriver) -> Verdict {
    let r = resolve(case);
    let req = serde_json::to_string(case).expect("serialise");
    let reply = match drv.call(&req) {
        Ok(r) => r,
        Err(e) => {
            drv.infra.push(e);
            return Ok(());
        }
    };
    if reply.outcome == "error" {
        drv.infra.push(reply.detail);
        return Ok(());
    }
    if reply.outcome == "hang" {
        // the pool of that worker has threads that never come back
        drv.worker = None;
        drv.served = 0;
    }
    if let Some((sig, msg)) = reply.warm_failure {
        return Err(Failure::new(sig, format!("healthy run on the pool before the fault run: {msg}")));
    }
    let (phase, _k) = r.fault;
    let pre = phase <= PI;
    ctx.classify(&format!("fault-phase:{}", PHASE[usize::from(phase)]));
    ctx.classify(if r.panic_pos.len() == r.threads {
        "panickers:all"
    } else if r.panic_pos.len() == 1 {
        "panickers:one"
    } else {
        "panickers:some"
    });
    let first = r.panic_pos[0];
    ctx.classify(if first == 0 {
        "first-panicker:reported-first"
    } else if first + 1 == r.threads {
        "first-panicker:reported-last"
    } else {
        "first-panicker:middle"
    });
    // label of the generated schedule: a surviving thread reported after the first panicking one
    // is parked clearly longer than every surviving thread reported before it
    let survivor = |p: usize| !r.panic_pos.contains(&p);
    let hold_ms = |p: usize| r.holds[p].map_or(0, |h| h.2);
    let before = (0..first).filter(|p| survivor(*p)).map(hold_ms).max().unwrap_or(0);
    let after = (first + 1..r.threads).filter(|p| survivor(*p)).map(hold_ms).max().unwrap_or(0);
    if after >= before + 20 {
        ctx.classify("schedule:late-survivor-parked-longest");
    }
    ctx.classify(&format!("outcome:{}{}", reply.outcome, if reply.outcome == "hang" { if pre { "(fault-before-start-barrier)" } else { "(fault-after-start-barrier)" } } else { "" }));
    if !reply.fired {
        ctx.classify("fault-not-reached");
    }
    if reply.inside_at_unwind > 0 && reply.outcome != "hang" {
        ctx.classify("threads-inside-callbacks-when-execute_on-came-back");
    }
    if reply.outcome == "unwound" && reply.fired && reply.ran_after_fired >= 1 {
        ctx.classify("others-still-running-when-panic-fired");
        ctx.nontrivial();
    }
    if reply.uar != 0 {
        let p = (0..6).find(|p| reply.uar >> p & 1 == 1).expect("a bit is set");
        let seen: Vec<&str> = (0..6).filter(|p| reply.uar >> p & 1 == 1).map(|p| PHASE[p]).collect();
        fail!(
            format!("C17/execute_on/use-after-return/{}", PHASE[p]),
            "threads={} groups={} iterations={}: threads reported at positions {:?} panic in {} (k={}); execute_on {} ({:?}) with {} thread(s) inside callbacks; afterwards callbacks {:?} ran or were still running on state borrowed by the run",
            r.threads,
            r.groups,
            r.iterations,
            r.panic_pos,
            PHASE[usize::from(phase)],
            r.fault.1,
            reply.outcome,
            reply.detail,
            reply.inside_at_unwind,
            seen
        );
    }
    Ok(())
}

fn main() {
    if let Some(role) = worker_role() {
        std::panic::set_hook(Box::new(|_| {}));
        assert_eq!(role, "fault");
        serve(|req| {
            let reply = catch_unwind(AssertUnwindSafe(|| worker_fault(req))).unwrap_or_else(|p| FReply {
                outcome: "error".into(),
                detail: format!("worker panicked: {}", vcommon::panic_message(&*p)),
                ..FReply::default()
            });
            serde_json::to_string(&reply).expect("serialise reply")
        });
    }
    let mut h = Harness::from_args("C17");
    let cases = h.cases(2_000, 80_000);
    let mut cache: PoolCache = (0..=16).map(|_| None).collect();
    h.section(
        "healthy",
        "generated pool of 1..16 threads on real processors (fresh, or continued from an earlier case of the same thread count) x 1..3 consecutive runs on that pool (groups = a divisor of the thread count, iterations 0..200, optionally one thread slow inside prepare_thread), no callback panics; non-trivial = a run with threads >= 2, groups >= 2, iterations >= 1; distinct by serialised case",
        cases,
        hcase_strategy(),
        |case, ctx| check_healthy(case, ctx, &mut cache),
    );
    drop(cache);
    let mut drv = FaultDriver {
        worker: None,
        served: 0,
        infra: Vec::new(),
    };
    let cases = h.cases(240, 10_000);
    h.section(
        "fault",
        "child process: healthy probe run(s) on a fresh pool, then a run in which the threads at generated report positions panic in a generated phase (prepare_thread, prepare_iter k, begin, iter k, end) while other threads are parked 5..65 ms inside generated callbacks (released early once execute_on has come back); non-trivial = execute_on unwound and >= 1 other thread was inside or finished a callback after the panic fired (the others were still running); distinct by serialised case",
        cases,
        fcase_strategy(),
        |case, ctx| check_fault(case, ctx, &mut drv),
    );
    drop(drv.worker.take());
    if !drv.infra.is_empty() {
        eprintln!("C17 fault worker problems ({}): {:?}", drv.infra.len(), &drv.infra[..drv.infra.len().min(3)]);
        std::process::exit(2);
    }
    h.finish()
}
