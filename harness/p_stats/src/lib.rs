//! Reference ("oracle") implementations for C20, written from the textbook definitions and
//! never calling `cbh_stats`. Everything is plain counting / integer arithmetic where the
//! definition is combinatorial, and a trapezoid-rule `erfc` (a different algorithm from the crate's
//! series + continued fraction) where a normal tail is needed.

use std::cmp::Ordering;

/// Documented reportable p-value range of `cbh_stats` (p_value.rs): `[1e-15, 1]`, non-finite -> 1.
pub const P_MIN: f64 = 1e-15;

/// The documented clamp: non-finite -> 1.0 ("no evidence"), otherwise into `[1e-15, 1]`.
pub fn clamp_def(p: f64) -> f64 {
    if !p.is_finite() {
        1.0
    } else if p < P_MIN {
        P_MIN
    } else if p > 1.0 {
        1.0
    } else {
        p
    }
}

/// `|a-b| <= rel * max(|a|,|b|)` (pure relative; both are p-values > 0 or both exactly equal).
pub fn rel_close(a: f64, b: f64, rel: f64) -> bool {
    a == b || (a - b).abs() <= rel * a.abs().max(b.abs())
}

/// `|a-b| <= tol * max(1,|a|,|b|)`.
pub fn abs_close(a: f64, b: f64, tol: f64) -> bool {
    a == b || (a - b).abs() <= tol * 1.0_f64.max(a.abs()).max(b.abs())
}

/// Order of two data values. Data in this harness is finite and never `-0.0`, so the numeric order
/// is the only meaningful one.
pub fn cmp(a: f64, b: f64) -> Ordering {
    a.partial_cmp(&b).expect("harness data is NaN-free")
}

/// sign(a - b) as an integer, by comparison (no subtraction, so no overflow/rounding).
pub fn sign(a: f64, b: f64) -> i64 {
    match cmp(a, b) {
        Ordering::Greater => 1,
        Ordering::Less => -1,
        Ordering::Equal => 0,
    }
}

/// Doubled mid-ranks straight from the definition:
/// `2*rank_i = 2*#{j: v_j < v_i} + #{j: v_j == v_i} + 1` (so ties share the mean of their ranks).
pub fn doubled_midranks(v: &[f64]) -> Vec<u64> {
    v.iter()
        .map(|&x| {
            let mut less = 0u64;
            let mut equal = 0u64;
            for &y in v {
                match cmp(y, x) {
                    Ordering::Less => less += 1,
                    Ordering::Equal => equal += 1,
                    Ordering::Greater => {}
                }
            }
            2 * less + equal + 1
        })
        .collect()
}

/// Sizes of all tie groups (including singletons), ascending by value.
pub fn group_sizes(v: &[f64]) -> Vec<u64> {
    let mut s = v.to_vec();
    s.sort_by(|a, b| cmp(*a, *b));
    let mut out: Vec<u64> = Vec::new();
    let mut i = 0;
    while i < s.len() {
        let mut j = i;
        while j < s.len() && s[j] == s[i] {
            j += 1;
        }
        out.push((j - i) as u64);
        i = j;
    }
    out
}

/// `C(n, k)` saturating at `u128::MAX` (exact below that).
pub fn binomial(n: u64, k: u64) -> u128 {
    if k > n {
        return 0;
    }
    let k = k.min(n - k);
    let mut c: u128 = 1;
    for i in 1..=k {
        // c = C(n-k+i-1, i-1); c * (n-k+i) / i is the integer C(n-k+i, i)
        match c.checked_mul(u128::from(n - k + i)) {
            Some(x) => c = x / u128::from(i),
            None => return u128::MAX,
        }
    }
    c
}

/// Documented switch: the exact tail is used iff `C(n1+n2, min(n1,n2)) < 2^53`.
pub fn exact_feasible(n1: usize, n2: usize) -> bool {
    binomial((n1 + n2) as u64, n1.min(n2) as u64) < (1u128 << 53)
}

// ------------------------------------------------------------------------------------------------
// normal tail

/// `erfc(x)` for `x >= 0`.
///
/// * `x < 0.75`: Maclaurin series `erf(x) = 2/sqrt(pi) * sum (-1)^n x^(2n+1) / (n! (2n+1))`
///   (terms decrease from the start, so no cancellation), `erfc = 1 - erf`.
/// * otherwise: the trapezoid rule with step `h = 0.4` applied to
///   `erfc(x) = (x e^{-x^2}/pi) * int_{-inf}^{inf} e^{-t^2}/(t^2+x^2) dt` with the pole correction
///   `2/(1 - e^{2 pi x/h})` for `x < pi/h` (Chiarella & Reichel 1968; Matta & Reichel 1971). Its truncation error
///   is `O(e^{-pi^2/h^2}) = 1.6e-27` relative, i.e. nothing at f64 precision; the result is a
///   product with `e^{-x^2}` so the relative accuracy holds in the far tail.
///
/// `self_test` pins both branches to published reference values.
pub fn erfc_pos(x: f64) -> f64 {
    assert!(x >= 0.0);
    if x < 0.75 {
        let x2 = x * x;
        let mut term = x; // (-1)^n x^(2n+1)/n!
        let mut sum = x;
        for n in 1..60 {
            term *= -x2 / f64::from(n);
            let add = term / f64::from(2 * n + 1);
            sum += add;
            if add.abs() < 1e-20 * sum.abs() {
                break;
            }
        }
        return 1.0 - std::f64::consts::FRAC_2_SQRT_PI * sum;
    }
    let h = 0.4_f64;
    let x2 = x * x;
    let mut sum = 1.0 / x2;
    for k in 1..=40 {
        let t = f64::from(k) * h;
        sum += 2.0 * (-t * t).exp() / (t * t + x2);
    }
    let main = h * x * (-x2).exp() / std::f64::consts::PI * sum;
    // The pole term belongs to the sum only while the pole at i*x lies inside the strip the
    // trapezoid rule resolves (x < pi/h = 7.85); beyond it the omitted term is O(e^{-pi^2/h^2})
    // relative, like the rest of the truncation error.
    let corr = if x < std::f64::consts::PI / h {
        2.0 / (1.0 - (2.0 * std::f64::consts::PI * x / h).exp())
    } else {
        0.0
    };
    main + corr
}

/// Two-sided standard normal tail `2*Phi(-|z|) = erfc(|z|/sqrt 2)`, clamped as documented.
pub fn two_sided_normal_p(z: f64) -> f64 {
    if z.is_nan() {
        return 1.0;
    }
    clamp_def(erfc_pos(z.abs() / std::f64::consts::SQRT_2))
}

/// Compares the oracle's own numerics against published reference values (Abramowitz & Stegun
/// table 7.1 / scipy.special, quoted to full f64 precision). Returns a description of the first
/// mismatch.
pub fn self_test() -> Result<(), String> {
    let refs: [(f64, f64); 10] = [
        (0.0, 1.0),
        (0.25, 7.236_736_098_317_631e-1),
        (0.5, 4.795_001_221_869_535e-1),
        (1.0, 1.572_992_070_502_851e-1),
        (1.5, 3.389_485_352_468_927_4e-2),
        (2.0, 4.677_734_981_047_265e-3),
        (3.0, 2.209_049_699_858_544e-5),
        (5.0, 1.537_459_794_428_035_1e-12),
        (10.0, 2.088_487_583_762_545e-45),
        (20.0, 5.395_865_611_607_901e-176),
    ];
    for (x, want) in refs {
        let got = erfc_pos(x);
        if !rel_close(got, want, 1e-12) {
            return Err(format!("oracle erfc({x}) = {got:e}, reference {want:e}"));
        }
    }
    let prefs: [(f64, f64); 6] = [
        (1.0, 3.173_105_078_629_141_5e-1),
        (1.96, 4.999_579_029_644_087e-2),
        (3.0, 2.699_796_063_260_191_8e-3),
        (5.0, 5.733_031_437_583_891e-7),
        (6.0, 1.973_175_290_075_403_2e-9),
        (8.0, 1.244_192_114_854_363_9e-15),
    ];
    for (z, want) in prefs {
        let got = two_sided_normal_p(z);
        if !rel_close(got, want, 1e-12) {
            return Err(format!("oracle 2*Phi(-{z}) = {got:e}, reference {want:e}"));
        }
    }
    // the two branches agree where they meet
    let a = erfc_pos(0.75 - 1e-9);
    let b = erfc_pos(0.75);
    if !rel_close(a, b, 1e-8) {
        return Err(format!("oracle erfc branches disagree at 0.75: {a:e} vs {b:e}"));
    }
    if binomial(56, 28) != 7_648_690_600_760_440 || binomial(1000, 6) != 1_368_173_298_991_500 {
        return Err("oracle binomial self-test".into());
    }
    if !(exact_feasible(28, 28) && !exact_feasible(29, 29) && exact_feasible(6, 994) && !exact_feasible(7, 993)) {
        return Err("oracle feasibility self-test".into());
    }
    Ok(())
}

// ------------------------------------------------------------------------------------------------
// Mann-Whitney

/// Everything the definition says about a two-sample comparison.
#[derive(Debug, Clone)]
pub struct MwRef {
    /// P(right > left) + 0.5 P(right == left), by counting all `n1*n2` pairs.
    pub superiority: f64,
    /// twice the U statistic of `right` (pairs with right > left count 2, ties 1)
    pub u_right2: u128,
    pub u_left2: u128,
    /// whether the documented switch selects the exact tail
    pub exact: bool,
    /// expected two-sided p
    pub p: f64,
    pub has_ties: bool,
    pub all_tied: bool,
}

/// Pair counting: `(2*U_right, 2*U_left)`.
pub fn pair_counts(left: &[f64], right: &[f64]) -> (u128, u128) {
    let mut ur = 0u128;
    let mut ul = 0u128;
    for &l in left {
        for &r in right {
            match cmp(r, l) {
                Ordering::Greater => ur += 2,
                Ordering::Less => ul += 2,
                Ordering::Equal => {
                    ur += 1;
                    ul += 1;
                }
            }
        }
    }
    (ur, ul)
}

/// Exact two-sided p by brute force over every `C(n, n1)` choice of which pooled observations form
/// the left sample: `min(1, 2*min(P(S<=obs), P(S>=obs)))` of the left doubled rank sum, clamped.
/// Only for `n <= 20`.
pub fn mw_exact_p_bruteforce(left: &[f64], right: &[f64]) -> f64 {
    let n1 = left.len();
    let n = n1 + right.len();
    assert!(n <= 20);
    let mut pooled = left.to_vec();
    pooled.extend_from_slice(right);
    let r2 = doubled_midranks(&pooled);
    let obs: u64 = r2[..n1].iter().sum();
    let (mut le, mut ge, mut total) = (0u64, 0u64, 0u64);
    for mask in 0u32..(1u32 << n) {
        if mask.count_ones() as usize != n1 {
            continue;
        }
        let s: u64 = (0..n).filter(|i| mask >> i & 1 == 1).map(|i| r2[i]).sum();
        total += 1;
        if s <= obs {
            le += 1;
        }
        if s >= obs {
            ge += 1;
        }
    }
    clamp_def((2.0 * le.min(ge) as f64 / total as f64).min(1.0))
}

/// Exact two-sided p by a subset-sum count (u64 integers; only called when `C(n,k) < 2^53`) over
/// the smaller sample (the distribution of the larger sample's sum is its mirror image, so the
/// doubled minority tail is the same).
pub fn mw_exact_p_dp(left: &[f64], right: &[f64]) -> f64 {
    let n1 = left.len();
    let n2 = right.len();
    let n = n1 + n2;
    let mut pooled = left.to_vec();
    pooled.extend_from_slice(right);
    let r2 = doubled_midranks(&pooled);
    let (k, obs): (usize, u64) = if n1 <= n2 {
        (n1, r2[..n1].iter().sum())
    } else {
        (n2, r2[n1..].iter().sum())
    };
    let mut asc = r2.clone();
    asc.sort_unstable();
    let width: usize = asc.iter().rev().take(k).sum::<u64>() as usize + 1;
    let mut dp: Vec<Vec<u64>> = vec![vec![0u64; width]; k + 1];
    dp[0][0] = 1;
    // reachable [lo, hi] of each row so far
    let mut range: Vec<Option<(usize, usize)>> = vec![None; k + 1];
    range[0] = Some((0, 0));
    for &r in &asc {
        let r = r as usize;
        for j in (0..k).rev() {
            let Some((lo, hi)) = range[j] else { continue };
            let (a, b) = dp.split_at_mut(j + 1);
            let src = &a[j];
            let dst = &mut b[0];
            for s in lo..=hi {
                let c = src[s];
                if c != 0 {
                    dst[s + r] = dst[s + r].checked_add(c).expect("count < 2^53");
                }
            }
            range[j + 1] = Some(match range[j + 1] {
                None => (lo + r, hi + r),
                Some((l2, h2)) => (l2.min(lo + r), h2.max(hi + r)),
            });
        }
    }
    let row = &dp[k];
    let total: u64 = row.iter().sum();
    assert_eq!(u128::from(total), binomial(n as u64, k as u64), "oracle DP counts every subset once");
    let obs = obs as usize;
    let le: u64 = row[..=obs.min(width - 1)].iter().sum();
    let ge: u64 = if obs < width { row[obs..].iter().sum() } else { 0 };
    clamp_def((2.0 * le.min(ge) as f64 / total as f64).min(1.0))
}

/// Tie- and continuity-corrected normal approximation (the textbook form):
/// `U = min(U1,U2)`, `mu = n1 n2/2`, `var = n1 n2/12 * ((n+1) - sum(t^3-t)/(n(n-1)))`,
/// `z = max(0, mu - U - 1/2)/sqrt(var)`, `p = 2*Phi(-z)`; zero variance -> 1.0.
/// The variance is formed from exact integers: `n1 n2 (n^3 - n - T) / (12 n (n-1))`.
pub fn mw_normal_p(n1: usize, n2: usize, u_small2: u128, tie_sum: u128) -> f64 {
    let (n1, n2) = (n1 as u128, n2 as u128);
    let n = n1 + n2;
    let num = n1 * n2 * (n * n * n - n - tie_sum);
    if num == 0 {
        return 1.0;
    }
    let den = 12 * n * (n - 1);
    let var = num as f64 / den as f64;
    let mu = (n1 * n2) as f64 / 2.0;
    let u = u_small2 as f64 / 2.0;
    let z = ((mu - u) - 0.5).max(0.0) / var.sqrt();
    two_sided_normal_p(z)
}

pub fn mw_reference(left: &[f64], right: &[f64]) -> MwRef {
    let n1 = left.len();
    let n2 = right.len();
    assert!(n1 > 0 && n2 > 0);
    let (ur, ul) = pair_counts(left, right);
    let superiority = ur as f64 / (2.0 * (n1 as f64) * (n2 as f64));
    let mut pooled = left.to_vec();
    pooled.extend_from_slice(right);
    let groups = group_sizes(&pooled);
    let tie_sum: u128 = groups.iter().map(|&t| u128::from(t) * u128::from(t) * u128::from(t) - u128::from(t)).sum();
    let exact = exact_feasible(n1, n2);
    let p = if exact {
        mw_exact_p_dp(left, right)
    } else {
        mw_normal_p(n1, n2, ur.min(ul), tie_sum)
    };
    MwRef {
        superiority,
        u_right2: ur,
        u_left2: ul,
        exact,
        p,
        has_ties: groups.iter().any(|&t| t > 1),
        all_tied: groups.len() == 1,
    }
}

// ------------------------------------------------------------------------------------------------
// series statistics

#[derive(Debug, Clone)]
pub struct MkRef {
    pub s: i64,
    /// 18 * Var(S) = n(n-1)(2n+5) - sum t(t-1)(2t+5)
    pub var18: u128,
    pub p: f64,
}

/// Mann-Kendall: `S = sum_{i<j} sign(x_j - x_i)`, tie-corrected variance, continuity-corrected Z.
/// Documented: fewer than three points or zero variance -> p = 1 (and S = 0 below three points).
pub fn mk_reference(v: &[f64]) -> MkRef {
    let n = v.len();
    if n < 3 {
        return MkRef { s: 0, var18: 0, p: 1.0 };
    }
    let mut s = 0i64;
    for i in 0..n {
        for j in i + 1..n {
            s += sign(v[j], v[i]);
        }
    }
    let nn = n as u128;
    let tie: u128 = group_sizes(v).iter().map(|&t| u128::from(t)).map(|t| t * (t - 1) * (2 * t + 5)).sum();
    let var18 = nn * (nn - 1) * (2 * nn + 5) - tie;
    if var18 == 0 {
        return MkRef { s, var18, p: 1.0 };
    }
    let sd = (var18 as f64 / 18.0).sqrt();
    let z = if s > 0 {
        (s as f64 - 1.0) / sd
    } else if s < 0 {
        (s as f64 + 1.0) / sd
    } else {
        0.0
    };
    MkRef { s, var18, p: two_sided_normal_p(z) }
}

#[derive(Debug, Clone)]
pub struct PettittRef {
    pub k: i64,
    pub index: usize,
    pub p: f64,
}

/// Pettitt: `U_t = sum_{i<=t} sum_{j>t} sign(x_i - x_j)` for `t = 1..n-1` by direct summation,
/// `K = max |U_t|`, location = first maximising `t`, `p = 2 exp(-6K^2/(n^3+n^2))` clamped.
/// Cross-checked here against the rank form `2 R_t - t(n+1)` (must be identical integers).
pub fn pettitt_reference(v: &[f64]) -> Option<PettittRef> {
    let n = v.len();
    if n < 2 {
        return None;
    }
    // row[i] = sum_j sign(x_i - x_j); U_t - U_{t-1} = row[t-1] because pairs inside the prefix cancel
    let row: Vec<i64> = (0..n).map(|i| (0..n).map(|j| sign(v[i], v[j])).sum()).collect();
    let r2 = doubled_midranks(v);
    let mut u = 0i64;
    let mut rank_prefix = 0i64;
    let mut best = -1i64;
    let mut best_t = 1usize;
    for t in 1..n {
        u += row[t - 1];
        rank_prefix += r2[t - 1] as i64;
        assert_eq!(u, rank_prefix - (t as i64) * (n as i64 + 1), "sign form == rank form");
        if n <= 12 {
            // the literal double sum, for small n
            let mut lit = 0i64;
            for i in 0..t {
                for j in t..n {
                    lit += sign(v[i], v[j]);
                }
            }
            assert_eq!(lit, u);
        }
        if u.abs() > best {
            best = u.abs();
            best_t = t;
        }
    }
    let nf = n as f64;
    let k = best as f64;
    let p = clamp_def(2.0 * (-6.0 * k * k / (nf * nf * nf + nf * nf)).exp());
    Some(PettittRef { k: best, index: best_t, p })
}

/// Median by full sort: middle element, or the mean of the two middle elements.
pub fn median_reference(v: &[f64]) -> Option<f64> {
    if v.is_empty() {
        return None;
    }
    let mut s = v.to_vec();
    s.sort_by(|a, b| cmp(*a, *b));
    let n = s.len();
    Some(if n % 2 == 1 { s[n / 2] } else { (s[n / 2 - 1] + s[n / 2]) / 2.0 })
}

/// Theil-Sen slope: median of `(x_j - x_i)/(j - i)` over all `i < j`.
pub fn theil_sen_slope_reference(v: &[f64]) -> Option<f64> {
    let n = v.len();
    if n < 2 {
        return None;
    }
    let mut slopes = Vec::with_capacity(n * (n - 1) / 2);
    for i in 0..n {
        for j in i + 1..n {
            slopes.push((v[j] - v[i]) / ((j - i) as f64));
        }
    }
    median_reference(&slopes)
}

/// Intercept as documented: median of `x_i - slope*i`.
pub fn theil_sen_intercept_reference(v: &[f64], slope: f64) -> Option<f64> {
    let r: Vec<f64> = v.iter().enumerate().map(|(i, &x)| x - slope * (i as f64)).collect();
    median_reference(&r)
}

/// Benjamini-Hochberg from the definition, without sorting: rank `k` qualifies iff at least `k`
/// p-values are `<= (k/m)*q`; `K` = largest qualifying `k <= len`; reject exactly the `K` smallest,
/// which (because thresholds strictly increase with `k`) are the p-values `<= (K/m)*q`.
/// Returns `(mask, K, ambiguous)`; `ambiguous` is set if the "K smallest" set is not determined by
/// the threshold (cannot happen for strictly increasing thresholds; guarded anyway).
pub fn bh_reference(p: &[f64], q: f64, family: usize) -> (Vec<bool>, usize, bool) {
    let m = family as f64;
    let thr = |k: usize| (k as f64) / m * q;
    let mut best = 0usize;
    for k in 1..=p.len() {
        let c = p.iter().filter(|&&x| x <= thr(k)).count();
        if c >= k {
            best = k;
        }
    }
    if best == 0 {
        return (vec![false; p.len()], 0, false);
    }
    let t = thr(best);
    let mask: Vec<bool> = p.iter().map(|&x| x <= t).collect();
    let ambiguous = mask.iter().filter(|&&b| b).count() != best;
    (mask, best, ambiguous)
}

/// Closed forms of the two-sided Student-t tail: nu = 1 (Cauchy): `(2/pi) atan(1/|t|)`;
/// nu = 2: `1 - |t|/sqrt(2+t^2) = 2 / (s (s + |t|))` with `s = sqrt(2+t^2)` (cancellation-free).
pub fn student_t_closed_form(t: f64, nu: u32) -> Option<f64> {
    let a = t.abs();
    match nu {
        1 => Some(if a == 0.0 { 1.0 } else { std::f64::consts::FRAC_2_PI * (1.0 / a).atan() }),
        2 => {
            let s = (2.0 + a * a).sqrt();
            Some(2.0 / (s * (s + a)))
        }
        _ => None,
    }
}
