//! C20 — statistical primitives match their definitions on every input.
//!
//! Sections of this one binary:
//!   * `mw_exhaustive`     every (tie-group composition, per-group left/right split) with n1+n2 <= 10
//!   * `series_exhaustive` every weak ordering of a series with n <= 7
//!   * `mw_random`         generated two-sample cases up to ~2000 points, both sides of the
//!                         exact/normal feasibility boundary
//!   * `series_random`     generated series (noise + trend + step, heavy ties .. distinct)
//!   * `bh_random`         Benjamini-Hochberg vs the O(m^2) definition
//!   * `student_t`         range / degenerate inputs / closed forms for nu = 1, 2
//!   * `metamorphic`       strictly increasing maps, sample swap, series reversal
//!
//!   * `signed_zero`       `-0.0` and `+0.0` are the same number, hence a tie
//!
//! All expected values come from `p_stats` (src/lib.rs), which never calls `cbh_stats`.
//! Data never contains NaN or infinities; `-0.0` appears only in the `signed_zero` section.

use cbh_stats::{
    MannWhitneyU, benjamini_hochberg, mann_kendall, mann_whitney_superiority, mann_whitney_u_pvalue, median,
    median_in_place, pettitt, student_t_two_sided_p, theil_sen_line,
};
use p_stats::*;
use proptest::prelude::*;
use serde::{Deserialize, Serialize};
use vcommon::{Ctx, Harness, Verdict, ensure, fail};

fn p_ok(p: f64) -> bool {
    p >= P_MIN && p <= 1.0 // false for NaN
}

/// Strictly increasing maps from integer levels to f64 (exact: distinct levels give distinct
/// values, equal levels equal values; checked by `to_values`).
fn val(map: u8, k: i64, rank_only: bool) -> f64 {
    let x = k as f64; // |k| < 2^53
    match map {
        0 => x,
        1 => x * 0.125,
        2 => x * 1e-300,
        3 => x * if rank_only { 1e290 } else { 1e140 },
        _ => 1e9 + x / 1024.0,
    }
}

fn to_values(map: u8, levels: &[i64], rank_only: bool) -> Vec<f64> {
    let v: Vec<f64> = levels.iter().map(|&k| val(map, k, rank_only)).collect();
    for x in &v {
        assert!(x.is_finite() && !(*x == 0.0 && x.is_sign_negative()), "generator produced a non-finite or -0.0 value");
    }
    v
}

/// Harness self-check: the f64 values are order-isomorphic to the integer levels.
fn assert_order_iso(levels: &[i64], values: &[f64]) {
    let mut idx: Vec<usize> = (0..levels.len()).collect();
    idx.sort_by_key(|&i| levels[i]);
    for w in idx.windows(2) {
        let (a, b) = (w[0], w[1]);
        assert_eq!(levels[a].cmp(&levels[b]), cmp(values[a], values[b]), "value map is not strictly increasing");
    }
}

// ================================================================================================
// two-sample checks

fn check_two_sample(left: &[f64], right: &[f64], brute: bool, ctx: &mut Ctx) -> Verdict {
    let mw = MannWhitneyU::new(left, right);
    let sup_only = mann_whitney_superiority(left, right);
    let p_conv = mann_whitney_u_pvalue(left, right);
    ensure!(p_ok(p_conv), "C20/mw/p-range", "mann_whitney_u_pvalue = {p_conv:e} outside [1e-15,1]; left {left:?} right {right:?}");
    if left.is_empty() || right.is_empty() {
        ctx.classify("empty-side");
        ensure!(mw.is_none(), "C20/mw/empty/not-none", "MannWhitneyU::new returned Some for an empty sample");
        ensure!(sup_only.is_none(), "C20/mw/empty/superiority-not-none", "mann_whitney_superiority returned Some for an empty sample");
        ensure!(p_conv == 1.0, "C20/mw/empty/p-not-one", "mann_whitney_u_pvalue = {p_conv:e} for an empty sample (documented 1.0)");
        return Ok(());
    }
    let Some(mw) = mw else {
        fail!("C20/mw/none-for-nonempty", "MannWhitneyU::new returned None for non-empty samples {left:?} {right:?}");
    };
    let r = mw_reference(left, right);
    let p = mw.two_sided_p_value();
    let sup = mw.superiority();
    ensure!(p_ok(p), "C20/mw/p-range", "two_sided_p_value = {p:e} outside [1e-15,1]; left {left:?} right {right:?}");
    ensure!(
        p.to_bits() == p_conv.to_bits(),
        "C20/mw/convenience-p-differs",
        "mann_whitney_u_pvalue {p_conv:e} != MannWhitneyU::two_sided_p_value {p:e}"
    );
    ensure!(
        abs_close(sup, r.superiority, 1e-12),
        "C20/mw/superiority/mismatch",
        "superiority {sup} but pair counting gives {} (2U_right = {}, n1 = {}, n2 = {}); left {left:?} right {right:?}",
        r.superiority,
        r.u_right2,
        left.len(),
        right.len()
    );
    let Some(so) = sup_only else {
        fail!("C20/mw/superiority-only/none", "mann_whitney_superiority returned None for non-empty samples");
    };
    ensure!(
        abs_close(so, r.superiority, 1e-12),
        "C20/mw/superiority-only/mismatch",
        "mann_whitney_superiority {so} but pair counting gives {}; left {left:?} right {right:?}",
        r.superiority
    );
    if r.exact {
        ctx.classify("path:exact");
        ensure!(
            rel_close(p, r.p, 1e-12),
            "C20/mw/exact-p/mismatch",
            "exact two-sided p {p:e} but the doubled permutation tail (subset-sum count) is {:e}; n1 = {} n2 = {}; left {left:?} right {right:?}",
            r.p,
            left.len(),
            right.len()
        );
        if brute {
            let b = mw_exact_p_bruteforce(left, right);
            assert!(rel_close(b, r.p, 1e-12), "oracle: brute force {b:e} vs DP {:e}", r.p);
            ensure!(
                rel_close(p, b, 1e-12),
                "C20/mw/exact-p/bruteforce-mismatch",
                "exact two-sided p {p:e} but brute force over all splits gives {b:e}; left {left:?} right {right:?}"
            );
        }
    } else {
        ctx.classify("path:normal");
        ensure!(
            rel_close(p, r.p, 1e-9),
            "C20/mw/normal-p/mismatch",
            "normal-approximation p {p:e} but the tie- and continuity-corrected definition gives {:e}; n1 = {} n2 = {} 2U = ({}, {})",
            r.p,
            left.len(),
            right.len(),
            r.u_left2,
            r.u_right2
        );
    }
    if r.all_tied {
        ctx.classify("all-tied");
        ensure!(p == 1.0, "C20/mw/all-tied/p-not-one", "every observation ties but p = {p:e} (documented 1.0)");
    }
    // symmetry under swapping the samples
    let Some(sw) = MannWhitneyU::new(right, left) else {
        fail!("C20/mw/none-for-nonempty", "MannWhitneyU::new(right, left) returned None");
    };
    ensure!(
        rel_close(sw.two_sided_p_value(), p, 1e-12),
        "C20/mw/swap/p-differs",
        "p(left,right) = {p:e} but p(right,left) = {:e}; left {left:?} right {right:?}",
        sw.two_sided_p_value()
    );
    ensure!(
        abs_close(sw.superiority(), 1.0 - sup, 1e-12),
        "C20/mw/swap/superiority",
        "superiority(left,right) = {sup} but superiority(right,left) = {} (expected 1 - it)",
        sw.superiority()
    );
    if r.has_ties {
        ctx.classify("ties");
        ctx.nontrivial();
    } else {
        ctx.classify("no-ties");
    }
    if p == P_MIN {
        ctx.classify("p:at-floor");
    } else if p == 1.0 {
        ctx.classify("p:one");
    } else if p < 1e-9 {
        ctx.classify("p:<1e-9");
    } else if p < 0.05 {
        ctx.classify("p:<0.05");
    } else {
        ctx.classify("p:>=0.05");
    }
    ctx.classify(if left.len() < right.len() {
        "n1<n2"
    } else if left.len() > right.len() {
        "n1>n2"
    } else {
        "n1=n2"
    });
    Ok(())
}

#[derive(Debug, Clone, Serialize, Deserialize)]
struct MwSmall {
    /// per tie group, ascending by value: (how many of its members are in `left`, how many in `right`)
    groups: Vec<(u8, u8)>,
}

fn all_mw_small(n_max: u8) -> Vec<MwSmall> {
    fn rec(rem: u8, cur: &mut Vec<(u8, u8)>, out: &mut Vec<MwSmall>) {
        if !cur.is_empty() {
            out.push(MwSmall { groups: cur.clone() });
        }
        for g in 1..=rem {
            for l in 0..=g {
                cur.push((l, g - l));
                rec(rem - g, cur, out);
                cur.pop();
            }
        }
    }
    let mut out = Vec::new();
    rec(n_max, &mut Vec::new(), &mut out);
    out
}

fn check_mw_small(case: &MwSmall, ctx: &mut Ctx) -> Verdict {
    let m = case.groups.len() as i64;
    ctx.classify(&format!("n={}", case.groups.iter().map(|g| u32::from(g.0) + u32::from(g.1)).sum::<u32>()));
    for (variant, map) in [(0u8, 0u8), (1, 3), (2, 4)] {
        let mut left = Vec::new();
        let mut right = Vec::new();
        for (j, &(l, r)) in case.groups.iter().enumerate() {
            let v = val(map, j as i64 - m / 2, true);
            left.extend(std::iter::repeat_n(v, l as usize));
            right.extend(std::iter::repeat_n(v, r as usize));
        }
        if variant == 1 {
            left.reverse();
            right.reverse();
        }
        if variant == 2 {
            // interleave from both ends so the input is neither ascending nor descending
            let mix = |v: &mut Vec<f64>| {
                let n = v.len();
                let src = v.clone();
                for (i, slot) in v.iter_mut().enumerate() {
                    *slot = if i % 2 == 0 { src[i / 2] } else { src[n - 1 - i / 2] };
                }
            };
            mix(&mut left);
            mix(&mut right);
        }
        check_two_sample(&left, &right, true, ctx)?;
    }
    Ok(())
}

// ================================================================================================
// series checks

fn check_series(v: &[f64], small: bool, ctx: &mut Ctx) -> Verdict {
    let n = v.len();
    // ---- Mann-Kendall
    let mk = mann_kendall(v);
    let r = mk_reference(v);
    ensure!(
        mk.s == r.s as f64,
        "C20/mk/s/mismatch",
        "Mann-Kendall S = {} but sum of sign(x_j - x_i) over i<j is {}; series {v:?}",
        mk.s,
        r.s
    );
    ensure!(p_ok(mk.p_value), "C20/mk/p-range", "Mann-Kendall p = {:e} outside [1e-15,1]; series {v:?}", mk.p_value);
    ensure!(
        rel_close(mk.p_value, r.p, 1e-9),
        "C20/mk/p/mismatch",
        "Mann-Kendall p = {:e} but S = {}, 18*Var = {} (tie-corrected), continuity-corrected Z give {:e}; series {v:?}",
        mk.p_value,
        r.s,
        r.var18,
        r.p
    );
    if n < 3 || r.var18 == 0 {
        ensure!(mk.p_value == 1.0, "C20/mk/degenerate/p-not-one", "n = {n}, 18*Var = {} but p = {:e} (documented 1.0)", r.var18, mk.p_value);
    }
    let rev: Vec<f64> = v.iter().rev().copied().collect();
    let mkr = mann_kendall(&rev);
    ensure!(mkr.s == -mk.s, "C20/mk/reverse/s-not-negated", "S = {} but reversed series gives {}; series {v:?}", mk.s, mkr.s);
    ensure!(
        rel_close(mkr.p_value, mk.p_value, 1e-12),
        "C20/mk/reverse/p-differs",
        "p = {:e} but reversed series gives {:e}; series {v:?}",
        mk.p_value,
        mkr.p_value
    );

    // ---- Pettitt
    match (pettitt(v), pettitt_reference(v)) {
        (None, None) => {}
        (Some(got), Some(want)) => {
            ensure!(
                got.k_statistic == want.k as f64,
                "C20/pettitt/k/mismatch",
                "Pettitt K = {} but max_t |sum_(i<=t<j) sign(x_i - x_j)| = {}; series {v:?}",
                got.k_statistic,
                want.k
            );
            ensure!(
                got.index == want.index,
                "C20/pettitt/index/mismatch",
                "Pettitt location {} but the first maximising split is {} (K = {}); series {v:?}",
                got.index,
                want.index,
                want.k
            );
            ensure!(p_ok(got.p_value), "C20/pettitt/p-range", "Pettitt p = {:e} outside [1e-15,1]; series {v:?}", got.p_value);
            ensure!(
                rel_close(got.p_value, want.p, 1e-12),
                "C20/pettitt/p/mismatch",
                "Pettitt p = {:e} but 2 exp(-6K^2/(n^3+n^2)) clamped = {:e} (K = {}, n = {n})",
                got.p_value,
                want.p,
                want.k
            );
            if want.k == 0 {
                ctx.classify("pettitt:flat");
            } else if want.index == 1 || want.index == n - 1 {
                ctx.classify("pettitt:edge-split");
            } else {
                ctx.classify("pettitt:interior-split");
            }
        }
        (got, want) => {
            fail!("C20/pettitt/none-mismatch", "pettitt returned {got:?}, definition gives {want:?} (None iff fewer than two points); series {v:?}");
        }
    }

    // ---- medians
    match (median(v), median_reference(v)) {
        (None, None) => {}
        (Some(g), Some(w)) => {
            ensure!(rel_close(g, w, 1e-12), "C20/median/mismatch", "median = {g:e} but sorting gives {w:e}; values {v:?}");
            let mut buf = v.to_vec();
            let g2 = median_in_place(&mut buf);
            ensure!(g2 == Some(g), "C20/median/in-place-differs", "median_in_place = {g2:?}, median = {g:e}");
            let mut sorted = v.to_vec();
            sorted.sort_by(|a, b| cmp(*a, *b));
            ensure!(buf == sorted, "C20/median/in-place-not-sorted", "median_in_place left {buf:?}, sorted input is {sorted:?}");
        }
        (g, w) => fail!("C20/median/none-mismatch", "median = {g:?}, definition {w:?}"),
    }

    // ---- Theil-Sen
    match (theil_sen_line(v), theil_sen_slope_reference(v)) {
        (None, None) => {}
        (Some((slope, intercept)), Some(want)) => {
            ensure!(
                rel_close(slope, want, 1e-12),
                "C20/theil-sen/slope/mismatch",
                "Theil-Sen slope {slope:e} but the median of all pairwise slopes is {want:e}; series {v:?}"
            );
            let wi = theil_sen_intercept_reference(v, slope).expect("n >= 2");
            ensure!(
                rel_close(intercept, wi, 1e-12),
                "C20/theil-sen/intercept/mismatch",
                "Theil-Sen intercept {intercept:e} but median of x_i - slope*i is {wi:e}; series {v:?}"
            );
        }
        (g, w) => fail!("C20/theil-sen/none-mismatch", "theil_sen_line = {g:?}, definition slope {w:?} (None iff fewer than two points)"),
    }

    // ---- every mid-rank, observed through the one-versus-rest U statistic
    if small && n >= 2 {
        let r2 = doubled_midranks(v);
        for i in 0..n {
            let rest: Vec<f64> = v.iter().enumerate().filter(|(j, _)| *j != i).map(|(_, x)| *x).collect();
            let Some(s) = mann_whitney_superiority(&[v[i]], &rest) else {
                fail!("C20/mw/none-for-nonempty", "mann_whitney_superiority returned None for 1 vs {} points", n - 1);
            };
            // U_left = rank_i - 1, U_right = (n-1) - U_left, superiority = U_right/(n-1)
            let want = (2 * n as u64 - r2[i]) as f64 / (2.0 * (n as f64 - 1.0));
            ensure!(
                abs_close(s, want, 1e-12),
                "C20/ranks/midrank-mismatch",
                "one-vs-rest superiority of element {i} is {s}, mid-rank {}/2 implies {want}; values {v:?}",
                r2[i]
            );
        }
    }

    let groups = group_sizes(v);
    let has_ties = groups.iter().any(|&t| t > 1);
    ctx.classify(if groups.len() <= 1 {
        "constant-or-empty"
    } else if has_ties {
        "ties"
    } else {
        "no-ties"
    });
    ctx.classify(if r.s > 0 {
        "S>0"
    } else if r.s < 0 {
        "S<0"
    } else {
        "S=0"
    });
    if mk.p_value == P_MIN {
        ctx.classify("mk-p:at-floor");
    } else if mk.p_value < 0.05 {
        ctx.classify("mk-p:<0.05");
    }
    if n >= 3 && has_ties && groups.len() >= 2 {
        ctx.nontrivial();
    }
    Ok(())
}

#[derive(Debug, Clone, Serialize, Deserialize)]
struct WeakOrder {
    /// level of each position; the set of levels is {0..m-1}
    levels: Vec<u8>,
}

fn all_weak_orders(n_max: usize) -> Vec<WeakOrder> {
    let mut out = vec![WeakOrder { levels: vec![] }];
    for n in 1..=n_max {
        let mut cur = vec![0u8; n];
        loop {
            let mx = *cur.iter().max().expect("n >= 1");
            let mut seen = [false; 8];
            for &c in &cur {
                seen[c as usize] = true;
            }
            if (0..=mx as usize).all(|l| seen[l]) {
                out.push(WeakOrder { levels: cur.clone() });
            }
            // odometer over {0..n-1}^n
            let mut i = 0;
            loop {
                if i == n {
                    break;
                }
                cur[i] += 1;
                if (cur[i] as usize) < n {
                    break;
                }
                cur[i] = 0;
                i += 1;
            }
            if i == n {
                break;
            }
        }
    }
    out
}

fn check_weak_order(case: &WeakOrder, ctx: &mut Ctx) -> Verdict {
    ctx.classify(&format!("n={}", case.levels.len()));
    let levels: Vec<i64> = case.levels.iter().map(|&l| i64::from(l) - 2).collect();
    for map in [0u8, 3, 4] {
        let v = to_values(map, &levels, false);
        assert_order_iso(&levels, &v);
        check_series(&v, true, ctx)?;
    }
    Ok(())
}

// ================================================================================================
// generated two-sample cases

#[derive(Debug, Clone, Serialize, Deserialize)]
struct MwCase {
    /// value map (see `val`), rank-only magnitudes (up to 4e299)
    map: u8,
    left: Vec<i64>,
    right: Vec<i64>,
}

fn level_width() -> impl Strategy<Value = i64> {
    prop_oneof![
        1 => Just(0i64),
        2 => Just(1i64),
        2 => Just(2i64),
        2 => Just(5i64),
        2 => Just(30i64),
        1 => Just(1000i64),
        2 => Just(1_000_000_000i64),
    ]
}

/// Largest `n` with `C(n, k) < 2^53` (n >= 2k), per k = 0..=28.
fn boundary_table() -> Vec<usize> {
    (0..=28usize)
        .map(|k| {
            if k < 6 {
                return 0; // beyond the sizes generated here
            }
            let mut n = 2 * k;
            while exact_feasible(k, n + 1 - k) {
                n += 1;
            }
            n
        })
        .collect()
}

fn mw_sizes(tbl: Vec<usize>, big: usize) -> impl Strategy<Value = (usize, usize)> {
    let tbl2 = tbl.clone();
    prop_oneof![
        4 => (1usize..=12, 1usize..=12),
        3 => (1usize..=28, 1usize..=40),
        4 => (25usize..=33, 25usize..=33),
        // lopsided, within +-2 of the feasibility boundary for that smaller-side size
        3 => (9usize..=28, -2i64..=2).prop_map(move |(k, d)| (k, (tbl[k] as i64 + d) as usize - k)),
        1 => (6usize..=8, -2i64..=2).prop_map(move |(k, d)| (k, (tbl2[k] as i64 + d) as usize - k)),
        1 => (1usize..=5, 30usize..=big),
        3 => (29usize..=300, 29usize..=300),
        1 => (29usize..=big, 29usize..=big),
    ]
}

fn mw_case_strategy(tbl: Vec<usize>, big: usize) -> impl Strategy<Value = MwCase> {
    (mw_sizes(tbl, big), any::<bool>(), 0u8..5, level_width(), 0u8..5)
        .prop_flat_map(|((a, b), swap, map, w, sk)| {
            let (n1, n2) = if swap { (b, a) } else { (a, b) };
            let shift = match sk {
                0 => 0,
                1 => (w / 2).max(1),
                2 => -(w / 2).max(1),
                3 => 2 * w + 1,
                _ => -(2 * w + 1),
            };
            (Just(map), prop::collection::vec(-w..=w, n1), prop::collection::vec(-w..=w, n2), Just(shift))
        })
        .prop_map(|(map, left, right, shift)| MwCase { map, left, right: right.into_iter().map(|x| x + shift).collect() })
}

fn check_mw_case(case: &MwCase, ctx: &mut Ctx) -> Verdict {
    let mut all = case.left.clone();
    all.extend_from_slice(&case.right);
    let vals = to_values(case.map, &all, true);
    assert_order_iso(&all, &vals);
    let (left, right) = vals.split_at(case.left.len());
    let (n1, n2) = (left.len(), right.len());
    let k = n1.min(n2);
    if k >= 6 && k <= 28 {
        // distance of n from the feasibility boundary of this smaller-side size
        let f_here = exact_feasible(n1, n2);
        let near = exact_feasible(k, (n1.max(n2)).saturating_sub(3).max(k)) != exact_feasible(k, n1.max(n2) + 3);
        if near {
            ctx.classify(if f_here { "boundary:feasible-side" } else { "boundary:infeasible-side" });
        }
    }
    ctx.classify(&format!("map:{}", case.map));
    check_two_sample(left, right, n1 + n2 <= 14, ctx)
}

// ================================================================================================
// generated series

#[derive(Debug, Clone, Serialize, Deserialize)]
struct SeriesCase {
    /// value map (see `val`), magnitudes up to 4e149 so that slopes cannot overflow
    map: u8,
    levels: Vec<i64>,
}

fn series_strategy(max_n: usize) -> impl Strategy<Value = SeriesCase> {
    let n = prop_oneof![
        2 => 0usize..=12,
        4 => 3usize..=60,
        2 => 61usize..=250,
        1 => 251usize..=max_n,
    ];
    (n, 0u8..5, level_width(), -4i64..=4, -3i64..=3, any::<u16>())
        .prop_flat_map(|(n, map, w, trend, step, cp)| {
            (Just(map), prop::collection::vec(-w..=w, n), Just((w, trend, step, cp)))
        })
        .prop_map(|(map, noise, (w, trend, step, cp))| {
            let n = noise.len() as i64;
            let scale = w.max(1);
            let cp = vcommon::pick_index(cp, noise.len().max(1)) as i64;
            let levels = noise
                .iter()
                .enumerate()
                .map(|(i, &e)| {
                    let i = i as i64;
                    e + trend * i * scale / (4 * n.max(1)) + if i >= cp { step * scale } else { 0 }
                })
                .collect();
            SeriesCase { map, levels }
        })
}

fn check_series_case(case: &SeriesCase, ctx: &mut Ctx) -> Verdict {
    let v = to_values(case.map, &case.levels, false);
    assert_order_iso(&case.levels, &v);
    ctx.classify(&format!("map:{}", case.map));
    ctx.classify(match v.len() {
        0..=2 => "n<3",
        3..=60 => "n:3-60",
        61..=250 => "n:61-250",
        _ => "n>250",
    });
    check_series(&v, v.len() <= 12, ctx)
}

// ================================================================================================
// Benjamini-Hochberg

#[derive(Debug, Clone, Serialize, Deserialize)]
struct PSpec {
    /// 0 raw a/2^32; 1 exactly the threshold of rank (a mod family)+1, moved by `off` ulps;
    /// 2 copy of an earlier p-value; 3 raw scaled by q; 4 exactly 0 or 1
    kind: u8,
    a: u32,
    off: i8,
}

#[derive(Debug, Clone, Serialize, Deserialize)]
struct BhCase {
    ps: Vec<PSpec>,
    /// family = len + extra (or len - 1 when `under`, which is the documented panic)
    extra: u32,
    under: bool,
    qn: u32,
    qd: u32,
}

fn bh_strategy() -> impl Strategy<Value = BhCase> {
    let spec = (prop_oneof![2 => Just(0u8), 4 => Just(1u8), 2 => Just(2u8), 3 => Just(3u8), 1 => Just(4u8)], any::<u32>(), -1i8..=1)
        .prop_map(|(kind, a, off)| PSpec { kind, a, off });
    let len = prop_oneof![1 => 0usize..=1, 4 => 2usize..=8, 3 => 9usize..=40, 1 => 41usize..=120];
    let q = prop_oneof![
        1 => Just((1u32, 20u32)),
        1 => Just((1u32, 10u32)),
        1 => Just((1u32, 4u32)),
        1 => Just((1u32, 3u32)),
        1 => Just((1u32, 1u32)),
        3 => (1u32..=1000).prop_flat_map(|d| (1u32..=d, Just(d))),
    ];
    let extra = prop_oneof![4 => Just(0u32), 3 => 1u32..=5, 2 => 6u32..=2000];
    (len.prop_flat_map(move |n| prop::collection::vec(spec.clone(), n)), extra, prop::bool::weighted(0.03), q)
        .prop_map(|(ps, extra, under, (qn, qd))| BhCase { ps, extra, under, qn, qd })
}

fn check_bh(case: &BhCase, ctx: &mut Ctx) -> Verdict {
    let len = case.ps.len();
    let q = f64::from(case.qn) / f64::from(case.qd);
    assert!(q > 0.0 && q <= 1.0);
    if case.under && len >= 1 {
        ctx.classify("family<len (documented panic)");
        let ps = vec![0.5; len];
        let r = vcommon::catch(|| benjamini_hochberg(&ps, q, len - 1));
        ensure!(r.is_err(), "C20/bh/no-panic-for-small-family", "benjamini_hochberg accepted family {} < {} p-values", len - 1, len);
        return Ok(());
    }
    let family = len + case.extra as usize;
    let m = family as f64;
    let mut p: Vec<f64> = Vec::with_capacity(len);
    let mut at_threshold = false;
    for (i, s) in case.ps.iter().enumerate() {
        let raw = f64::from(s.a) / 4_294_967_296.0;
        let x = match s.kind {
            0 => raw,
            1 => {
                // bias the rank towards 1..=len+1, where thresholds matter
                let span = if s.a & 1 == 0 { (len + 1).min(family) } else { family };
                let k = 1 + (s.a as usize >> 1) % span.max(1);
                let t = (k as f64) / m * q;
                at_threshold |= s.off == 0;
                match s.off {
                    -1 => t.next_down().max(0.0),
                    1 => t.next_up().min(1.0),
                    _ => t,
                }
            }
            2 if i > 0 => p[s.a as usize % i],
            3 => raw * q,
            4 => f64::from(s.a & 1),
            _ => raw,
        };
        p.push(x);
    }
    let got = benjamini_hochberg(&p, q, family);
    ensure!(got.len() == len, "C20/bh/mask-length", "mask of length {} for {len} p-values", got.len());
    let (want, k, ambiguous) = bh_reference(&p, q, family);
    assert!(!ambiguous, "oracle: K smallest not determined by the threshold");
    ensure!(
        got == want,
        "C20/bh/mask-mismatch",
        "benjamini_hochberg rejected {:?} but the definition (largest k = {k} with p_(k) <= k/m*q) rejects {:?}; p = {p:?}, q = {q}, m = {family}",
        got,
        want
    );
    let mut sorted = p.clone();
    sorted.sort_by(|a, b| cmp(*a, *b));
    let has_tie = sorted.windows(2).any(|w| w[0] == w[1]);
    ctx.classify(if k == 0 {
        "rejects:none"
    } else if k == len {
        "rejects:all"
    } else {
        "rejects:some"
    });
    // step-up: some rank below K fails its own threshold
    if (1..k).any(|r| sorted[r - 1] > (r as f64) / m * q) {
        ctx.classify("step-up-rescues-a-rank");
    }
    if k >= 1 && sorted[k - 1] == (k as f64) / m * q {
        ctx.classify("cutoff-exactly-at-threshold");
    }
    if has_tie {
        ctx.classify("tied-p-values");
    }
    ctx.classify(if case.extra == 0 { "family=len" } else { "family>len" });
    if case.qn == case.qd {
        ctx.classify("q=1");
    }
    if len >= 2 && (has_tie || at_threshold) {
        ctx.nontrivial();
    }
    Ok(())
}

// ================================================================================================
// Student t

#[derive(Debug, Clone, Serialize, Deserialize)]
struct TCase {
    /// 0 finite num*10^exp, 1 NaN, 2 +inf, 3 -inf, 4 zero
    t_kind: u8,
    num: i32,
    exp: i8,
    /// 0 nu=1, 1 nu=2, 2 raw/65536 + 1, 3 below one, 4 NaN, 5 inf, 6 huge (1e9), 7 whole 3..=1000,
    /// 8 astronomically large finite 10^(10..=307) (intermediate log-gamma differences lose all
    /// digits there: the only promise left is the reportable range)
    df_kind: u8,
    df_raw: u32,
}

fn t_strategy() -> impl Strategy<Value = TCase> {
    (
        prop_oneof![12 => Just(0u8), 1 => Just(1u8), 1 => Just(2u8), 1 => Just(3u8), 1 => Just(4u8)],
        any::<i32>(),
        prop_oneof![4 => -10i8..=-6, 1 => -5i8..=20, 1 => 100i8..=120],
        prop_oneof![4 => Just(0u8), 4 => Just(1u8), 3 => Just(2u8), 1 => Just(3u8), 1 => Just(4u8), 1 => Just(5u8), 1 => Just(6u8), 3 => Just(7u8), 2 => Just(8u8)],
        any::<u32>(),
    )
        .prop_map(|(t_kind, num, exp, df_kind, df_raw)| TCase { t_kind, num, exp, df_kind, df_raw })
}

fn check_t(case: &TCase, ctx: &mut Ctx) -> Verdict {
    let t = match case.t_kind {
        0 => f64::from(case.num) * 10f64.powi(i32::from(case.exp)),
        1 => f64::NAN,
        2 => f64::INFINITY,
        3 => f64::NEG_INFINITY,
        _ => 0.0,
    };
    let df = match case.df_kind {
        0 => 1.0,
        1 => 2.0,
        2 => 1.0 + f64::from(case.df_raw) / 65536.0,
        3 => f64::from(case.df_raw) / 4_294_967_296.0 * 2.0 - 1.0, // [-1, 1)
        4 => f64::NAN,
        5 => f64::INFINITY,
        6 => 1e9,
        8 => 10f64.powi(10 + (case.df_raw % 298) as i32),
        _ => f64::from(3 + case.df_raw % 998),
    };
    let p = student_t_two_sided_p(t, df);
    ensure!(p_ok(p), "C20/student-t/p-range", "student_t_two_sided_p({t:e}, {df:e}) = {p:e} outside [1e-15,1]");
    let degenerate = !t.is_finite() || !df.is_finite() || df < 1.0;
    if degenerate {
        ctx.classify("degenerate-input");
        ensure!(p == 1.0, "C20/student-t/degenerate-not-one", "student_t_two_sided_p({t:e}, {df:e}) = {p:e} (documented: no evidence, 1.0)");
        ctx.nontrivial();
        return Ok(());
    }
    if df > 1e9 {
        ctx.classify("nu>1e9");
    }
    if t == 0.0 {
        ctx.classify("t=0");
        ensure!(p == 1.0, "C20/student-t/zero-not-one", "student_t_two_sided_p(0, {df}) = {p:e} (documented 1.0)");
    }
    let pn = student_t_two_sided_p(-t, df);
    ensure!(rel_close(p, pn, 1e-12), "C20/student-t/asymmetric", "p(t) = {p:e}, p(-t) = {pn:e} for t = {t:e}, nu = {df}");
    let p2 = student_t_two_sided_p(2.0 * t, df);
    ensure!(p_ok(p2), "C20/student-t/p-range", "student_t_two_sided_p({:e}, {df:e}) = {p2:e} outside [1e-15,1]", 2.0 * t);
    if df <= 1000.0 {
        ensure!(
            p2 <= p * (1.0 + 1e-9),
            "C20/student-t/not-monotone",
            "p(2t) = {p2:e} > p(t) = {p:e} for t = {t:e}, nu = {df}"
        );
    }
    let nu_int = if df == 1.0 {
        1
    } else if df == 2.0 {
        2
    } else {
        0
    };
    if let Some(c) = student_t_closed_form(t, nu_int) {
        let want = clamp_def(c);
        ctx.classify("closed-form");
        ensure!(
            rel_close(p, want, 1e-9),
            "C20/student-t/closed-form-mismatch",
            "student_t_two_sided_p({t:e}, {df}) = {p:e} but the closed form gives {want:e}"
        );
        if p != 1.0 {
            ctx.nontrivial();
        }
    }
    if p == P_MIN {
        ctx.classify("p:at-floor");
    } else if p < 1e-9 {
        ctx.classify("p:<1e-9");
    } else if p == 1.0 {
        ctx.classify("p:one");
    } else {
        ctx.classify("p:mid");
    }
    Ok(())
}

// ================================================================================================
// metamorphic relations

#[derive(Debug, Clone, Serialize, Deserialize)]
struct MetaCase {
    /// base values are k/8
    left: Vec<i64>,
    right: Vec<i64>,
    a_idx: u8,
    b_idx: u8,
}

const A_CHOICES: [f64; 8] = [0.5, 3.0, 1e-3, 7.25, 1e10, 1.0 / 3.0, 1e-200, 1e200];
const B_CHOICES: [f64; 6] = [0.0, 1.0, -1e6, 0.1, 1e12, -0.3];

fn meta_strategy() -> impl Strategy<Value = MetaCase> {
    let sizes = prop_oneof![
        5 => (1usize..=20, 1usize..=20),
        2 => (1usize..=4, 20usize..=60),
        3 => (29usize..=70, 29usize..=70),
    ];
    (sizes, prop_oneof![Just(3i64), Just(40i64), Just(100_000i64)], 0u8..8, 0u8..6, any::<bool>())
        .prop_flat_map(|((a, b), w, a_idx, b_idx, swap)| {
            let (n1, n2) = if swap { (b, a) } else { (a, b) };
            (prop::collection::vec(-w..=w, n1), prop::collection::vec(-w..=w, n2), Just(a_idx), Just(b_idx))
        })
        .prop_map(|(left, right, a_idx, b_idx)| MetaCase { left, right, a_idx, b_idx })
}

#[derive(PartialEq, Debug)]
struct RankOutputs {
    mw_p: u64,
    mw_sup: u64,
    mk_s: u64,
    mk_p: u64,
    pet: Option<(usize, u64, u64)>,
}

fn rank_outputs(left: &[f64], right: &[f64]) -> Option<RankOutputs> {
    let mw = MannWhitneyU::new(left, right)?;
    let mut series = left.to_vec();
    series.extend_from_slice(right);
    let mk = mann_kendall(&series);
    let pet = pettitt(&series).map(|c| (c.index, c.k_statistic.to_bits(), c.p_value.to_bits()));
    Some(RankOutputs {
        mw_p: mw.two_sided_p_value().to_bits(),
        mw_sup: mw.superiority().to_bits(),
        mk_s: mk.s.to_bits(),
        mk_p: mk.p_value.to_bits(),
        pet,
    })
}

fn check_meta(case: &MetaCase, ctx: &mut Ctx) -> Verdict {
    let n1 = case.left.len();
    let base: Vec<f64> = case.left.iter().chain(case.right.iter()).map(|&k| k as f64 / 8.0).collect();
    let Some(want) = rank_outputs(&base[..n1], &base[n1..]) else {
        fail!("C20/mw/none-for-nonempty", "MannWhitneyU::new returned None for non-empty samples");
    };
    let a = A_CHOICES[case.a_idx as usize];
    let b = B_CHOICES[case.b_idx as usize];
    // dense re-labelling of the distinct values by 0,1,2,...
    let mut distinct: Vec<i64> = case.left.iter().chain(case.right.iter()).copied().collect();
    distinct.sort_unstable();
    distinct.dedup();
    let transforms: [(&str, Vec<f64>); 3] = [
        ("affine", base.iter().map(|&x| a * x + b).collect()),
        ("cube", base.iter().map(|&x| x * x * x).collect()),
        (
            "dense-integers",
            case.left.iter().chain(case.right.iter()).map(|k| distinct.binary_search(k).expect("present") as f64).collect(),
        ),
    ];
    let mut verified = 0;
    for (name, y) in &transforms {
        // the relation is only claimed for maps that really are strictly increasing on this data in f64
        let ok = y.iter().all(|v| v.is_finite() && !(*v == 0.0 && v.is_sign_negative()))
            && (0..base.len()).all(|i| (0..base.len()).all(|j| cmp(base[i], base[j]) == cmp(y[i], y[j])));
        if !ok {
            ctx.classify(&format!("{name}:not-order-preserving-in-f64 (skipped)"));
            continue;
        }
        verified += 1;
        ctx.classify(&format!("{name}:verified"));
        let Some(got) = rank_outputs(&y[..n1], &y[n1..]) else {
            fail!("C20/mw/none-for-nonempty", "MannWhitneyU::new returned None for non-empty samples");
        };
        ensure!(got.mw_p == want.mw_p, format!("C20/meta/{name}/mw-p-changed"), "Mann-Whitney p {:e} -> {:e} under a strictly increasing map (a = {a:e}, b = {b:e})", f64::from_bits(want.mw_p), f64::from_bits(got.mw_p));
        ensure!(got.mw_sup == want.mw_sup, format!("C20/meta/{name}/superiority-changed"), "superiority {} -> {}", f64::from_bits(want.mw_sup), f64::from_bits(got.mw_sup));
        ensure!(got.mk_s == want.mk_s, format!("C20/meta/{name}/mk-s-changed"), "Mann-Kendall S {} -> {}", f64::from_bits(want.mk_s), f64::from_bits(got.mk_s));
        ensure!(got.mk_p == want.mk_p, format!("C20/meta/{name}/mk-p-changed"), "Mann-Kendall p {:e} -> {:e}", f64::from_bits(want.mk_p), f64::from_bits(got.mk_p));
        ensure!(got.pet == want.pet, format!("C20/meta/{name}/pettitt-changed"), "Pettitt (index, K, p) {:?} -> {:?}", want.pet, got.pet);
    }
    // swap + reversal on the base data (these are also asserted inside the other sections)
    let sw = rank_outputs(&base[n1..], &base[..n1]).expect("non-empty");
    let (p, pw) = (f64::from_bits(want.mw_p), f64::from_bits(sw.mw_p));
    ensure!(rel_close(p, pw, 1e-12), "C20/mw/swap/p-differs", "p(left,right) = {p:e}, p(right,left) = {pw:e}");
    let (s, s2) = (f64::from_bits(want.mw_sup), f64::from_bits(sw.mw_sup));
    ensure!(abs_close(s2, 1.0 - s, 1e-12), "C20/mw/swap/superiority", "superiority {s} vs swapped {s2}");
    let rev: Vec<f64> = base.iter().rev().copied().collect();
    let (m1, m2) = (mann_kendall(&base), mann_kendall(&rev));
    ensure!(m2.s == -m1.s, "C20/mk/reverse/s-not-negated", "S = {} but reversed series gives {}", m1.s, m2.s);

    let has_ties = distinct.len() < base.len();
    ctx.classify(if has_ties { "ties" } else { "no-ties" });
    ctx.classify(if exact_feasible(n1, base.len() - n1) { "path:exact" } else { "path:normal" });
    if has_ties && verified > 0 {
        ctx.nontrivial();
    }
    Ok(())
}

// ================================================================================================
// signed zeros

#[derive(Debug, Clone, Serialize, Deserialize)]
struct ZeroCase {
    /// integer values in -2..=2 (so zero is a frequent tie group)
    left: Vec<i64>,
    right: Vec<i64>,
    /// position i of left ++ right gets `-0.0` instead of `+0.0` when its value is zero and bit
    /// `i % 64` is set
    negative: u64,
}

fn zero_strategy() -> impl Strategy<Value = ZeroCase> {
    let sample = || {
        prop_oneof![
            4 => prop::collection::vec(-2i64..=2, 1..=8),
            2 => prop::collection::vec(-2i64..=2, 1..=30),
            1 => prop::collection::vec(-2i64..=2, 29..=60),
        ]
    };
    (sample(), sample(), 0i64..=2, any::<u64>()).prop_map(|(left, right, w, negative)| ZeroCase {
        left: left.into_iter().map(|k| k.clamp(-w, w)).collect(),
        right: right.into_iter().map(|k| k.clamp(-w, w)).collect(),
        negative,
    })
}

fn check_zero(case: &ZeroCase, ctx: &mut Ctx) -> Verdict {
    let n1 = case.left.len();
    let plain: Vec<f64> = case.left.iter().chain(case.right.iter()).map(|&k| k as f64).collect();
    let signed: Vec<f64> = plain
        .iter()
        .enumerate()
        .map(|(i, &x)| if x == 0.0 && case.negative >> (i % 64) & 1 == 1 { -0.0 } else { x })
        .collect();
    // numerically the two data sets are identical (IEEE: -0.0 == +0.0), so the definitions give
    // identical answers; the oracle itself compares with `partial_cmp` and cannot tell them apart
    assert!(plain.iter().zip(signed.iter()).all(|(a, b)| a == b));
    let (Some(want), Some(got)) = (rank_outputs(&plain[..n1], &plain[n1..]), rank_outputs(&signed[..n1], &signed[n1..])) else {
        fail!("C20/mw/none-for-nonempty", "MannWhitneyU::new returned None for non-empty samples");
    };
    let show = |v: &[f64]| format!("{v:?}");
    ensure!(
        got.mw_p == want.mw_p,
        "C20/signed-zero/mw-p-changed",
        "Mann-Whitney p {:e} with +0.0 but {:e} when some zeros are -0.0: left {} right {}",
        f64::from_bits(want.mw_p),
        f64::from_bits(got.mw_p),
        show(&signed[..n1]),
        show(&signed[n1..])
    );
    ensure!(
        got.mw_sup == want.mw_sup,
        "C20/signed-zero/superiority-changed",
        "superiority {} with +0.0 but {} when some zeros are -0.0: left {} right {}",
        f64::from_bits(want.mw_sup),
        f64::from_bits(got.mw_sup),
        show(&signed[..n1]),
        show(&signed[n1..])
    );
    ensure!(
        got.mk_s == want.mk_s && got.mk_p == want.mk_p,
        "C20/signed-zero/mk-changed",
        "Mann-Kendall (S, p) ({}, {:e}) with +0.0 but ({}, {:e}) when some zeros are -0.0: series {}",
        f64::from_bits(want.mk_s),
        f64::from_bits(want.mk_p),
        f64::from_bits(got.mk_s),
        f64::from_bits(got.mk_p),
        show(&signed)
    );
    ensure!(
        got.pet == want.pet,
        "C20/signed-zero/pettitt-changed",
        "Pettitt (index, K, p) {:?} with +0.0 but {:?} when some zeros are -0.0: series {}",
        want.pet,
        got.pet,
        show(&signed)
    );
    // and the full definition check on the signed data (the oracle orders by numeric value)
    check_two_sample(&signed[..n1], &signed[n1..], signed.len() <= 12, ctx)?;
    let neg = signed.iter().filter(|x| **x == 0.0 && x.is_sign_negative()).count();
    let pos = signed.iter().filter(|x| **x == 0.0 && x.is_sign_positive()).count();
    ctx.classify(match (neg > 0, pos > 0) {
        (true, true) => "both-zeros-present",
        (true, false) => "only-negative-zero",
        (false, true) => "only-positive-zero",
        (false, false) => "no-zero",
    });
    Ok(())
}

// ================================================================================================

fn main() {
    let mut h = Harness::from_args("C20");
    if let Err(e) = self_test() {
        eprintln!("C20 oracle self-test failed: {e}");
        std::process::exit(2);
    }
    let thorough = h.is_thorough();

    h.enumerate(
        "mw_exhaustive",
        "EXHAUSTIVE: every sequence of tie groups (ascending) with every left/right split of each group, n1+n2 <= 10 (incl. an empty side = documented None/1.0), each under 3 strictly increasing value maps and 3 input orders. Oracle: brute force over all C(n,n1) relabelings with integer doubled mid-rank sums, p = clamp(min(1, 2*min(P(S<=obs),P(S>=obs)))) (rel. tol 1e-12: same integers, one division); superiority = pair count/(n1*n2) (abs tol 1e-12); swap symmetry. Non-trivial = both samples non-empty and >= 1 tie group.",
        all_mw_small(10),
        check_mw_small,
    );

    h.enumerate(
        "series_exhaustive",
        "EXHAUSTIVE: every weak ordering of n <= 7 positions (n = 0..2 = documented degenerate answers), each under 3 strictly increasing value maps. Oracle: S = sum of signs (exact), p from the textbook tie-corrected variance + continuity-corrected Z with an independent erfc (rel tol 1e-9: crate documents 1e-12 for its normal tail); Pettitt K and first arg-max by direct sign summation (exact; oracle asserts it equals the rank form), p = clamp(2exp(-6K^2/(n^3+n^2))) (rel 1e-12); every mid-rank via one-vs-rest superiority (abs 1e-12); median by sort, Theil-Sen slope = median of all pairwise slopes, intercept = median of x_i - slope*i (rel 1e-12: identical operations); reversal negates S. Non-trivial = n >= 3, >= 1 tie group, >= 2 distinct values.",
        all_weak_orders(7),
        check_weak_order,
    );

    let tbl = boundary_table();
    h.note("exact_boundary_nmax_by_smaller_side", serde_json::json!(tbl));
    let big = if thorough { 1500 } else { 600 };
    let cases = h.cases(16_000, 400_000);
    h.section(
        "mw_random",
        "generated (n1,n2) in classes {small, <=28x40, balanced 25..33 around the 28/29 switch, lopsided within +-2 of the C(n,k)<2^53 boundary for k=6..28, k<=5 vs up to 600(1500 thorough), 29..300 and up to 600(1500) per side}, levels uniform in [-w,w] for w in {0,1,2,5,30,1000,1e9}, right sample shifted by {0, +-w/2, +-(2w+1) = fully separated}, 5 value maps up to magnitude 4e299. Oracle: superiority by O(n1*n2) pair counting (abs 1e-12); p = exact doubled tail by an independent u64 subset-sum count when C(n,min) < 2^53 (rel 1e-12) else textbook tie+continuity-corrected normal p from exact-integer variance and an independent erfc (rel 1e-9); every p in [1e-15,1]; all-tied -> 1.0; swap symmetry. Non-trivial = both samples non-empty and >= 1 tie group.",
        cases,
        mw_case_strategy(tbl, big),
        check_mw_case,
    );

    let max_n = if thorough { 2000 } else { 400 };
    let cases = h.cases(8_000, 150_000);
    h.section(
        "series_random",
        "generated series n in {0..12, 3..60, 61..250, 251..400 (2000 thorough)} = noise in [-w,w] + linear trend + optional step, w in {0,1,2,5,30,1000,1e9}, 5 value maps up to magnitude 4e149; same oracles and tolerances as series_exhaustive (mid-rank check only for n <= 12). Non-trivial = n >= 3, >= 1 tie group, >= 2 distinct values.",
        cases,
        series_strategy(max_n),
        check_series_case,
    );

    let cases = h.cases(120_000, 4_000_000);
    h.section(
        "bh_random",
        "generated p-value lists (len 0..120) mixing uniform values, values exactly at a rank threshold (k/m)*q and one ulp either side, copies of earlier values (ties), values scaled into [0,q), exact 0/1; family = len + {0, 1..5, 6..2000}; q = qn/qd in (0,1] incl. 1; 3% family = len-1 (documented panic asserted). Oracle: O(m^2) definition without sorting (largest k with #{p <= (k/m)q} >= k; reject p <= (K/m)q), mask equality exact. Non-trivial = len >= 2 with a tie or a value exactly at a threshold.",
        cases,
        bh_strategy(),
        check_bh,
    );

    let cases = h.cases(60_000, 2_000_000);
    h.section(
        "student_t",
        "generated (t, nu): t = i32 * 10^e incl. 0, NaN, +-inf, |t| up to 1e129; nu in {1, 2, 1..65537 real, whole 3..1000, <1, NaN, inf, 1e9, 1e10..1e307}. Asserted: p in [1e-15,1] never NaN; non-finite t or nu, or nu < 1 -> exactly 1.0; t = 0 -> 1.0; symmetric in sign (rel 1e-12); p(2t) <= p(t) for nu <= 1000; nu = 1: (2/pi)atan(1/|t|), nu = 2: 2/(s(s+|t|)), s = sqrt(2+t^2), clamped (rel 1e-9; crate documents 1e-10). Non-trivial = degenerate input, or closed-form case with p < 1.",
        cases,
        t_strategy(),
        check_t,
    );

    let cases = h.cases(12_000, 400_000);
    h.section(
        "metamorphic",
        "generated two samples (values k/8; sizes 1..20 each, 1..4 vs 20..60, 29..70 each = normal path) and a map x -> a*x+b (a in {0.5,3,1e-3,7.25,1e10,1/3,1e-200,1e200}, b in {0,1,-1e6,0.1,1e12,-0.3}), x -> x^3, and dense re-labelling by 0,1,2,...; each map is first verified to preserve every pairwise comparison in f64 (else skipped and counted). Asserted bit-for-bit (outputs are functions of the comparison pattern only): Mann-Whitney p and superiority, Mann-Kendall S and p, Pettitt index/K/p on left++right; plus swap symmetry (p rel 1e-12, superiority -> 1-superiority abs 1e-12) and reversal negating S. Non-trivial = >= 1 tie group, both samples non-empty, >= 1 verified map.",
        cases,
        meta_strategy(),
        check_meta,
    );

    let cases = h.cases(20_000, 600_000);
    h.section(
        "signed_zero",
        "generated two samples of integers in [-w,w], w in {0,1,2} (sizes 1..8, 1..30, 29..60 per side), with a random subset of the zeros written as -0.0. -0.0 and +0.0 are the same real number, so they tie: Mann-Whitney p and superiority, Mann-Kendall S and p, Pettitt index/K/p must be bit-identical to the all-+0.0 data, and the full two-sample definition oracle (numeric comparison) is applied to the signed data. Non-trivial = both samples non-empty and >= 1 tie group (class `both-zeros-present` counts the cases whose zero group mixes the two signs).",
        cases,
        zero_strategy(),
        check_zero,
    );

    h.finish()
}
