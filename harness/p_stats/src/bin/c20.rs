//! C20 — statistical primitives match their definitions on every input.
//!
//! Sections of this one binary:
//!   * `mw_exhaustive`     every (tie-group composition, per-group left/right split) with n1+n2 <= 10
//!   * `series_exhaustive` every weak ordering of a series with n <= 7
//!   * `mw_random`         generated two-sample cases up to ~2000 points, both sides of the
//!                         exact/normal feasibility boundary
//!   * `series_random`     generated series (noise + trend + step, heavy ties .. distinct)
//!   * `bh_random`         Benjamini-Hochberg vs the O(m^2) definition
//!   * `student_t`         range / degenerate inputs / closed forms for nu = 1, 2
//!   * `metamorphic`       strictly increasing maps, sample swap, series reversal
//!
//!   * `signed_zero`       `-0.0` and `+0.0` are the same number, hence a tie
//!   * `selection`         `selection_adjusted_change_point`: documented None rule, located split,
//!                         tainted p / superiority vs the two-sample primitives, clamp and early
//!                         exit, complete-orbit brute force for n <= 20, strictly increasing maps
//!   * `std_dev`           `mean` / `sample_std_dev` vs exact integer arithmetic, affine maps
//!
//! All expected values come from `p_stats` (src/lib.rs), which never calls `cbh_stats`.
//! Data never contains NaN or infinities; `-0.0` appears only in the `signed_zero` section.

use cbh_stats::{
    MannWhitneyU, SelectionAdjustedChangePoint, SelectionCalibration, benjamini_hochberg, mann_kendall,
    mann_whitney_superiority, mann_whitney_u_pvalue, mean, median, median_in_place, pettitt, sample_std_dev,
    selection_adjusted_change_point, student_t_two_sided_p, theil_sen_line,
};
use p_stats::*;
use proptest::prelude::*;
use serde::{Deserialize, Serialize};
use vcommon::{Ctx, Harness, Verdict, ensure, fail};

fn p_ok(p: f64) -> bool {
    p >= P_MIN && p <= 1.0 // false for NaN
}

/// Strictly increasing maps from integer levels to f64 (exact: distinct levels give distinct
/// values, equal levels equal values; checked by `to_values`).
fn val(map: u8, k: i64, rank_only: bool) -> f64 {
    let x = k as f64; // |k| < 2^53
    match map {
        0 => x,
        1 => x * 0.125,
        2 => x * 1e-300,
        3 => x * if rank_only { 1e290 } else { 1e140 },
        _ => 1e9 + x / 1024.0,
    }
}

fn to_values(map: u8, levels: &[i64], rank_only: bool) -> Vec<f64> {
    let v: Vec<f64> = levels.iter().map(|&k| val(map, k, rank_only)).collect();
    for x in &v {
        assert!(x.is_finite() && !(*x == 0.0 && x.is_sign_negative()), "generator produced a non-finite or -0.0 value");
    }
    v
}

/// Harness self-check: the f64 values are order-isomorphic to the integer levels.
fn assert_order_iso(levels: &[i64], values: &[f64]) {
    let mut idx: Vec<usize> = (0..levels.len()).collect();
    idx.sort_by_key(|&i| levels[i]);
    for w in idx.windows(2) {
        let (a, b) = (w[0], w[1]);
        assert_eq!(levels[a].cmp(&levels[b]), cmp(values[a], values[b]), "value map is not strictly increasing");
    }
}

// ================================================================================================
// two-sample checks

fn check_two_sample(left: &[f64], right: &[f64], brute: bool, ctx: &mut Ctx) -> Verdict {
    let mw = MannWhitneyU::new(left, right);
    let sup_only = mann_whitney_superiority(left, right);
    let p_conv = mann_whitney_u_pvalue(left, right);
    ensure!(p_ok(p_conv), "C20/mw/p-range", "mann_whitney_u_pvalue = {p_conv:e} outside [1e-15,1]; left {left:?} right {right:?}");
    if left.is_empty() || right.is_empty() {
        ctx.classify("empty-side");
        ensure!(mw.is_none(), "C20/mw/empty/not-none", "MannWhitneyU::new returned Some for an empty sample");
        ensure!(sup_only.is_none(), "C20/mw/empty/superiority-not-none", "mann_whitney_superiority returned Some for an empty sample");
        ensure!(p_conv == 1.0, "C20/mw/empty/p-not-one", "mann_whitney_u_pvalue = {p_conv:e} for an empty sample (documented 1.0)");
        return Ok(());
    }
    let Some(mw) = mw else {
        fail!("C20/mw/none-for-nonempty", "MannWhitneyU::new returned None for non-empty samples {left:?} {right:?}");
    };
    let r = mw_reference(left, right);
    let p = mw.two_sided_p_value();
    let sup = mw.superiority();
    ensure!(p_ok(p), "C20/mw/p-range", "two_sided_p_value = {p:e} outside [1e-15,1]; left {left:?} right {right:?}");
    ensure!(
        p.to_bits() == p_conv.to_bits(),
        "C20/mw/convenience-p-differs",
        "mann_whitney_u_pvalue {p_conv:e} != MannWhitneyU::two_sided_p_value {p:e}"
    );
    ensure!(
        abs_close(sup, r.superiority, 1e-12),
        "C20/mw/superiority/mismatch",
        "superiority {sup} but pair counting gives {} (2U_right = {}, n1 = {}, n2 = {}); left {left:?} right {right:?}",
        r.superiority,
        r.u_right2,
        left.len(),
        right.len()
    );
    let Some(so) = sup_only else {
        fail!("C20/mw/superiority-only/none", "mann_whitney_superiority returned None for non-empty samples");
    };
    ensure!(
        abs_close(so, r.superiority, 1e-12),
        "C20/mw/superiority-only/mismatch",
        "mann_whitney_superiority {so} but pair counting gives {}; left {left:?} right {right:?}",
        r.superiority
    );
    if r.exact {
        ctx.classify("path:exact");
        ensure!(
            rel_close(p, r.p, 1e-12),
            "C20/mw/exact-p/mismatch",
            "exact two-sided p {p:e} but the doubled permutation tail (subset-sum count) is {:e}; n1 = {} n2 = {}; left {left:?} right {right:?}",
            r.p,
            left.len(),
            right.len()
        );
        if brute {
            let b = mw_exact_p_bruteforce(left, right);
            assert!(rel_close(b, r.p, 1e-12), "oracle: brute force {b:e} vs DP {:e}", r.p);
            ensure!(
                rel_close(p, b, 1e-12),
                "C20/mw/exact-p/bruteforce-mismatch",
                "exact two-sided p {p:e} but brute force over all splits gives {b:e}; left {left:?} right {right:?}"
            );
        }
    } else {
        ctx.classify("path:normal");
        ensure!(
            rel_close(p, r.p, 1e-9),
            "C20/mw/normal-p/mismatch",
            "normal-approximation p {p:e} but the tie- and continuity-corrected definition gives {:e}; n1 = {} n2 = {} 2U = ({}, {})",
            r.p,
            left.len(),
            right.len(),
            r.u_left2,
            r.u_right2
        );
    }
    if r.all_tied {
        ctx.classify("all-tied");
        ensure!(p == 1.0, "C20/mw/all-tied/p-not-one", "every observation ties but p = {p:e} (documented 1.0)");
    }
    // symmetry under swapping the samples
    let Some(sw) = MannWhitneyU::new(right, left) else {
        fail!("C20/mw/none-for-nonempty", "MannWhitneyU::new(right, left) returned None");
    };
    ensure!(
        rel_close(sw.two_sided_p_value(), p, 1e-12),
        "C20/mw/swap/p-differs",
        "p(left,right) = {p:e} but p(right,left) = {:e}; left {left:?} right {right:?}",
        sw.two_sided_p_value()
    );
    ensure!(
        abs_close(sw.superiority(), 1.0 - sup, 1e-12),
        "C20/mw/swap/superiority",
        "superiority(left,right) = {sup} but superiority(right,left) = {} (expected 1 - it)",
        sw.superiority()
    );
    if r.has_ties {
        ctx.classify("ties");
        ctx.nontrivial();
    } else {
        ctx.classify("no-ties");
    }
    if p == P_MIN {
        ctx.classify("p:at-floor");
    } else if p == 1.0 {
        ctx.classify("p:one");
    } else if p < 1e-9 {
        ctx.classify("p:<1e-9");
    } else if p < 0.05 {
        ctx.classify("p:<0.05");
    } else {
        ctx.classify("p:>=0.05");
    }
    ctx.classify(if left.len() < right.len() {
        "n1<n2"
    } else if left.len() > right.len() {
        "n1>n2"
    } else {
        "n1=n2"
    });
    Ok(())
}

#[derive(Debug, Clone, Serialize, Deserialize)]
struct MwSmall {
    /// per tie group, ascending by value: (how many of its members are in `left`, how many in `right`)
    groups: Vec<(u8, u8)>,
}

fn all_mw_small(n_max: u8) -> Vec<MwSmall> {
    fn rec(rem: u8, cur: &mut Vec<(u8, u8)>, out: &mut Vec<MwSmall>) {
        if !cur.is_empty() {
            out.push(MwSmall { groups: cur.clone() });
        }
        for g in 1..=rem {
            for l in 0..=g {
                cur.push((l, g - l));
                rec(rem - g, cur, out);
                cur.pop();
            }
        }
    }
    let mut out = Vec::new();
    rec(n_max, &mut Vec::new(), &mut out);
    out
}

fn check_mw_small(case: &MwSmall, ctx: &mut Ctx) -> Verdict {
    let m = case.groups.len() as i64;
    ctx.classify(&format!("n={}", case.groups.iter().map(|g| u32::from(g.0) + u32::from(g.1)).sum::<u32>()));
    for (variant, map) in [(0u8, 0u8), (1, 3), (2, 4)] {
        let mut left = Vec::new();
        let mut right = Vec::new();
        for (j, &(l, r)) in case.groups.iter().enumerate() {
            let v = val(map, j as i64 - m / 2, true);
            left.extend(std::iter::repeat_n(v, l as usize));
            right.extend(std::iter::repeat_n(v, r as usize));
        }
        if variant == 1 {
            left.reverse();
            right.reverse();
        }
        if variant == 2 {
            // interleave from both ends so the input is neither ascending nor descending
            let mix = |v: &mut Vec<f64>| {
                let n = v.len();
                let src = v.clone();
                for (i, slot) in v.iter_mut().enumerate() {
                    *slot = if i % 2 == 0 { src[i / 2] } else { src[n - 1 - i / 2] };
                }
            };
            mix(&mut left);
            mix(&mut right);
        }
        check_two_sample(&left, &right, true, ctx)?;
    }
    Ok(())
}

// ================================================================================================
// series checks

fn check_series(v: &[f64], small: bool, ctx: &mut Ctx) -> Verdict {
    let n = v.len();
    // ---- Mann-Kendall
    let mk = mann_kendall(v);
    let r = mk_reference(v);
    ensure!(
        mk.s == r.s as f64,
        "C20/mk/s/mismatch",
        "Mann-Kendall S = {} but sum of sign(x_j - x_i) over i<j is {}; series {v:?}",
        mk.s,
        r.s
    );
    ensure!(p_ok(mk.p_value), "C20/mk/p-range", "Mann-Kendall p = {:e} outside [1e-15,1]; series {v:?}", mk.p_value);
    ensure!(
        rel_close(mk.p_value, r.p, 1e-9),
        "C20/mk/p/mismatch",
        "Mann-Kendall p = {:e} but S = {}, 18*Var = {} (tie-corrected), continuity-corrected Z give {:e}; series {v:?}",
        mk.p_value,
        r.s,
        r.var18,
        r.p
    );
    if n < 3 || r.var18 == 0 {
        ensure!(mk.p_value == 1.0, "C20/mk/degenerate/p-not-one", "n = {n}, 18*Var = {} but p = {:e} (documented 1.0)", r.var18, mk.p_value);
    }
    let rev: Vec<f64> = v.iter().rev().copied().collect();
    let mkr = mann_kendall(&rev);
    ensure!(mkr.s == -mk.s, "C20/mk/reverse/s-not-negated", "S = {} but reversed series gives {}; series {v:?}", mk.s, mkr.s);
    ensure!(
        rel_close(mkr.p_value, mk.p_value, 1e-12),
        "C20/mk/reverse/p-differs",
        "p = {:e} but reversed series gives {:e}; series {v:?}",
        mk.p_value,
        mkr.p_value
    );

    // ---- Pettitt
    match (pettitt(v), pettitt_reference(v)) {
        (None, None) => {}
        (Some(got), Some(want)) => {
            ensure!(
                got.k_statistic == want.k as f64,
                "C20/pettitt/k/mismatch",
                "Pettitt K = {} but max_t |sum_(i<=t<j) sign(x_i - x_j)| = {}; series {v:?}",
                got.k_statistic,
                want.k
            );
            ensure!(
                got.index == want.index,
                "C20/pettitt/index/mismatch",
                "Pettitt location {} but the first maximising split is {} (K = {}); series {v:?}",
                got.index,
                want.index,
                want.k
            );
            ensure!(p_ok(got.p_value), "C20/pettitt/p-range", "Pettitt p = {:e} outside [1e-15,1]; series {v:?}", got.p_value);
            ensure!(
                rel_close(got.p_value, want.p, 1e-12),
                "C20/pettitt/p/mismatch",
                "Pettitt p = {:e} but 2 exp(-6K^2/(n^3+n^2)) clamped = {:e} (K = {}, n = {n})",
                got.p_value,
                want.p,
                want.k
            );
            if want.k == 0 {
                ctx.classify("pettitt:flat");
            } else if want.index == 1 || want.index == n - 1 {
                ctx.classify("pettitt:edge-split");
            } else {
                ctx.classify("pettitt:interior-split");
            }
        }
        (got, want) => {
            fail!("C20/pettitt/none-mismatch", "pettitt returned {got:?}, definition gives {want:?} (None iff fewer than two points); series {v:?}");
        }
    }

    // ---- medians
    match (median(v), median_reference(v)) {
        (None, None) => {}
        (Some(g), Some(w)) => {
            ensure!(rel_close(g, w, 1e-12), "C20/median/mismatch", "median = {g:e} but sorting gives {w:e}; values {v:?}");
            let mut buf = v.to_vec();
            let g2 = median_in_place(&mut buf);
            ensure!(g2 == Some(g), "C20/median/in-place-differs", "median_in_place = {g2:?}, median = {g:e}");
            let mut sorted = v.to_vec();
            sorted.sort_by(|a, b| cmp(*a, *b));
            ensure!(buf == sorted, "C20/median/in-place-not-sorted", "median_in_place left {buf:?}, sorted input is {sorted:?}");
        }
        (g, w) => fail!("C20/median/none-mismatch", "median = {g:?}, definition {w:?}"),
    }

    // ---- Theil-Sen
    match (theil_sen_line(v), theil_sen_slope_reference(v)) {
        (None, None) => {}
        (Some((slope, intercept)), Some(want)) => {
            ensure!(
                rel_close(slope, want, 1e-12),
                "C20/theil-sen/slope/mismatch",
                "Theil-Sen slope {slope:e} but the median of all pairwise slopes is {want:e}; series {v:?}"
            );
            let wi = theil_sen_intercept_reference(v, slope).expect("n >= 2");
            ensure!(
                rel_close(intercept, wi, 1e-12),
                "C20/theil-sen/intercept/mismatch",
                "Theil-Sen intercept {intercept:e} but median of x_i - slope*i is {wi:e}; series {v:?}"
            );
        }
        (g, w) => fail!("C20/theil-sen/none-mismatch", "theil_sen_line = {g:?}, definition slope {w:?} (None iff fewer than two points)"),
    }

    // ---- every mid-rank, observed through the one-versus-rest U statistic
    if small && n >= 2 {
        let r2 = doubled_midranks(v);
        for i in 0..n {
            let rest: Vec<f64> = v.iter().enumerate().filter(|(j, _)| *j != i).map(|(_, x)| *x).collect();
            let Some(s) = mann_whitney_superiority(&[v[i]], &rest) else {
                fail!("C20/mw/none-for-nonempty", "mann_whitney_superiority returned None for 1 vs {} points", n - 1);
            };
            // U_left = rank_i - 1, U_right = (n-1) - U_left, superiority = U_right/(n-1)
            let want = (2 * n as u64 - r2[i]) as f64 / (2.0 * (n as f64 - 1.0));
            ensure!(
                abs_close(s, want, 1e-12),
                "C20/ranks/midrank-mismatch",
                "one-vs-rest superiority of element {i} is {s}, mid-rank {}/2 implies {want}; values {v:?}",
                r2[i]
            );
        }
    }

    let groups = group_sizes(v);
    let has_ties = groups.iter().any(|&t| t > 1);
    ctx.classify(if groups.len() <= 1 {
        "constant-or-empty"
    } else if has_ties {
        "ties"
    } else {
        "no-ties"
    });
    ctx.classify(if r.s > 0 {
        "S>0"
    } else if r.s < 0 {
        "S<0"
    } else {
        "S=0"
    });
    if mk.p_value == P_MIN {
        ctx.classify("mk-p:at-floor");
    } else if mk.p_value < 0.05 {
        ctx.classify("mk-p:<0.05");
    }
    if n >= 3 && has_ties && groups.len() >= 2 {
        ctx.nontrivial();
    }
    Ok(())
}

#[derive(Debug, Clone, Serialize, Deserialize)]
struct WeakOrder {
    /// level of each position; the set of levels is {0..m-1}
    levels: Vec<u8>,
}

fn all_weak_orders(n_max: usize) -> Vec<WeakOrder> {
    let mut out = vec![WeakOrder { levels: vec![] }];
    for n in 1..=n_max {
        let mut cur = vec![0u8; n];
        loop {
            let mx = *cur.iter().max().expect("n >= 1");
            let mut seen = [false; 8];
            for &c in &cur {
                seen[c as usize] = true;
            }
            if (0..=mx as usize).all(|l| seen[l]) {
                out.push(WeakOrder { levels: cur.clone() });
            }
            // odometer over {0..n-1}^n
            let mut i = 0;
            loop {
                if i == n {
                    break;
                }
                cur[i] += 1;
                if (cur[i] as usize) < n {
                    break;
                }
                cur[i] = 0;
                i += 1;
            }
            if i == n {
                break;
            }
        }
    }
    out
}

fn check_weak_order(case: &WeakOrder, ctx: &mut Ctx) -> Verdict {
    ctx.classify(&format!("n={}", case.levels.len()));
    let levels: Vec<i64> = case.levels.iter().map(|&l| i64::from(l) - 2).collect();
    for map in [0u8, 3, 4] {
        let v = to_values(map, &levels, false);
        assert_order_iso(&levels, &v);
        check_series(&v, true, ctx)?;
    }
    Ok(())
}

// ================================================================================================
// generated two-sample cases

#[derive(Debug, Clone, Serialize, Deserialize)]
struct MwCase {
    /// value map (see `val`), rank-only magnitudes (up to 4e299)
    map: u8,
    left: Vec<i64>,
    right: Vec<i64>,
}

fn level_width() -> impl Strategy<Value = i64> {
    prop_oneof![
        1 => Just(0i64),
        2 => Just(1i64),
        2 => Just(2i64),
        2 => Just(5i64),
        2 => Just(30i64),
        1 => Just(1000i64),
        2 => Just(1_000_000_000i64),
    ]
}

/// Largest `n` with `C(n, k) < 2^53` (n >= 2k), per k = 0..=28.
fn boundary_table() -> Vec<usize> {
    (0..=28usize)
        .map(|k| {
            if k < 6 {
                return 0; // beyond the sizes generated here
            }
            let mut n = 2 * k;
            while exact_feasible(k, n + 1 - k) {
                n += 1;
            }
            n
        })
        .collect()
}

fn mw_sizes(tbl: Vec<usize>, big: usize) -> impl Strategy<Value = (usize, usize)> {
    let tbl2 = tbl.clone();
    prop_oneof![
        4 => (1usize..=12, 1usize..=12),
        3 => (1usize..=28, 1usize..=40),
        4 => (25usize..=33, 25usize..=33),
        // lopsided, within +-2 of the feasibility boundary for that smaller-side size
        3 => (9usize..=28, -2i64..=2).prop_map(move |(k, d)| (k, (tbl[k] as i64 + d) as usize - k)),
        1 => (6usize..=8, -2i64..=2).prop_map(move |(k, d)| (k, (tbl2[k] as i64 + d) as usize - k)),
        1 => (1usize..=5, 30usize..=big),
        3 => (29usize..=300, 29usize..=300),
        1 => (29usize..=big, 29usize..=big),
    ]
}

fn mw_case_strategy(tbl: Vec<usize>, big: usize) -> impl Strategy<Value = MwCase> {
    (mw_sizes(tbl, big), any::<bool>(), 0u8..5, level_width(), 0u8..5)
        .prop_flat_map(|((a, b), swap, map, w, sk)| {
            let (n1, n2) = if swap { (b, a) } else { (a, b) };
            let shift = match sk {
                0 => 0,
                1 => (w / 2).max(1),
                2 => -(w / 2).max(1),
                3 => 2 * w + 1,
                _ => -(2 * w + 1),
            };
            (Just(map), prop::collection::vec(-w..=w, n1), prop::collection::vec(-w..=w, n2), Just(shift))
        })
        .prop_map(|(map, left, right, shift)| MwCase { map, left, right: right.into_iter().map(|x| x + shift).collect() })
}

fn check_mw_case(case: &MwCase, ctx: &mut Ctx) -> Verdict {
    let mut all = case.left.clone();
    all.extend_from_slice(&case.right);
    let vals = to_values(case.map, &all, true);
    assert_order_iso(&all, &vals);
    let (left, right) = vals.split_at(case.left.len());
    let (n1, n2) = (left.len(), right.len());
    let k = n1.min(n2);
    if k >= 6 && k <= 28 {
        // distance of n from the feasibility boundary of this smaller-side size
        let f_here = exact_feasible(n1, n2);
        let near = exact_feasible(k, (n1.max(n2)).saturating_sub(3).max(k)) != exact_feasible(k, n1.max(n2) + 3);
        if near {
            ctx.classify(if f_here { "boundary:feasible-side" } else { "boundary:infeasible-side" });
        }
    }
    ctx.classify(&format!("map:{}", case.map));
    check_two_sample(left, right, n1 + n2 <= 14, ctx)
}

// ================================================================================================
// generated series

#[derive(Debug, Clone, Serialize, Deserialize)]
struct SeriesCase {
    /// value map (see `val`), magnitudes up to 4e149 so that slopes cannot overflow
    map: u8,
    levels: Vec<i64>,
}

fn series_strategy(max_n: usize) -> impl Strategy<Value = SeriesCase> {
    let n = prop_oneof![
        2 => 0usize..=12,
        4 => 3usize..=60,
        2 => 61usize..=250,
        1 => 251usize..=max_n,
    ];
    (n, 0u8..5, level_width(), -4i64..=4, -3i64..=3, any::<u16>())
        .prop_flat_map(|(n, map, w, trend, step, cp)| {
            (Just(map), prop::collection::vec(-w..=w, n), Just((w, trend, step, cp)))
        })
        .prop_map(|(map, noise, (w, trend, step, cp))| {
            let n = noise.len() as i64;
            let scale = w.max(1);
            let cp = vcommon::pick_index(cp, noise.len().max(1)) as i64;
            let levels = noise
                .iter()
                .enumerate()
                .map(|(i, &e)| {
                    let i = i as i64;
                    e + trend * i * scale / (4 * n.max(1)) + if i >= cp { step * scale } else { 0 }
                })
                .collect();
            SeriesCase { map, levels }
        })
}

fn check_series_case(case: &SeriesCase, ctx: &mut Ctx) -> Verdict {
    let v = to_values(case.map, &case.levels, false);
    assert_order_iso(&case.levels, &v);
    ctx.classify(&format!("map:{}", case.map));
    ctx.classify(match v.len() {
        0..=2 => "n<3",
        3..=60 => "n:3-60",
        61..=250 => "n:61-250",
        _ => "n>250",
    });
    check_series(&v, v.len() <= 12, ctx)
}

// ================================================================================================
// Benjamini-Hochberg

#[derive(Debug, Clone, Serialize, Deserialize)]
struct PSpec {
    /// 0 raw a/2^32; 1 exactly the threshold of rank (a mod family)+1, moved by `off` ulps;
    /// 2 copy of an earlier p-value; 3 raw scaled by q; 4 exactly 0 or 1
    kind: u8,
    a: u32,
    off: i8,
}

#[derive(Debug, Clone, Serialize, Deserialize)]
struct BhCase {
    ps: Vec<PSpec>,
    /// family = len + extra (or len - 1 when `under`, which is the documented panic)
    extra: u32,
    under: bool,
    qn: u32,
    qd: u32,
}

fn bh_strategy() -> impl Strategy<Value = BhCase> {
    let spec = (prop_oneof![2 => Just(0u8), 4 => Just(1u8), 2 => Just(2u8), 3 => Just(3u8), 1 => Just(4u8)], any::<u32>(), -1i8..=1)
        .prop_map(|(kind, a, off)| PSpec { kind, a, off });
    let len = prop_oneof![1 => 0usize..=1, 4 => 2usize..=8, 3 => 9usize..=40, 1 => 41usize..=120];
    let q = prop_oneof![
        1 => Just((1u32, 20u32)),
        1 => Just((1u32, 10u32)),
        1 => Just((1u32, 4u32)),
        1 => Just((1u32, 3u32)),
        1 => Just((1u32, 1u32)),
        3 => (1u32..=1000).prop_flat_map(|d| (1u32..=d, Just(d))),
    ];
    let extra = prop_oneof![4 => Just(0u32), 3 => 1u32..=5, 2 => 6u32..=2000];
    (len.prop_flat_map(move |n| prop::collection::vec(spec.clone(), n)), extra, prop::bool::weighted(0.03), q)
        .prop_map(|(ps, extra, under, (qn, qd))| BhCase { ps, extra, under, qn, qd })
}

fn check_bh(case: &BhCase, ctx: &mut Ctx) -> Verdict {
    let len = case.ps.len();
    let q = f64::from(case.qn) / f64::from(case.qd);
    assert!(q > 0.0 && q <= 1.0);
    if case.under && len >= 1 {
        ctx.classify("family<len (documented panic)");
        let ps = vec![0.5; len];
        let r = vcommon::catch(|| benjamini_hochberg(&ps, q, len - 1));
        ensure!(r.is_err(), "C20/bh/no-panic-for-small-family", "benjamini_hochberg accepted family {} < {} p-values", len - 1, len);
        return Ok(());
    }
    let family = len + case.extra as usize;
    let m = family as f64;
    let mut p: Vec<f64> = Vec::with_capacity(len);
    let mut at_threshold = false;
    for (i, s) in case.ps.iter().enumerate() {
        let raw = f64::from(s.a) / 4_294_967_296.0;
        let x = match s.kind {
            0 => raw,
            1 => {
                // bias the rank towards 1..=len+1, where thresholds matter
                let span = if s.a & 1 == 0 { (len + 1).min(family) } else { family };
                let k = 1 + (s.a as usize >> 1) % span.max(1);
                let t = (k as f64) / m * q;
                at_threshold |= s.off == 0;
                match s.off {
                    -1 => t.next_down().max(0.0),
                    1 => t.next_up().min(1.0),
                    _ => t,
                }
            }
            2 if i > 0 => p[s.a as usize % i],
            3 => raw * q,
            4 => f64::from(s.a & 1),
            _ => raw,
        };
        p.push(x);
    }
    let got = benjamini_hochberg(&p, q, family);
    ensure!(got.len() == len, "C20/bh/mask-length", "mask of length {} for {len} p-values", got.len());
    let (want, k, ambiguous) = bh_reference(&p, q, family);
    assert!(!ambiguous, "oracle: K smallest not determined by the threshold");
    ensure!(
        got == want,
        "C20/bh/mask-mismatch",
        "benjamini_hochberg rejected {:?} but the definition (largest k = {k} with p_(k) <= k/m*q) rejects {:?}; p = {p:?}, q = {q}, m = {family}",
        got,
        want
    );
    let mut sorted = p.clone();
    sorted.sort_by(|a, b| cmp(*a, *b));
    let has_tie = sorted.windows(2).any(|w| w[0] == w[1]);
    ctx.classify(if k == 0 {
        "rejects:none"
    } else if k == len {
        "rejects:all"
    } else {
        "rejects:some"
    });
    // step-up: some rank below K fails its own threshold
    if (1..k).any(|r| sorted[r - 1] > (r as f64) / m * q) {
        ctx.classify("step-up-rescues-a-rank");
    }
    if k >= 1 && sorted[k - 1] == (k as f64) / m * q {
        ctx.classify("cutoff-exactly-at-threshold");
    }
    if has_tie {
        ctx.classify("tied-p-values");
    }
    ctx.classify(if case.extra == 0 { "family=len" } else { "family>len" });
    if case.qn == case.qd {
        ctx.classify("q=1");
    }
    if len >= 2 && (has_tie || at_threshold) {
        ctx.nontrivial();
    }
    Ok(())
}

// ================================================================================================
// Student t

#[derive(Debug, Clone, Serialize, Deserialize)]
struct TCase {
    /// 0 finite num*10^exp, 1 NaN, 2 +inf, 3 -inf, 4 zero
    t_kind: u8,
    num: i32,
    exp: i8,
    /// 0 nu=1, 1 nu=2, 2 raw/65536 + 1, 3 below one, 4 NaN, 5 inf, 6 huge (1e9), 7 whole 3..=1000,
    /// 8 astronomically large finite 10^(10..=307) (intermediate log-gamma differences lose all
    /// digits there: the only promise left is the reportable range)
    df_kind: u8,
    df_raw: u32,
}

fn t_strategy() -> impl Strategy<Value = TCase> {
    (
        prop_oneof![12 => Just(0u8), 1 => Just(1u8), 1 => Just(2u8), 1 => Just(3u8), 1 => Just(4u8)],
        any::<i32>(),
        prop_oneof![4 => -10i8..=-6, 1 => -5i8..=20, 1 => 100i8..=120],
        prop_oneof![4 => Just(0u8), 4 => Just(1u8), 3 => Just(2u8), 1 => Just(3u8), 1 => Just(4u8), 1 => Just(5u8), 1 => Just(6u8), 3 => Just(7u8), 2 => Just(8u8)],
        any::<u32>(),
    )
        .prop_map(|(t_kind, num, exp, df_kind, df_raw)| TCase { t_kind, num, exp, df_kind, df_raw })
}

fn check_t(case: &TCase, ctx: &mut Ctx) -> Verdict {
    let t = match case.t_kind {
        0 => f64::from(case.num) * 10f64.powi(i32::from(case.exp)),
        1 => f64::NAN,
        2 => f64::INFINITY,
        3 => f64::NEG_INFINITY,
        _ => 0.0,
    };
    let df = match case.df_kind {
        0 => 1.0,
        1 => 2.0,
        2 => 1.0 + f64::from(case.df_raw) / 65536.0,
        3 => f64::from(case.df_raw) / 4_294_967_296.0 * 2.0 - 1.0, // [-1, 1)
        4 => f64::NAN,
        5 => f64::INFINITY,
        6 => 1e9,
        8 => 10f64.powi(10 + (case.df_raw % 298) as i32),
        _ => f64::from(3 + case.df_raw % 998),
    };
    let p = student_t_two_sided_p(t, df);
    ensure!(p_ok(p), "C20/student-t/p-range", "student_t_two_sided_p({t:e}, {df:e}) = {p:e} outside [1e-15,1]");
    let degenerate = !t.is_finite() || !df.is_finite() || df < 1.0;
    if degenerate {
        ctx.classify("degenerate-input");
        ensure!(p == 1.0, "C20/student-t/degenerate-not-one", "student_t_two_sided_p({t:e}, {df:e}) = {p:e} (documented: no evidence, 1.0)");
        ctx.nontrivial();
        return Ok(());
    }
    if df > 1e9 {
        ctx.classify("nu>1e9");
    }
    if t == 0.0 {
        ctx.classify("t=0");
        ensure!(p == 1.0, "C20/student-t/zero-not-one", "student_t_two_sided_p(0, {df}) = {p:e} (documented 1.0)");
    }
    let pn = student_t_two_sided_p(-t, df);
    ensure!(rel_close(p, pn, 1e-12), "C20/student-t/asymmetric", "p(t) = {p:e}, p(-t) = {pn:e} for t = {t:e}, nu = {df}");
    let p2 = student_t_two_sided_p(2.0 * t, df);
    ensure!(p_ok(p2), "C20/student-t/p-range", "student_t_two_sided_p({:e}, {df:e}) = {p2:e} outside [1e-15,1]", 2.0 * t);
    if df <= 1000.0 {
        ensure!(
            p2 <= p * (1.0 + 1e-9),
            "C20/student-t/not-monotone",
            "p(2t) = {p2:e} > p(t) = {p:e} for t = {t:e}, nu = {df}"
        );
    }
    let nu_int = if df == 1.0 {
        1
    } else if df == 2.0 {
        2
    } else {
        0
    };
    if let Some(c) = student_t_closed_form(t, nu_int) {
        let want = clamp_def(c);
        ctx.classify("closed-form");
        ensure!(
            rel_close(p, want, 1e-9),
            "C20/student-t/closed-form-mismatch",
            "student_t_two_sided_p({t:e}, {df}) = {p:e} but the closed form gives {want:e}"
        );
        if p != 1.0 {
            ctx.nontrivial();
        }
    }
    if p == P_MIN {
        ctx.classify("p:at-floor");
    } else if p < 1e-9 {
        ctx.classify("p:<1e-9");
    } else if p == 1.0 {
        ctx.classify("p:one");
    } else {
        ctx.classify("p:mid");
    }
    Ok(())
}

// ================================================================================================
// metamorphic relations

#[derive(Debug, Clone, Serialize, Deserialize)]
struct MetaCase {
    /// base values are k/8
    left: Vec<i64>,
    right: Vec<i64>,
    a_idx: u8,
    b_idx: u8,
}

const A_CHOICES: [f64; 8] = [0.5, 3.0, 1e-3, 7.25, 1e10, 1.0 / 3.0, 1e-200, 1e200];
const B_CHOICES: [f64; 6] = [0.0, 1.0, -1e6, 0.1, 1e12, -0.3];

fn meta_strategy() -> impl Strategy<Value = MetaCase> {
    let sizes = prop_oneof![
        5 => (1usize..=20, 1usize..=20),
        2 => (1usize..=4, 20usize..=60),
        3 => (29usize..=70, 29usize..=70),
    ];
    (sizes, prop_oneof![Just(3i64), Just(40i64), Just(100_000i64)], 0u8..8, 0u8..6, any::<bool>())
        .prop_flat_map(|((a, b), w, a_idx, b_idx, swap)| {
            let (n1, n2) = if swap { (b, a) } else { (a, b) };
            (prop::collection::vec(-w..=w, n1), prop::collection::vec(-w..=w, n2), Just(a_idx), Just(b_idx))
        })
        .prop_map(|(left, right, a_idx, b_idx)| MetaCase { left, right, a_idx, b_idx })
}

#[derive(PartialEq, Debug)]
struct RankOutputs {
    mw_p: u64,
    mw_sup: u64,
    mk_s: u64,
    mk_p: u64,
    pet: Option<(usize, u64, u64)>,
}

fn rank_outputs(left: &[f64], right: &[f64]) -> Option<RankOutputs> {
    let mw = MannWhitneyU::new(left, right)?;
    let mut series = left.to_vec();
    series.extend_from_slice(right);
    let mk = mann_kendall(&series);
    let pet = pettitt(&series).map(|c| (c.index, c.k_statistic.to_bits(), c.p_value.to_bits()));
    Some(RankOutputs {
        mw_p: mw.two_sided_p_value().to_bits(),
        mw_sup: mw.superiority().to_bits(),
        mk_s: mk.s.to_bits(),
        mk_p: mk.p_value.to_bits(),
        pet,
    })
}

fn check_meta(case: &MetaCase, ctx: &mut Ctx) -> Verdict {
    let n1 = case.left.len();
    let base: Vec<f64> = case.left.iter().chain(case.right.iter()).map(|&k| k as f64 / 8.0).collect();
    let Some(want) = rank_outputs(&base[..n1], &base[n1..]) else {
        fail!("C20/mw/none-for-nonempty", "MannWhitneyU::new returned None for non-empty samples");
    };
    let a = A_CHOICES[case.a_idx as usize];
    let b = B_CHOICES[case.b_idx as usize];
    // dense re-labelling of the distinct values by 0,1,2,...
    let mut distinct: Vec<i64> = case.left.iter().chain(case.right.iter()).copied().collect();
    distinct.sort_unstable();
    distinct.dedup();
    let transforms: [(&str, Vec<f64>); 3] = [
        ("affine", base.iter().map(|&x| a * x + b).collect()),
        ("cube", base.iter().map(|&x| x * x * x).collect()),
        (
            "dense-integers",
            case.left.iter().chain(case.right.iter()).map(|k| distinct.binary_search(k).expect("present") as f64).collect(),
        ),
    ];
    let mut verified = 0;
    for (name, y) in &transforms {
        // the relation is only claimed for maps that really are strictly increasing on this data in f64
        let ok = y.iter().all(|v| v.is_finite() && !(*v == 0.0 && v.is_sign_negative()))
            && (0..base.len()).all(|i| (0..base.len()).all(|j| cmp(base[i], base[j]) == cmp(y[i], y[j])));
        if !ok {
            ctx.classify(&format!("{name}:not-order-preserving-in-f64 (skipped)"));
            continue;
        }
        verified += 1;
        ctx.classify(&format!("{name}:verified"));
        let Some(got) = rank_outputs(&y[..n1], &y[n1..]) else {
            fail!("C20/mw/none-for-nonempty", "MannWhitneyU::new returned None for non-empty samples");
        };
        ensure!(got.mw_p == want.mw_p, format!("C20/meta/{name}/mw-p-changed"), "Mann-Whitney p {:e} -> {:e} under a strictly increasing map (a = {a:e}, b = {b:e})", f64::from_bits(want.mw_p), f64::from_bits(got.mw_p));
        ensure!(got.mw_sup == want.mw_sup, format!("C20/meta/{name}/superiority-changed"), "superiority {} -> {}", f64::from_bits(want.mw_sup), f64::from_bits(got.mw_sup));
        ensure!(got.mk_s == want.mk_s, format!("C20/meta/{name}/mk-s-changed"), "Mann-Kendall S {} -> {}", f64::from_bits(want.mk_s), f64::from_bits(got.mk_s));
        ensure!(got.mk_p == want.mk_p, format!("C20/meta/{name}/mk-p-changed"), "Mann-Kendall p {:e} -> {:e}", f64::from_bits(want.mk_p), f64::from_bits(got.mk_p));
        ensure!(got.pet == want.pet, format!("C20/meta/{name}/pettitt-changed"), "Pettitt (index, K, p) {:?} -> {:?}", want.pet, got.pet);
    }
    // swap + reversal on the base data (these are also asserted inside the other sections)
    let sw = rank_outputs(&base[n1..], &base[..n1]).expect("non-empty");
    let (p, pw) = (f64::from_bits(want.mw_p), f64::from_bits(sw.mw_p));
    ensure!(rel_close(p, pw, 1e-12), "C20/mw/swap/p-differs", "p(left,right) = {p:e}, p(right,left) = {pw:e}");
    let (s, s2) = (f64::from_bits(want.mw_sup), f64::from_bits(sw.mw_sup));
    ensure!(abs_close(s2, 1.0 - s, 1e-12), "C20/mw/swap/superiority", "superiority {s} vs swapped {s2}");
    let rev: Vec<f64> = base.iter().rev().copied().collect();
    let (m1, m2) = (mann_kendall(&base), mann_kendall(&rev));
    ensure!(m2.s == -m1.s, "C20/mk/reverse/s-not-negated", "S = {} but reversed series gives {}", m1.s, m2.s);

    let has_ties = distinct.len() < base.len();
    ctx.classify(if has_ties { "ties" } else { "no-ties" });
    ctx.classify(if exact_feasible(n1, base.len() - n1) { "path:exact" } else { "path:normal" });
    if has_ties && verified > 0 {
        ctx.nontrivial();
    }
    Ok(())
}

// ================================================================================================
// signed zeros

#[derive(Debug, Clone, Serialize, Deserialize)]
struct ZeroCase {
    /// integer values in -2..=2 (so zero is a frequent tie group)
    left: Vec<i64>,
    right: Vec<i64>,
    /// position i of left ++ right gets `-0.0` instead of `+0.0` when its value is zero and bit
    /// `i % 64` is set
    negative: u64,
}

fn zero_strategy() -> impl Strategy<Value = ZeroCase> {
    let sample = || {
        prop_oneof![
            4 => prop::collection::vec(-2i64..=2, 1..=8),
            2 => prop::collection::vec(-2i64..=2, 1..=30),
            1 => prop::collection::vec(-2i64..=2, 29..=60),
        ]
    };
    (sample(), sample(), 0i64..=2, any::<u64>()).prop_map(|(left, right, w, negative)| ZeroCase {
        left: left.into_iter().map(|k| k.clamp(-w, w)).collect(),
        right: right.into_iter().map(|k| k.clamp(-w, w)).collect(),
        negative,
    })
}

fn check_zero(case: &ZeroCase, ctx: &mut Ctx) -> Verdict {
    let n1 = case.left.len();
    let plain: Vec<f64> = case.left.iter().chain(case.right.iter()).map(|&k| k as f64).collect();
    let signed: Vec<f64> = plain
        .iter()
        .enumerate()
        .map(|(i, &x)| if x == 0.0 && case.negative >> (i % 64) & 1 == 1 { -0.0 } else { x })
        .collect();
    // numerically the two data sets are identical (IEEE: -0.0 == +0.0), so the definitions give
    // identical answers; the oracle itself compares with `partial_cmp` and cannot tell them apart
    assert!(plain.iter().zip(signed.iter()).all(|(a, b)| a == b));
    let (Some(want), Some(got)) = (rank_outputs(&plain[..n1], &plain[n1..]), rank_outputs(&signed[..n1], &signed[n1..])) else {
        fail!("C20/mw/none-for-nonempty", "MannWhitneyU::new returned None for non-empty samples");
    };
    let show = |v: &[f64]| format!("{v:?}");
    ensure!(
        got.mw_p == want.mw_p,
        "C20/signed-zero/mw-p-changed",
        "Mann-Whitney p {:e} with +0.0 but {:e} when some zeros are -0.0: left {} right {}",
        f64::from_bits(want.mw_p),
        f64::from_bits(got.mw_p),
        show(&signed[..n1]),
        show(&signed[n1..])
    );
    ensure!(
        got.mw_sup == want.mw_sup,
        "C20/signed-zero/superiority-changed",
        "superiority {} with +0.0 but {} when some zeros are -0.0: left {} right {}",
        f64::from_bits(want.mw_sup),
        f64::from_bits(got.mw_sup),
        show(&signed[..n1]),
        show(&signed[n1..])
    );
    ensure!(
        got.mk_s == want.mk_s && got.mk_p == want.mk_p,
        "C20/signed-zero/mk-changed",
        "Mann-Kendall (S, p) ({}, {:e}) with +0.0 but ({}, {:e}) when some zeros are -0.0: series {}",
        f64::from_bits(want.mk_s),
        f64::from_bits(want.mk_p),
        f64::from_bits(got.mk_s),
        f64::from_bits(got.mk_p),
        show(&signed)
    );
    ensure!(
        got.pet == want.pet,
        "C20/signed-zero/pettitt-changed",
        "Pettitt (index, K, p) {:?} with +0.0 but {:?} when some zeros are -0.0: series {}",
        want.pet,
        got.pet,
        show(&signed)
    );
    // and the full definition check on the signed data (the oracle orders by numeric value)
    check_two_sample(&signed[..n1], &signed[n1..], signed.len() <= 12, ctx)?;
    let neg = signed.iter().filter(|x| **x == 0.0 && x.is_sign_negative()).count();
    let pos = signed.iter().filter(|x| **x == 0.0 && x.is_sign_positive()).count();
    ctx.classify(match (neg > 0, pos > 0) {
        (true, true) => "both-zeros-present",
        (true, false) => "only-negative-zero",
        (false, true) => "only-positive-zero",
        (false, false) => "no-zero",
    });
    Ok(())
}

// ================================================================================================
// selection-adjusted change point

const SEL_BUDGETS: [usize; 6] = [1, 2, 24, 720, 5040, 100_000];
/// analytic weights in (0, 1); the last one makes the weighted analytic component 1.0 (no
/// information) for every p-value that can occur here, which isolates the permutation component
const SEL_WEIGHTS: [f64; 4] = [0.05, 0.5, 0.95, 1e-12];
/// analytic acceptance boundaries in (0, 1]
const SEL_ACCEPT: [f64; 5] = [f64::MIN_POSITIVE, 1e-6, 0.01, 0.5, 1.0];
/// rejection boundaries in (0, 1]; 0.5, 0.2, 0.1 are attained exactly by small exact tails (2/4,
/// 2/10, 2/20), which exercises the documented "at or above"
const SEL_REJECT: [f64; 8] = [1.0, 0.5, 0.05, 0.025, 1e-3, 1e-9, 0.2, 0.1];

#[derive(Debug, Clone, Serialize, Deserialize)]
struct SelCase {
    /// value map (see `val`, rank-only magnitudes): 1 = k/8 (the usual one)
    map: u8,
    levels: Vec<i64>,
    min_regime: usize,
    budget_idx: u8,
    weight_idx: u8,
    accept_idx: u8,
    reject_idx: u8,
    /// strictly increasing re-map x -> a*x+b for the metamorphic part
    a_idx: u8,
    b_idx: u8,
}

fn sel_strategy() -> impl Strategy<Value = SelCase> {
    let mr = prop_oneof![3 => Just(1usize), 3 => Just(2usize), 2 => Just(3usize), 1 => Just(4usize), 1 => Just(5usize), 1 => Just(6usize)];
    // `focus` = short, heavily tied series with a generous budget and lenient boundaries, so that
    // the complete orbit is enumerated (and can be brute-forced by the oracle) often
    let shape = (prop::bool::weighted(0.35), mr).prop_flat_map(|(focus, mr)| {
        let n = if focus {
            (0usize..=5).prop_map(move |d| (2 * mr + d).min(12)).boxed()
        } else {
            // n is drawn relative to min_regime for a third of the cases so that the single-split
            // (n = 2*min_regime) and barely-(in)admissible shapes are frequent
            prop_oneof![
                2 => 0usize..=12,
                3 => (0usize..=3).prop_map(move |d| 2 * mr + d),
                1 => (0usize..=2).prop_map(move |d| (2 * mr).saturating_sub(1 + d)),
                4 => 8usize..=40,
                1 => 41usize..=56,
                1 => 57usize..=120,
            ]
            .boxed()
        };
        let w = if focus {
            prop_oneof![3 => Just(1i64), 2 => Just(2i64), 1 => Just(5i64)].boxed()
        } else {
            prop_oneof![1 => Just(0i64), 3 => Just(1i64), 2 => Just(2i64), 2 => Just(5i64), 1 => Just(30i64), 1 => Just(1000i64)].boxed()
        };
        let budget = if focus {
            prop_oneof![1 => Just(3u8), 2 => Just(4u8), 3 => Just(5u8)].boxed()
        } else {
            prop_oneof![1 => Just(0u8), 1 => Just(1u8), 1 => Just(2u8), 2 => Just(3u8), 2 => Just(4u8), 3 => Just(5u8)].boxed()
        };
        let accept = if focus { (0u8..2).boxed() } else { (0u8..5).boxed() };
        let reject = if focus {
            prop_oneof![4 => Just(0u8), 1 => Just(1u8), 1 => Just(2u8), 1 => Just(6u8), 1 => Just(7u8)].boxed()
        } else {
            prop_oneof![4 => Just(0u8), 1 => Just(1u8), 1 => Just(2u8), 1 => Just(3u8), 1 => Just(4u8), 1 => Just(5u8), 1 => Just(6u8), 1 => Just(7u8)].boxed()
        };
        (Just(mr), n, w, (budget, 0u8..4, accept, reject))
    });
    let map = prop_oneof![8 => Just(1u8), 1 => Just(0u8), 1 => Just(2u8), 1 => Just(3u8), 1 => Just(4u8)];
    let trend = prop_oneof![3 => Just(0i64), 1 => -4i64..=4];
    (shape, map, trend, -3i64..=3, any::<u16>(), 0u8..8, 0u8..6)
        .prop_flat_map(|((mr, n, w, calib), map, trend, step, cp, a_idx, b_idx)| {
            (prop::collection::vec(-w..=w, n), Just((mr, map, w, trend, step, cp, calib, a_idx, b_idx)))
        })
        .prop_map(|(noise, (mr, map, w, trend, step, cp, calib, a_idx, b_idx))| {
            let n = noise.len() as i64;
            let scale = w.max(1);
            // change position anywhere in 0..=n (0 and n = no step inside the series)
            let cp = vcommon::pick_index(cp, noise.len() + 1) as i64;
            let levels = noise
                .iter()
                .enumerate()
                .map(|(i, &e)| {
                    let i = i as i64;
                    e + trend * i * scale / (4 * n.max(1)) + if i >= cp { step * scale } else { 0 }
                })
                .collect();
            SelCase {
                map,
                levels,
                min_regime: mr,
                budget_idx: calib.0,
                weight_idx: calib.1,
                accept_idx: calib.2,
                reject_idx: calib.3,
                a_idx,
                b_idx,
            }
        })
}

fn sel_calibration(case: &SelCase) -> SelectionCalibration {
    SelectionCalibration {
        permutation_order_budget: std::num::NonZero::new(SEL_BUDGETS[case.budget_idx as usize]).expect("budgets are nonzero"),
        analytic_weight: SEL_WEIGHTS[case.weight_idx as usize],
        accept_analytic_below: SEL_ACCEPT[case.accept_idx as usize],
        reject_at_or_above: SEL_REJECT[case.reject_idx as usize],
    }
}

/// Number of distinct orderings of the multiset, `n!/prod t_i!`, saturating at `u128::MAX`.
fn distinct_orderings(groups: &[u64]) -> u128 {
    let mut seen = 0u64;
    let mut m: u128 = 1;
    for &t in groups {
        seen += t;
        m = m.saturating_mul(binomial(seen, t));
    }
    m
}

/// In-place lexicographic successor; `false` after the last ordering. On a sorted multiset this
/// visits every distinct ordering exactly once.
fn next_ordering(v: &mut [u64]) -> bool {
    let n = v.len();
    if n < 2 {
        return false;
    }
    let mut i = n - 1;
    while i > 0 && v[i - 1] >= v[i] {
        i -= 1;
    }
    if i == 0 {
        return false;
    }
    let mut j = n - 1;
    while v[j] <= v[i - 1] {
        j -= 1;
    }
    v.swap(i - 1, j);
    v[i..].reverse();
    true
}

/// What the documentation of `selection_adjusted_change_point` defines for a series whose every
/// distinct ordering is enumerated, in integers: p-values are kept as exact rationals
/// `(numerator, denominator)` and compared by cross-multiplication.
struct OrbitRef {
    /// Pettitt first-maximum split of the observed ordering
    index: usize,
    /// exact two-sided Mann-Whitney p at that split
    p_obs: (u128, u128),
    /// orderings whose selected, admissible split scores `<= p_obs` (inadmissible = 1.0)
    extreme: u128,
    orderings: u128,
}

fn orbit_reference(values: &[f64], min_regime: usize) -> Option<OrbitRef> {
    let n = values.len();
    assert!((2..=20).contains(&n));
    let r2 = doubled_midranks(values);
    let total2: u64 = r2.iter().sum();
    let half = n / 2;
    let mut asc = r2.clone();
    asc.sort_unstable();
    // counts[k][s] = number of k-subsets of the rank multiset (as positions) with doubled rank sum s
    let width = total2 as usize + 1;
    let mut counts = vec![vec![0u128; width]; half + 1];
    counts[0][0] = 1;
    for &r in &asc {
        for k in (0..half).rev() {
            for s in 0..width - r as usize {
                let c = counts[k][s];
                if c != 0 {
                    counts[k + 1][s + r as usize] += c;
                }
            }
        }
    }
    // doubled minority tail, capped at 1, as a rational, for every attainable (size, sum)
    let tails: Vec<Vec<Option<(u128, u128)>>> = counts
        .iter()
        .enumerate()
        .map(|(k, row)| {
            let total: u128 = row.iter().sum();
            assert_eq!(total, binomial(n as u64, k as u64), "oracle: every subset counted once");
            let mut le = 0u128;
            row.iter()
                .map(|&c| {
                    le += c;
                    let ge = total - le + c;
                    (c > 0).then(|| ((2 * le.min(ge)).min(total), total))
                })
                .collect()
        })
        .collect();
    let tail = |k: usize, s: u64| -> (u128, u128) { tails[k][s as usize].expect("an observed sum is attainable") };
    // the selected split of one ordering and the p-value there (None = inadmissible)
    let score = |order: &[u64]| -> (usize, Option<(u128, u128)>) {
        let mut prefix = 0u64;
        let (mut best, mut best_t, mut best_prefix) = (-1i64, 1usize, 0u64);
        for t in 1..n {
            prefix += order[t - 1];
            let u = (prefix as i64 - (t as i64) * (n as i64 + 1)).abs();
            if u > best {
                best = u;
                best_t = t;
                best_prefix = prefix;
            }
        }
        if best_t.min(n - best_t) < min_regime {
            return (best_t, None);
        }
        let p = if best_t <= n - best_t { tail(best_t, best_prefix) } else { tail(n - best_t, total2 - best_prefix) };
        (best_t, Some(p))
    };
    let (index, Some(p_obs)) = score(&r2) else {
        return None;
    };
    let mut cur = asc;
    let (mut extreme, mut orderings) = (0u128, 0u128);
    loop {
        let (_, p) = score(&cur);
        let (a, b) = p.unwrap_or((1, 1));
        // a/b <= p_obs.0/p_obs.1
        if a * p_obs.1 <= p_obs.0 * b {
            extreme += 1;
        }
        orderings += 1;
        if !next_ordering(&mut cur) {
            break;
        }
    }
    Some(OrbitRef { index, p_obs, extreme, orderings })
}

fn sel_bits(r: Option<SelectionAdjustedChangePoint>) -> Option<(usize, u64, u64, u64)> {
    r.map(|r| (r.index, r.tainted_p.to_bits(), r.adjusted_p.to_bits(), r.superiority.to_bits()))
}

fn check_selection(case: &SelCase, ctx: &mut Ctx) -> Verdict {
    let v = to_values(case.map, &case.levels, true);
    assert_order_iso(&case.levels, &v);
    let n = v.len();
    let mr = case.min_regime;
    let cal = sel_calibration(case);
    let (w, accept, reject) = (cal.analytic_weight, cal.accept_analytic_below, cal.reject_at_or_above);
    let budget = cal.permutation_order_budget.get();
    assert!(mr >= 1 && w > 0.0 && w < 1.0 && accept > 0.0 && accept <= 1.0 && reject > 0.0 && reject <= 1.0, "generator: valid calibrations only");
    let show = || format!("series {v:?}, min_regime {mr}, {cal:?}");

    // (a) no panic for valid inputs
    let got = match vcommon::catch(|| selection_adjusted_change_point(&v, mr, cal)) {
        Ok(g) => g,
        Err(msg) => fail!("C20/selection/panic", "selection_adjusted_change_point panicked on valid input: {msg}; {}", show()),
    };

    ctx.classify(match n {
        0..=1 => "n<2",
        2..=12 => "n:2-12",
        13..=40 => "n:13-40",
        41..=56 => "n:41-56",
        _ => "n:57-120",
    });
    ctx.classify(&format!("map:{}", case.map));
    let groups = group_sizes(&v);
    let has_ties = groups.iter().any(|&t| t > 1);
    ctx.classify(if n == 0 {
        "ties:empty"
    } else if groups.len() == 1 {
        "ties:constant"
    } else if !has_ties {
        "ties:none"
    } else if groups.len() <= 3 {
        "ties:heavy(<=3 distinct values)"
    } else if 2 * groups.len() <= n {
        "ties:dense(distinct <= n/2)"
    } else {
        "ties:some"
    });

    // (b) documented: None iff Pettitt cannot locate a split or the located split does not leave
    // min_regime values on each side. `pettitt().index` and the result's `index` are both
    // documented as the index where the after regime begins.
    let located = pettitt(&v);
    let located_ref = pettitt_reference(&v);
    let want_some = located.is_some_and(|c| c.index >= mr && n - c.index >= mr);
    let Some(r) = got else {
        ensure!(
            !want_some,
            "C20/selection/none-for-reportable-split",
            "returned None but pettitt locates {located:?} which leaves >= {mr} values on each side; {}",
            show()
        );
        ctx.classify(if located.is_none() { "result:none(no split, n<2)" } else { "result:none(split leaves < min_regime)" });
        // the map invariance of None is covered below only for Some; None depends on ranks alone too
        return Ok(());
    };
    ctx.classify("result:some");
    let Some(located) = located else {
        fail!("C20/selection/some-without-split", "returned {r:?} but pettitt locates no split; {}", show());
    };
    ensure!(
        want_some,
        "C20/selection/some-for-unreportable-split",
        "returned {r:?} but the Pettitt split {} leaves fewer than {mr} values on a side (n = {n}); {}",
        located.index,
        show()
    );
    ensure!(
        r.index == located.index && Some(r.index) == located_ref.as_ref().map(|p| p.index),
        "C20/selection/index-mismatch",
        "index {} but pettitt() locates {} (direct sign summation: {:?}); {}",
        r.index,
        located.index,
        located_ref.map(|p| p.index),
        show()
    );
    ensure!(
        mr <= r.index && r.index <= n - mr,
        "C20/selection/index-out-of-range",
        "index {} outside [{mr}, {}]; {}",
        r.index,
        n - mr,
        show()
    );

    // (a) ranges
    ensure!(p_ok(r.tainted_p), "C20/selection/p-range", "tainted_p = {:e} outside [1e-15,1]; {}", r.tainted_p, show());
    ensure!(p_ok(r.adjusted_p), "C20/selection/p-range", "adjusted_p = {:e} outside [1e-15,1]; {}", r.adjusted_p, show());
    ensure!(
        r.superiority >= 0.0 && r.superiority <= 1.0,
        "C20/selection/superiority-range",
        "superiority = {} outside [0,1]; {}",
        r.superiority,
        show()
    );

    // (c) the selected split scored by the two-sample primitives (before = values[..index])
    let (before, after) = v.split_at(r.index);
    let mw_p = mann_whitney_u_pvalue(before, after);
    ensure!(
        rel_close(r.tainted_p, mw_p, 1e-12),
        "C20/selection/tainted-p-mismatch",
        "tainted_p = {:e} but mann_whitney_u_pvalue(before, after) = {mw_p:e} at index {}; {}",
        r.tainted_p,
        r.index,
        show()
    );
    let (after_gt2, _) = pair_counts(before, after);
    let sup_want = after_gt2 as f64 / (2.0 * before.len() as f64 * after.len() as f64);
    ensure!(
        abs_close(r.superiority, sup_want, 1e-12),
        "C20/selection/superiority-mismatch",
        "superiority = {} but P(after > before) + P(tie)/2 by pair counting = {sup_want} at index {}; {}",
        r.superiority,
        r.index,
        show()
    );

    // (d) documented clamp, and the rejection-boundary early exit
    ensure!(
        r.adjusted_p >= r.tainted_p,
        "C20/selection/adjusted-below-tainted",
        "adjusted_p = {:e} < tainted_p = {:e} (documented: clamped to be no smaller than the selected score); {}",
        r.adjusted_p,
        r.tainted_p,
        show()
    );
    ctx.classify(if r.adjusted_p == 1.0 {
        "adjusted:1.0"
    } else if r.adjusted_p == r.tainted_p {
        "adjusted:==tainted"
    } else {
        "adjusted:strictly-between"
    });

    // ---- which documented stage decides
    let all_sizes_exact = exact_feasible(n / 2, n - n / 2);
    let orderings = distinct_orderings(&groups);
    let full_orbit = orderings <= budget as u128;
    let splits = (n - 2 * mr + 1) as f64; // admissible split positions min_regime ..= n - min_regime
    let near = |a: f64, b: f64| rel_close(a, b, 1e-9);
    if r.tainted_p >= reject {
        ctx.classify("stage:tainted>=reject (no calibration)");
        if r.tainted_p == reject && reject < 1.0 {
            ctx.classify("stage:tainted==reject exactly (< 1)");
        }
        ensure!(
            r.adjusted_p == 1.0,
            "C20/selection/reject-exit/not-no-evidence",
            "tainted_p = {:e} >= reject_at_or_above = {reject:e} but adjusted_p = {:e} (expected the no-evidence value 1.0); {}",
            r.tainted_p,
            r.adjusted_p,
            show()
        );
    } else if n == 2 * mr && all_sizes_exact {
        // one admissible split: no selection took place among admissible splits
        ctx.classify("stage:single-admissible-split");
    } else if !all_sizes_exact {
        ctx.classify(if full_orbit { "stage:approximate-sizes,full-orbit-fits" } else { "stage:approximate-sizes,subgroup" });
    } else {
        // every admissible split is exact: the union bound is (#admissible splits) * tainted_p
        let wa_raw = splits * r.tainted_p / w;
        let wa = wa_raw.min(1.0);
        if near(wa_raw, accept) {
            ctx.classify("stage:analytic-at-acceptance-boundary (skipped)");
        } else if wa < accept {
            ctx.classify("stage:analytic-decisive");
            ensure!(
                rel_close(r.adjusted_p, wa.max(r.tainted_p), 1e-12),
                "C20/selection/analytic-certificate-mismatch",
                "adjusted_p = {:e}; the union bound over {splits} exact admissible splits is {splits} * {:e}, weighted by {w} = {wa:e} < accept_analytic_below = {accept:e}; {}",
                r.adjusted_p,
                r.tainted_p,
                show()
            );
        } else if !full_orbit {
            ctx.classify("stage:subgroup-orbit (orderings > budget)");
        } else if n > 20 {
            ctx.classify("stage:full-orbit (n > 20: no brute force)");
        } else {
            ctx.classify("stage:full-orbit (brute-forced)");
            let Some(o) = orbit_reference(&v, mr) else {
                fail!("C20/selection/some-for-unreportable-split", "reference finds the observed split inadmissible; {}", show());
            };
            assert_eq!(o.orderings, orderings, "oracle: enumeration visits every distinct ordering once");
            assert_eq!(o.index, r.index, "oracle: rank-form Pettitt location");
            let p_obs = o.p_obs.0 as f64 / o.p_obs.1 as f64;
            ensure!(
                rel_close(r.tainted_p, p_obs, 1e-12),
                "C20/selection/tainted-p-mismatch",
                "tainted_p = {:e} but the exact doubled tail is {}/{}; {}",
                r.tainted_p,
                o.p_obs.0,
                o.p_obs.1,
                show()
            );
            let wp = o.extreme as f64 / o.orderings as f64 / (1.0 - w);
            let full_raw = wa_raw.min(wp).max(p_obs);
            let full = full_raw.min(1.0);
            if near(full_raw, reject) {
                ctx.classify("stage:full-orbit result at rejection boundary (skipped)");
            } else if full < reject {
                ctx.classify(if wp < wa { "combined:permutation-component" } else { "combined:analytic-component" });
                ensure!(
                    rel_close(r.adjusted_p, full, 1e-12),
                    "C20/selection/full-orbit-mismatch",
                    "adjusted_p = {:e} but {} of {} distinct orderings score <= the observed {}/{} (inadmissible = 1.0), permutation component {wp:e}, analytic component {wa:e}, weighted Bonferroni clamped at tainted_p = {full:e}; {}",
                    r.adjusted_p,
                    o.extreme,
                    o.orderings,
                    o.p_obs.0,
                    o.p_obs.1,
                    show()
                );
            } else {
                ctx.classify("combined:>=reject");
                ensure!(
                    r.adjusted_p >= reject,
                    "C20/selection/full-orbit-below-reject",
                    "adjusted_p = {:e} < reject_at_or_above = {reject:e} but the complete combination is {full:e} ({} of {} orderings, analytic {wa:e}); {}",
                    r.adjusted_p,
                    o.extreme,
                    o.orderings,
                    show()
                );
            }
        }
    }

    // (e) rank based: bit-identical under strictly increasing maps (verified in f64 first)
    let want = sel_bits(Some(r));
    let a = A_CHOICES[case.a_idx as usize];
    let b = B_CHOICES[case.b_idx as usize];
    let mut distinct: Vec<i64> = case.levels.clone();
    distinct.sort_unstable();
    distinct.dedup();
    let transforms: [(&str, Vec<f64>); 3] = [
        ("affine", v.iter().map(|&x| a * x + b).collect()),
        ("cube", v.iter().map(|&x| x * x * x).collect()),
        ("dense-integers", case.levels.iter().map(|k| distinct.binary_search(k).expect("present") as f64).collect()),
    ];
    let mut verified = 0;
    for (name, y) in &transforms {
        let ok = y.iter().all(|x| x.is_finite() && !(*x == 0.0 && x.is_sign_negative()))
            && (0..n).all(|i| (0..n).all(|j| cmp(v[i], v[j]) == cmp(y[i], y[j])));
        if !ok {
            ctx.classify(&format!("{name}:not-order-preserving-in-f64 (skipped)"));
            continue;
        }
        verified += 1;
        ctx.classify(&format!("{name}:verified"));
        let got_y = match vcommon::catch(|| selection_adjusted_change_point(y, mr, cal)) {
            Ok(g) => sel_bits(g),
            Err(msg) => fail!("C20/selection/panic", "panicked on the re-mapped series {y:?}: {msg}; {}", show()),
        };
        ensure!(
            got_y == want,
            format!("C20/selection/meta/{name}/changed"),
            "(index, tainted_p, adjusted_p, superiority) {:?} -> {:?} under a strictly increasing map (a = {a:e}, b = {b:e}); {}",
            Some(r),
            got_y.map(|t| (t.0, f64::from_bits(t.1), f64::from_bits(t.2), f64::from_bits(t.3))),
            show()
        );
    }

    assert!(verified > 0, "the dense re-labelling is always order preserving");
    if has_ties && n >= 2 * mr {
        ctx.nontrivial();
    }
    Ok(())
}

// ================================================================================================
// mean and sample standard deviation

const STD_A: [f64; 8] = [0.5, 3.0, -2.0, 7.25, 1e-3, -1.0 / 3.0, 1e6, -1.0];
const STD_B: [f64; 6] = [0.0, 1.0, -1e6, 0.1, 1e12, -0.3];

#[derive(Debug, Clone, Serialize, Deserialize)]
struct StdCase {
    /// x_i = (offset + ks[i]) * 2^exp: an integer times a power of two, exact in f64
    ks: Vec<i64>,
    offset: i64,
    exp: i32,
    a_idx: u8,
    b_idx: u8,
}

fn std_strategy() -> impl Strategy<Value = StdCase> {
    let n = prop_oneof![2 => 0usize..=3, 5 => 2usize..=40, 2 => 41usize..=300, 1 => 301usize..=1000];
    let w = prop_oneof![1 => Just(0i64), 2 => Just(1i64), 2 => Just(5i64), 2 => Just(1000i64), 2 => Just(1_000_000_000i64), 1 => Just(1i64 << 39)];
    // 0; a billion in units of 1/1024; 2^40: the scatter is up to 12 orders below the level
    let offset = prop_oneof![5 => Just(0i64), 1 => Just(1_000_000_000i64 * 1024), 1 => Just(1i64 << 40), 1 => Just(-(1i64 << 40)), 1 => -1000i64..=1000];
    let exp = prop_oneof![5 => Just(-3i32), 1 => Just(0i32), 2 => Just(-10i32), 1 => Just(300i32), 1 => Just(-300i32)];
    (n, w, offset, exp, 0u8..8, 0u8..6)
        .prop_flat_map(|(n, w, offset, exp, a_idx, b_idx)| (prop::collection::vec(-w..=w, n), Just((offset, exp, a_idx, b_idx))))
        .prop_map(|(ks, (offset, exp, a_idx, b_idx))| StdCase { ks, offset, exp, a_idx, b_idx })
}

/// Forward error bound of the documented algorithm (mean by recursive summation, deviations formed
/// against that mean, squared, summed, divided by n-1, square root) with unit roundoff 2^-53, all
/// first-order constants doubled (`f64::EPSILON` = 2 * 2^-53):
///
/// * mean: `|err| <= EPSILON * sum|x_i|` (recursive summation `(n-1)u sum|x|`, one division);
/// * std: a mean error `d` turns `SS = sum (x_i - m)^2` into `SS + n d^2`; every other operation is
///   a relative perturbation, `(n+3)u` on the variance in total, half of that on the root, plus the
///   root's own rounding. So `|err| <= std * (n + 6) * EPSILON + sqrt((SS + n D^2)/(n-1)) -
///   sqrt(SS/(n-1))` with `D` the mean bound. `ss_lower` is a lower bound of the true `SS`.
fn std_tolerance(n: usize, std_exact: f64, ss_lower: f64, sum_abs: f64) -> f64 {
    let nf = n as f64;
    let d = f64::EPSILON * sum_abs;
    let shift = nf * d * d / (nf - 1.0);
    let base = ss_lower.max(0.0) / (nf - 1.0);
    // sqrt(base + shift) - sqrt(base) without cancellation
    let bracket = if shift == 0.0 { 0.0 } else { shift / ((base + shift).sqrt() + base.sqrt()) };
    std_exact * (nf + 6.0) * f64::EPSILON + bracket * (1.0 + 8.0 * f64::EPSILON)
}

fn check_std(case: &StdCase, ctx: &mut Ctx) -> Verdict {
    let n = case.ks.len();
    let scale = 2.0f64.powi(case.exp);
    assert!(scale == f64::from_bits(((1023 + i64::from(case.exp)) as u64) << 52), "2^exp is exact");
    let ints: Vec<i128> = case.ks.iter().map(|&k| i128::from(case.offset) + i128::from(k)).collect();
    let x: Vec<f64> = ints.iter().map(|&k| k as f64 * scale).collect();
    for (&k, &xi) in ints.iter().zip(x.iter()) {
        assert!(k.unsigned_abs() < 1 << 53 && xi.is_finite() && (xi / scale) as i128 == k, "x_i = K * 2^exp exactly");
    }
    let got_mean = mean(&x);
    let got_sd = sample_std_dev(&x);
    ctx.classify(match n {
        0 => "n=0",
        1 => "n=1",
        2..=40 => "n:2-40",
        41..=300 => "n:41-300",
        _ => "n>300",
    });
    ctx.classify(&format!("scale:2^{}", case.exp));
    // ---- documented degenerate answers
    if n == 0 {
        ensure!(got_mean.is_none(), "C20/mean/empty-not-none", "mean(&[]) = {got_mean:?} (documented None)");
    }
    if n < 2 {
        ensure!(got_sd.is_none(), "C20/std-dev/short-not-none", "sample_std_dev of {n} point(s) = {got_sd:?} (documented None for fewer than two points)");
        if n == 0 {
            return Ok(());
        }
    }
    // ---- exact rational definitions: mean = S1/n, SS = S2 - S1^2/n = (n S2 - S1^2)/n
    let s1: i128 = ints.iter().sum();
    let s2: i128 = ints.iter().map(|k| k * k).sum();
    let nn = n as i128;
    let sum_abs_int: i128 = ints.iter().map(|k| k.abs()).sum();
    let sum_abs = sum_abs_int as f64 * scale;
    let mean_exact = s1 as f64 / n as f64 * scale; // two correctly rounded operations, exact scaling
    let Some(m) = got_mean else {
        fail!("C20/mean/none-for-nonempty", "mean of {n} values is None; values {x:?}");
    };
    let mean_tol = f64::EPSILON * sum_abs;
    ensure!(
        (m - mean_exact).abs() <= mean_tol + 4.0 * f64::EPSILON * mean_exact.abs(),
        "C20/mean/mismatch",
        "mean = {m:e} but S1/n in integers = {mean_exact:e} (|diff| {:e} > EPSILON*sum|x| = {mean_tol:e}); values {x:?}",
        (m - mean_exact).abs()
    );
    if n < 2 {
        return Ok(());
    }
    let Some(sd) = got_sd else {
        fail!("C20/std-dev/none-for-two-or-more", "sample_std_dev of {n} values is None; values {x:?}");
    };
    ensure!(sd >= 0.0 && sd.is_finite(), "C20/std-dev/not-finite-nonnegative", "sample_std_dev = {sd:e}; values {x:?}");
    let num = nn * s2 - s1 * s1; // n * SS in integer units, >= 0 by Cauchy-Schwarz
    assert!(num >= 0);
    let var_exact = num as f64 / (nn * (nn - 1)) as f64;
    let sd_exact = var_exact.sqrt() * scale;
    let ss_exact = num as f64 / n as f64 * scale * scale;
    let tol = std_tolerance(n, sd_exact, ss_exact * (1.0 - 8.0 * f64::EPSILON), sum_abs) + 8.0 * f64::EPSILON * sd_exact;
    ensure!(
        (sd - sd_exact).abs() <= tol,
        "C20/std-dev/mismatch",
        "sample_std_dev = {sd:e} but sqrt((n S2 - S1^2)/(n(n-1))) in integers = {sd_exact:e} (|diff| {:e} > tolerance {tol:e}, n = {n}); values {x:?}",
        (sd - sd_exact).abs()
    );
    let constant = num == 0;
    if constant {
        // every partial sum j*K*2^exp may round; when none does the documented 0.0 is exact
        ctx.classify(if sd == 0.0 { "constant:exactly-0.0" } else { "constant:nonzero-within-tolerance" });
    } else {
        let rel = (sd - sd_exact).abs() / sd_exact;
        ctx.classify(if rel <= 4.0 * f64::EPSILON {
            "std-error:<=4eps"
        } else if rel <= 1e-12 {
            "std-error:<=1e-12"
        } else {
            "std-error:>1e-12 (ill-conditioned, within bound)"
        });
        let cond = sum_abs / n as f64 / sd_exact;
        ctx.classify(if cond > 1e9 {
            "level/scatter:>1e9"
        } else if cond > 1e3 {
            "level/scatter:1e3..1e9"
        } else {
            "level/scatter:<=1e3"
        });
    }

    // ---- affine map y = a*x + b evaluated in f64: |y_i - (a x_i + b)| <= 2u(|a x_i| + |b|)
    let a = STD_A[case.a_idx as usize];
    let b = STD_B[case.b_idx as usize];
    let y: Vec<f64> = x.iter().map(|&xi| a * xi + b).collect();
    if y.iter().all(|v| v.is_finite()) && (a * a * ss_exact).is_finite() {
        let max_e = x.iter().map(|&xi| f64::EPSILON * (1.0 + 4.0 * f64::EPSILON) * ((a * xi).abs() + b.abs())).fold(0.0f64, f64::max);
        let sum_abs_y: f64 = y.iter().map(|v| v.abs()).sum::<f64>() * (1.0 + n as f64 * f64::EPSILON);
        let (Some(my), Some(sy)) = (mean(&y), sample_std_dev(&y)) else {
            fail!("C20/std-dev/none-for-two-or-more", "mean/sample_std_dev of the mapped values is None");
        };
        let my_want = a * mean_exact + b;
        let my_tol = f64::EPSILON * sum_abs_y + max_e + 4.0 * f64::EPSILON * ((a * mean_exact).abs() + b.abs());
        ensure!(
            (my - my_want).abs() <= my_tol,
            "C20/mean/affine-mismatch",
            "mean(a*x+b) = {my:e} but a*mean(x)+b = {my_want:e} (a = {a:e}, b = {b:e}, |diff| {:e} > {my_tol:e}); x = {x:?}",
            (my - my_want).abs()
        );
        let sy_want = a.abs() * sd_exact;
        // the rounding of the data moves the root-mean-square scatter by at most sqrt(n/(n-1)) * max_e
        let data = (n as f64 / (n as f64 - 1.0)).sqrt() * max_e;
        let ss_y = a * a * ss_exact;
        let ss_y_lower = {
            let r = ss_y.sqrt() * (1.0 - 8.0 * f64::EPSILON) - (n as f64).sqrt() * max_e;
            if r > 0.0 { r * r } else { 0.0 }
        };
        let sy_tol = std_tolerance(n, sy_want + data, ss_y_lower, sum_abs_y) + data * (1.0 + 8.0 * f64::EPSILON) + 8.0 * f64::EPSILON * sy_want;
        ensure!(
            (sy - sy_want).abs() <= sy_tol,
            "C20/std-dev/affine-mismatch",
            "sample_std_dev(a*x+b) = {sy:e} but |a|*std(x) = {sy_want:e} (a = {a:e}, b = {b:e}, |diff| {:e} > {sy_tol:e}); x = {x:?}",
            (sy - sy_want).abs()
        );
        ctx.classify(if sy_tol <= 1e-9 * sy_want { "affine:tight(<=1e-9 rel)" } else { "affine:data-rounding-dominates" });
        if !constant {
            ctx.nontrivial();
        }
    } else {
        ctx.classify("affine:overflow (skipped)");
    }
    Ok(())
}

// ================================================================================================

fn main() {
    let mut h = Harness::from_args("C20");
    if let Err(e) = self_test() {
        eprintln!("C20 oracle self-test failed: {e}");
        std::process::exit(2);
    }
    let thorough = h.is_thorough();

    h.enumerate(
        "mw_exhaustive",
        "EXHAUSTIVE: every sequence of tie groups (ascending) with every left/right split of each group, n1+n2 <= 10 (incl. an empty side = documented None/1.0), each under 3 strictly increasing value maps and 3 input orders. Oracle: brute force over all C(n,n1) relabelings with integer doubled mid-rank sums, p = clamp(min(1, 2*min(P(S<=obs),P(S>=obs)))) (rel. tol 1e-12: same integers, one division); superiority = pair count/(n1*n2) (abs tol 1e-12); swap symmetry. Non-trivial = both samples non-empty and >= 1 tie group.",
        all_mw_small(10),
        check_mw_small,
    );

    h.enumerate(
        "series_exhaustive",
        "EXHAUSTIVE: every weak ordering of n <= 7 positions (n = 0..2 = documented degenerate answers), each under 3 strictly increasing value maps. Oracle: S = sum of signs (exact), p from the textbook tie-corrected variance + continuity-corrected Z with an independent erfc (rel tol 1e-9: crate documents 1e-12 for its normal tail); Pettitt K and first arg-max by direct sign summation (exact; oracle asserts it equals the rank form), p = clamp(2exp(-6K^2/(n^3+n^2))) (rel 1e-12); every mid-rank via one-vs-rest superiority (abs 1e-12); median by sort, Theil-Sen slope = median of all pairwise slopes, intercept = median of x_i - slope*i (rel 1e-12: identical operations); reversal negates S. Non-trivial = n >= 3, >= 1 tie group, >= 2 distinct values.",
        all_weak_orders(7),
        check_weak_order,
    );

    let tbl = boundary_table();
    h.note("exact_boundary_nmax_by_smaller_side", serde_json::json!(tbl));
    let big = if thorough { 1500 } else { 600 };
    let cases = h.cases(16_000, 400_000);
    h.section(
        "mw_random",
        "generated (n1,n2) in classes {small, <=28x40, balanced 25..33 around the 28/29 switch, lopsided within +-2 of the C(n,k)<2^53 boundary for k=6..28, k<=5 vs up to 600(1500 thorough), 29..300 and up to 600(1500) per side}, levels uniform in [-w,w] for w in {0,1,2,5,30,1000,1e9}, right sample shifted by {0, +-w/2, +-(2w+1) = fully separated}, 5 value maps up to magnitude 4e299. Oracle: superiority by O(n1*n2) pair counting (abs 1e-12); p = exact doubled tail by an independent u64 subset-sum count when C(n,min) < 2^53 (rel 1e-12) else textbook tie+continuity-corrected normal p from exact-integer variance and an independent erfc (rel 1e-9); every p in [1e-15,1]; all-tied -> 1.0; swap symmetry. Non-trivial = both samples non-empty and >= 1 tie group.",
        cases,
        mw_case_strategy(tbl, big),
        check_mw_case,
    );

    let max_n = if thorough { 2000 } else { 400 };
    let cases = h.cases(8_000, 150_000);
    h.section(
        "series_random",
        "generated series n in {0..12, 3..60, 61..250, 251..400 (2000 thorough)} = noise in [-w,w] + linear trend + optional step, w in {0,1,2,5,30,1000,1e9}, 5 value maps up to magnitude 4e149; same oracles and tolerances as series_exhaustive (mid-rank check only for n <= 12). Non-trivial = n >= 3, >= 1 tie group, >= 2 distinct values.",
        cases,
        series_strategy(max_n),
        check_series_case,
    );

    let cases = h.cases(120_000, 4_000_000);
    h.section(
        "bh_random",
        "generated p-value lists (len 0..120) mixing uniform values, values exactly at a rank threshold (k/m)*q and one ulp either side, copies of earlier values (ties), values scaled into [0,q), exact 0/1; family = len + {0, 1..5, 6..2000}; q = qn/qd in (0,1] incl. 1; 3% family = len-1 (documented panic asserted). Oracle: O(m^2) definition without sorting (largest k with #{p <= (k/m)q} >= k; reject p <= (K/m)q), mask equality exact. Non-trivial = len >= 2 with a tie or a value exactly at a threshold.",
        cases,
        bh_strategy(),
        check_bh,
    );

    let cases = h.cases(60_000, 2_000_000);
    h.section(
        "student_t",
        "generated (t, nu): t = i32 * 10^e incl. 0, NaN, +-inf, |t| up to 1e129; nu in {1, 2, 1..65537 real, whole 3..1000, <1, NaN, inf, 1e9, 1e10..1e307}. Asserted: p in [1e-15,1] never NaN; non-finite t or nu, or nu < 1 -> exactly 1.0; t = 0 -> 1.0; symmetric in sign (rel 1e-12); p(2t) <= p(t) for nu <= 1000; nu = 1: (2/pi)atan(1/|t|), nu = 2: 2/(s(s+|t|)), s = sqrt(2+t^2), clamped (rel 1e-9; crate documents 1e-10). Non-trivial = degenerate input, or closed-form case with p < 1.",
        cases,
        t_strategy(),
        check_t,
    );

    let cases = h.cases(12_000, 400_000);
    h.section(
        "metamorphic",
        "generated two samples (values k/8; sizes 1..20 each, 1..4 vs 20..60, 29..70 each = normal path) and a map x -> a*x+b (a in {0.5,3,1e-3,7.25,1e10,1/3,1e-200,1e200}, b in {0,1,-1e6,0.1,1e12,-0.3}), x -> x^3, and dense re-labelling by 0,1,2,...; each map is first verified to preserve every pairwise comparison in f64 (else skipped and counted). Asserted bit-for-bit (outputs are functions of the comparison pattern only): Mann-Whitney p and superiority, Mann-Kendall S and p, Pettitt index/K/p on left++right; plus swap symmetry (p rel 1e-12, superiority -> 1-superiority abs 1e-12) and reversal negating S. Non-trivial = >= 1 tie group, both samples non-empty, >= 1 verified map.",
        cases,
        meta_strategy(),
        check_meta,
    );

    let cases = h.cases(20_000, 600_000);
    h.section(
        "signed_zero",
        "generated two samples of integers in [-w,w], w in {0,1,2} (sizes 1..8, 1..30, 29..60 per side), with a random subset of the zeros written as -0.0. -0.0 and +0.0 are the same real number, so they tie: Mann-Whitney p and superiority, Mann-Kendall S and p, Pettitt index/K/p must be bit-identical to the all-+0.0 data, and the full two-sample definition oracle (numeric comparison) is applied to the signed data. Non-trivial = both samples non-empty and >= 1 tie group (class `both-zeros-present` counts the cases whose zero group mixes the two signs).",
        cases,
        zero_strategy(),
        check_zero,
    );


    let cases = h.cases(10_000, 250_000);
    h.section(
        "selection",
        "generated series (n in {0..12, 2*min_regime + 0..3, 2*min_regime - 1..3, 8..40, 41..56, 57..120}; levels = noise in [-w,w], w in {0,1,2,5,30,1000} (w <= 2 = heavy ties, w = 0 constant) + optional linear trend + step of -3..3 widths at a generated position 0..n; values k/8 in 2/3 of the cases, else integers, k*1e-300, k*1e290, 1e9+k/1024) x min_regime 1..6 x VALID calibrations only (permutation_order_budget in {1,2,24,720,5040,100000}, analytic_weight in {0.05,0.5,0.95,1e-12}, accept_analytic_below in {f64::MIN_POSITIVE,1e-6,0.01,0.5,1}, reject_at_or_above in {1,0.5,0.2,0.1,0.05,0.025,1e-3,1e-9}; 0.5, 0.2, 0.1 are attained exactly by small exact tails) for selection_adjusted_change_point. Asserted: no panic; None iff pettitt() is None or its split leaves < min_regime values on a side; index == pettitt().index (= first index of the after regime, also checked by direct sign summation) and min_regime <= index <= n - min_regime; tainted_p, adjusted_p in [1e-15,1], superiority in [0,1]; tainted_p == mann_whitney_u_pvalue(values[..index], values[index..]) (rel 1e-12); superiority == P(after > before) + P(tie)/2 by O(n1*n2) pair counting (abs 1e-12); adjusted_p >= tainted_p (documented clamp); tainted_p >= reject_at_or_above -> adjusted_p == 1.0; when every admissible split size is exact (n <= 56): the union bound is (#admissible splits) * tainted_p, and if that / analytic_weight (capped at 1) < accept_analytic_below it is the result (rel 1e-12); when moreover the number of distinct orderings n!/prod t_i! fits the budget and n <= 20: brute force over EVERY distinct ordering (same values and ties; Pettitt first maximum; inadmissible split = 1.0 and stays in the denominator; exact Mann-Whitney tails as integer rationals compared by cross-multiplication; ties count as extreme) gives the permutation component count/orderings/(1 - analytic_weight), and adjusted_p == max(tainted_p, min(1, analytic, permutation)) (rel 1e-12) when that is < reject_at_or_above, else adjusted_p >= reject_at_or_above (results within rel 1e-9 of a boundary are skipped and counted); finally the whole result is bit-identical under x -> a*x+b (a > 0), x -> x^3 and dense re-labelling, each first verified to preserve every comparison in f64. Non-trivial = Some(..) result for a series with >= 1 tie group and n >= 2*min_regime.",
        cases,
        sel_strategy(),
        check_selection,
    );

    let cases = h.cases(60_000, 2_000_000);
    h.section(
        "std_dev",
        "generated samples x_i = (offset + k_i) * 2^e, exact in f64 (n in {0..3, 2..40, 41..300, 301..1000}; k uniform in [-w,w], w in {0,1,5,1000,1e9,2^39}; offset in {0, 1e9*1024, +-2^40, -1000..1000} = scatter up to 12 orders below the level; e in {-3 (values k/8), 0, -10, 300, -300}). Documented degenerate answers: mean(&[]) = None, sample_std_dev of fewer than two points = None. Oracle: mean = S1/n and sample standard deviation = sqrt((n*S2 - S1^2)/(n(n-1))) (Bessel corrected) with S1, S2 exact i128 sums. Tolerance = forward error bound of the documented two-pass algorithm with every first-order constant doubled (eps = 2^-52): |mean err| <= eps*sum|x_i|; |std err| <= std*(n+14)*eps + sqrt((SS + n*D^2)/(n-1)) - sqrt(SS/(n-1)), D = eps*sum|x_i|, SS the exact sum of squared deviations (i.e. relative (n+14)*eps unless the scatter is below ~1e-8 of the level; classes report the observed error). Metamorphic: y = a*x+b in f64 (a in {0.5,3,-2,7.25,1e-3,-1/3,1e6,-1}, b in {0,1,-1e6,0.1,1e12,-0.3}): mean(y) = a*mean(x)+b and std(y) = |a|*std(x) within the same bound for y plus the rounding of the data themselves (each y_i is off by <= eps*(|a*x_i|+|b|), which moves the mean by at most that and the std by at most sqrt(n/(n-1)) times that). Non-trivial = n >= 2, >= 2 distinct values, mapped data finite.",
        cases,
        std_strategy(),
        check_std,
    );

    h.finish()
}
