//! C13 — region values: own writes visible, ordered, and never persistently stale.
//!
//! Generator: fake hardware (1..8 memory regions, sparse region ids, 1..2 processors each) x 2..8
//! real threads (pinned before acquiring their linked instance = fast path; pinned after acquiring
//! and migrating between regions = per-call region lookup; never pinned) x a totally ordered list
//! of steps (`with_*`, `get_*`, `set_*`, move) x a list of *gates*.
//!
//! Schedule ownership: exactly one thread acts at a time, driven by channels. `Tagged::clone`
//! (region_cached clones the latest value into the regional copy) and the region_local initialiser
//! `fn` call back into the harness from inside the library; when the case holds a gate for
//! "reader r, k-th callback" the reader is parked there and the gate's actions (complete
//! operations of other threads, possibly hitting nested gates) run inside the window between the
//! initialiser's load of the latest value and its store of the regional copy. Nothing depends on
//! timing; the only clock is a hang watchdog. A read that would wait for a parked initialiser
//! (and so dead-lock the harness) is skipped, using a small model of the initialising markers.
//! An unpinned thread on multi-region hardware reads a random region (rand inside the fake
//! platform); every region is initialised first so that the case stays a function of its input.
//!
//! Processes: the proptest runner and the oracle live in the parent; cases execute in an executor
//! child (`--worker exec`, vcommon::worker) on a recycled pool of 9 threads. A dead- or live-locked
//! case is reported as `hang` and the child is killed, so nothing of a failed case lingers.
//!
//! Oracle (statement of C13): per reader, one writer's values are seen in non-decreasing seq; a
//! pinned thread that writes then reads sees its own write unless the log has another write in
//! between; after everything returned (quiescence): region_cached — every region returns the LAST
//! write; region_local — every region returns the last write made *in that region*, regions without
//! writes the initial value.

use std::cell::RefCell;
use std::collections::BTreeMap;
use std::ops::Deref;
use std::sync::Arc;
use std::sync::atomic::{AtomicBool, AtomicI64, Ordering};
use std::sync::mpsc::{self, Receiver, RecvTimeoutError, Sender};
use std::thread::JoinHandle;
use std::time::{Duration, Instant};

use linked::{Family, InstancePerThread, InstancePerThreadSync, Ref, RefSync};
use many_cpus::SystemHardware;
use many_cpus::fake::{HardwareBuilder, ProcessorBuilder};
use proptest::prelude::*;
use region_cached::RegionCached;
use region_local::RegionLocal;
use serde::{Deserialize, Serialize};
use vcommon::worker::{Reply, Worker};
use vcommon::{Ctx, Failure, Harness, Verdict, pick_index};

// ---------------------------------------------------------------------------------------------
// the value type and the callback from inside the library
// ---------------------------------------------------------------------------------------------

#[derive(Copy, PartialEq, Eq, Debug, Serialize, Deserialize)]
struct Tagged {
    writer: u8,
    seq: u32,
}

const INIT: Tagged = Tagged { writer: 255, seq: 0 };

#[expect(clippy::expl_impl_clone_on_copy, reason = "the clone IS the harness gate")]
impl Clone for Tagged {
    fn clone(&self) -> Self {
        callback(SITE_USER, Some(*self));
        *self
    }
}

fn local_initialiser() -> Tagged {
    callback(SITE_USER, None);
    INIT
}

/// Places inside the library where a thread can be parked.
/// 0: user code inside `RegionalState::initialize` (region_cached: `Tagged::clone`, region_local:
///    the initialiser fn) - the initialising marker is in the slot;
/// 1..5: `cfg(folo_verif)` yield points in windows without user code.
const SITE_USER: u8 = 0;
/// region_cached `set_global/generation-taken` (generation fetched, value not yet published);
/// region_local `set_local/region-resolved` (region chosen, value not yet stored)
const SITE_WRITE_BEGUN: u8 = 1;
/// region_cached `set_global/published` (latest value stored, regions not yet invalidated)
const SITE_PUBLISHED: u8 = 2;
/// region_local `initialize/uninitialized-seen` (empty slot seen, marker not yet placed);
/// region_cached has no such point any more (it announces the initialisation before it loads the
/// latest value): gates with this site fire at `SITE_ANNOUNCED` there
const SITE_INIT_BEGUN: u8 = 3;
/// region_cached `initialize/cloned`, region_local `initialize/initialized`
/// (value produced, not yet installed; the marker is in the slot unless a write removed it)
const SITE_PRODUCED: u8 = 4;
/// region_cached `with_in_region/initialized` (regional copy installed, latest generation not yet re-checked)
const SITE_INSTALLED: u8 = 5;
/// region_cached `initialize/announced` (marker placed, latest value not yet loaded)
const SITE_ANNOUNCED: u8 = 6;
/// region_cached `initialize/latest-loaded` (marker placed, latest value loaded, not yet cloned)
const SITE_LOADED: u8 = 7;
/// any ArcSwap / atomic operation of either crate (`sync`, reported just before the operation):
/// parks a thread between two arbitrary adjacent synchronisation steps, also in windows that a
/// change to the library creates and no named point anticipates
const SITE_SYNC: u8 = 8;
const NSITES: usize = 9;

const SITE_LABEL: [&str; NSITES] = [
    "user-callback(clone/initialiser-fn)",
    "write-begun(before-publish)",
    "published(before-invalidate)",
    "init-begun(before-marker)",
    "produced(before-install)",
    "installed(before-recheck)",
    "announced(before-load)",
    "latest-loaded(before-clone)",
    "sync-op(before-any-ArcSwap/atomic-operation)",
];

/// Installed as the `__verif` point hook of both crates.
fn point_hook(name: &'static str) {
    let site = match name {
        "set_global/generation-taken" | "set_local/region-resolved" => SITE_WRITE_BEGUN,
        "set_global/published" => SITE_PUBLISHED,
        "initialize/uninitialized-seen" => SITE_INIT_BEGUN,
        "initialize/announced" => SITE_ANNOUNCED,
        "initialize/latest-loaded" => SITE_LOADED,
        "sync" => SITE_SYNC,
        "initialize/cloned" | "initialize/initialized" => SITE_PRODUCED,
        "with_in_region/initialized" => SITE_INSTALLED,
        _ => return,
    };
    callback(site, None);
}

/// The site a gate's raw `site` means for one crate (region_local has no analogue of 2 and 5).
fn effective_site(raw: u8, cached: bool) -> u8 {
    let s = raw % NSITES as u8;
    match (cached, s) {
        (false, SITE_PUBLISHED) => SITE_WRITE_BEGUN,
        (false, SITE_INSTALLED) => SITE_PRODUCED,
        (false, SITE_ANNOUNCED) => SITE_INIT_BEGUN,
        (false, SITE_LOADED) => SITE_PRODUCED,
        (true, SITE_INIT_BEGUN) => SITE_ANNOUNCED,
        _ => s,
    }
}

/// Payload of the panic a user callback raises on the harness's request.
struct ScriptedPanic;

struct WorkerCtx {
    idx: usize,
    rx: Receiver<Cmd>,
    events: Sender<Event>,
    /// this thread owns a gate in the current case and gates are still on: report every site
    report: std::cell::Cell<bool>,
}

thread_local! {
    static WORKER: RefCell<Option<WorkerCtx>> = const { RefCell::new(None) };
}

/// Runs on a worker thread inside the library: reports the site to the coordinator and parks until
/// told to continue. On any other thread, and on workers that own no gate, it does nothing.
fn callback(site: u8, holding: Option<Tagged>) {
    WORKER.with(|w| {
        let b = w.borrow();
        let Some(ctx) = b.as_ref() else { return };
        if !ctx.report.get() {
            return;
        }
        if ctx.events.send(Event::Callback { thread: ctx.idx, site, holding }).is_err() {
            return;
        }
        match ctx.rx.recv() {
            Ok(Cmd::Resume) => {}
            Ok(Cmd::ResumePanic) => std::panic::panic_any(ScriptedPanic),
            _ => panic!("harness: coordinator went away while parked in a gate"),
        }
    });
}

// ---------------------------------------------------------------------------------------------
// the two crates behind one interface
// ---------------------------------------------------------------------------------------------

trait Kind: 'static {
    const NAME: &'static str;
    const CACHED: bool;
    type Obj: linked::Object + Send + Sync;
    fn make(hw: SystemHardware) -> Self::Obj;
    fn read_with(o: &Self::Obj) -> Tagged;
    fn read_get(o: &Self::Obj) -> Tagged;
    fn write(o: &Self::Obj, v: Tagged);
}

struct CachedKind;
impl Kind for CachedKind {
    const NAME: &'static str = "region_cached";
    const CACHED: bool = true;
    type Obj = RegionCached<Tagged>;
    fn make(hw: SystemHardware) -> Self::Obj {
        RegionCached::with_hardware(INIT, hw)
    }
    fn read_with(o: &Self::Obj) -> Tagged {
        o.with_cached(|v| *v)
    }
    fn read_get(o: &Self::Obj) -> Tagged {
        o.get_cached()
    }
    fn write(o: &Self::Obj, v: Tagged) {
        o.set_global(v);
    }
}

struct LocalKind;
impl Kind for LocalKind {
    const NAME: &'static str = "region_local";
    const CACHED: bool = false;
    type Obj = RegionLocal<Tagged>;
    fn make(hw: SystemHardware) -> Self::Obj {
        RegionLocal::with_hardware(local_initialiser, hw)
    }
    fn read_with(o: &Self::Obj) -> Tagged {
        o.with_local(|v| *v)
    }
    fn read_get(o: &Self::Obj) -> Tagged {
        o.get_local()
    }
    fn write(o: &Self::Obj, v: Tagged) {
        o.set_local(v);
    }
}

/// Every way a thread can get at its own instance of the family.
struct Handles<K: Kind> {
    sync: InstancePerThreadSync<K::Obj>,
    per_thread: InstancePerThread<K::Obj>,
    family: Family<K::Obj>,
    root: Arc<K::Obj>,
}

impl<K: Kind> Handles<K> {
    fn new(hw: SystemHardware) -> Self {
        let root = K::make(hw);
        Self {
            sync: InstancePerThreadSync::new(root.clone()),
            per_thread: InstancePerThread::new(root.clone()),
            family: linked::Object::family(&root),
            root: Arc::new(root),
        }
    }
    fn dup(&self) -> Self {
        Self {
            sync: self.sync.clone(),
            per_thread: self.per_thread.clone(),
            family: self.family.clone(),
            root: Arc::clone(&self.root),
        }
    }
    fn acquire(&self, access: u8) -> Inst<K> {
        match access % 4 {
            0 => Inst::Sync(self.sync.acquire()),
            1 => Inst::PerThread(self.per_thread.acquire()),
            2 => Inst::Owned(self.family.clone().into()),
            _ => Inst::Owned((*self.root).clone()),
        }
    }
}

enum Inst<K: Kind> {
    Sync(RefSync<K::Obj>),
    PerThread(Ref<K::Obj>),
    Owned(K::Obj),
}

impl<K: Kind> Deref for Inst<K> {
    type Target = K::Obj;
    fn deref(&self) -> &K::Obj {
        match self {
            Inst::Sync(r) => r,
            Inst::PerThread(r) => r,
            Inst::Owned(o) => o,
        }
    }
}

// ---------------------------------------------------------------------------------------------
// case
// ---------------------------------------------------------------------------------------------

const MODE_PINNED: u8 = 0;
const MODE_LATE: u8 = 1;
const MODE_FREE: u8 = 2;

#[derive(Debug, Clone, Serialize, Deserialize)]
struct ThreadSpec {
    /// 0 = pinned to a region before its instance exists (instance holds the regional state),
    /// 1 = instance first, pinned afterwards, may move between regions (region looked up per call),
    /// 2 = never pinned (the fake platform reports a random processor per call).
    mode: u8,
    region: u16,
    /// pin to one processor of the region instead of all of them
    pin_single: bool,
    /// 0 InstancePerThreadSync, 1 InstancePerThread, 2 Family::into, 3 clone of a shared instance
    access: u8,
    /// acquire a fresh instance for every operation instead of keeping one
    reacquire: bool,
}

#[derive(Debug, Clone, Copy, Serialize, Deserialize, PartialEq, Eq)]
enum Op {
    With,
    Get,
    Set,
    Move(u16),
}

#[derive(Debug, Clone, Serialize, Deserialize)]
struct Step {
    thread: u16,
    op: Op,
}

#[derive(Debug, Clone, Serialize, Deserialize)]
struct Gate {
    reader: u16,
    /// where the reader is parked (see `SITE_*`; taken modulo NSITES, mapped per crate)
    #[serde(default)]
    site: u8,
    /// fires the k-th time (1-based) the reader passes that site in the main phase
    k: u8,
    actions: Vec<Step>,
    /// user-callback sites only (`Tagged::clone` / the initialiser fn): after the actions ran, the
    /// callback panics - user code may - so the read that was initialising the region unwinds
    #[serde(default)]
    panic: bool,
}

#[derive(Debug, Clone, Serialize, Deserialize)]
struct Case {
    region_ids: Vec<u32>,
    /// processors per region (1..=2), same length as `region_ids`
    procs: Vec<u8>,
    threads: Vec<ThreadSpec>,
    steps: Vec<Step>,
    gates: Vec<Gate>,
    /// a read that has to wait for an initialiser parked in a gate is issued anyway (by a thread
    /// that owns no gate and runs in a known region) and completes when the initialiser is
    /// resumed - the waiter path of region initialisation; otherwise such reads are skipped
    #[serde(default)]
    waiters: bool,
    /// the family's first object is created on a thread pinned to this region (index into
    /// `region_ids`, taken modulo their number) instead of on an unpinned thread
    #[serde(default)]
    creator_region: Option<u16>,
}

fn op_strategy(write_weight: u32) -> impl Strategy<Value = Op> {
    prop_oneof![
        4 => Just(Op::With),
        3 => Just(Op::Get),
        write_weight => Just(Op::Set),
        1 => any::<u16>().prop_map(Op::Move),
    ]
}

fn step_strategy(write_weight: u32) -> impl Strategy<Value = Step> {
    (any::<u16>(), op_strategy(write_weight)).prop_map(|(thread, op)| Step { thread, op })
}

fn thread_strategy() -> impl Strategy<Value = ThreadSpec> {
    (
        prop_oneof![5 => Just(MODE_PINNED), 3 => Just(MODE_LATE), 1 => Just(MODE_FREE)],
        any::<u16>(),
        any::<bool>(),
        0u8..4,
        prop::bool::weighted(0.25),
    )
        .prop_map(|(mode, region, pin_single, access, reacquire)| ThreadSpec {
            mode,
            region,
            pin_single,
            access,
            reacquire,
        })
}

fn case_strategy() -> impl Strategy<Value = Case> {
    let regions = prop_oneof![2 => Just(1usize), 3 => Just(2usize), 3 => 3usize..=8];
    regions.prop_flat_map(|n| {
        (
            prop::sample::subsequence((0u32..10).collect::<Vec<_>>(), n),
            prop::collection::vec(1u8..=2, n),
            prop::collection::vec(thread_strategy(), 2..=8),
            prop::collection::vec(step_strategy(4), 3..28),
            prop::collection::vec(
                (
                    any::<u16>(),
                    prop_oneof![4 => Just(SITE_USER), 5 => 1u8..SITE_SYNC, 6 => Just(SITE_SYNC)],
                    prop_oneof![5 => Just(1u8), 3 => Just(2u8), 2 => 3u8..=5],
                    1u8..=40,
                    prop::collection::vec(step_strategy(9), 1..5),
                    prop::bool::weighted(0.25),
                )
                    .prop_map(|(reader, site, k, ksync, actions, panic)| Gate { reader, site, k: if site == SITE_SYNC { ksync } else { k }, actions, panic: panic && site == SITE_USER }),
                0..5,
            ),
            prop::bool::weighted(0.6),
            prop::option::weighted(0.5, any::<u16>()),
        )
            .prop_map(|(region_ids, procs, threads, steps, gates, waiters, creator_region)| Case {
                region_ids,
                procs,
                threads,
                steps,
                gates,
                waiters,
                creator_region,
            })
    })
}

// ---------------------------------------------------------------------------------------------
// worker threads
// ---------------------------------------------------------------------------------------------

enum Cmd {
    /// start a case on this worker: a `Box<Begin<K>>`
    Begin(Box<dyn std::any::Any + Send>),
    /// the case is over: drop the instance, the handles and the hardware
    End,
    Read { get: bool },
    Write(Tagged),
    /// pin to processor set of a region: (region id, processor ids)
    Pin(Vec<u32>),
    Resume,
    /// resume a thread parked in a user callback by panicking out of that callback
    ResumePanic,
    /// quiescent phase: stop reporting sites
    GatesOff,
    Exit,
}

#[derive(Debug)]
enum Outcome {
    Read(Tagged),
    Wrote,
    Pinned,
    Ready,
    Ended,
    Panic(String),
    /// the operation unwound with the panic the harness itself raised in a user callback
    ScriptedPanic,
}

#[derive(Debug)]
enum Event {
    Callback { thread: usize, site: u8, holding: Option<Tagged> },
    Done { thread: usize, outcome: Outcome },
}

fn pin_to(hw: &SystemHardware, ids: &[u32]) {
    hw.all_processors()
        .filter(|p| ids.contains(&p.id()))
        .expect("harness: processors of a region exist")
        .pin_current_thread_to();
}

struct WorkerSetup {
    /// pin before the instance exists
    pin_first: Option<Vec<u32>>,
    /// pin after the instance exists
    pin_after: Option<Vec<u32>>,
    access: u8,
    reacquire: bool,
}

struct Begin<K: Kind> {
    /// the thread owns at least one gate: it reports every site it passes
    report: bool,
    setup: WorkerSetup,
    hw: SystemHardware,
    handles: Handles<K>,
}

fn next_cmd() -> Option<Cmd> {
    WORKER.with(|w| w.borrow().as_ref().expect("ctx").rx.recv()).ok()
}

/// A pool thread: serves one case after another (threads are recycled every `POOL_USES` cases
/// because many_cpus keeps per-thread pin state per hardware instance).
fn worker_main<K: Kind>(idx: usize, rx: Receiver<Cmd>, events: Sender<Event>) {
    let events2 = events.clone();
    WORKER.with(|w| *w.borrow_mut() = Some(WorkerCtx { idx, rx, events, report: std::cell::Cell::new(false) }));
    let done = |outcome: Outcome| events2.send(Event::Done { thread: idx, outcome }).is_ok();
    loop {
        let begin = match next_cmd() {
            Some(Cmd::Begin(b)) => b.downcast::<Begin<K>>().expect("harness: Begin of this kind"),
            Some(Cmd::End) => {
                if !done(Outcome::Ended) {
                    break;
                }
                continue;
            }
            _ => break,
        };
        let Begin { report, setup, hw, handles } = *begin;
        let set_report = |on: bool| WORKER.with(|w| w.borrow().as_ref().expect("ctx").report.set(on));
        let started = vcommon::catch(|| {
            if let Some(ids) = &setup.pin_first {
                pin_to(&hw, ids);
            }
            let held: Option<Inst<K>> = if setup.reacquire { None } else { Some(handles.acquire(setup.access)) };
            if let Some(ids) = &setup.pin_after {
                pin_to(&hw, ids);
            }
            held
        });
        set_report(report);
        let mut held = match started {
            Ok(h) => {
                if !done(Outcome::Ready) {
                    break;
                }
                h
            }
            Err(m) => {
                if !done(Outcome::Panic(m)) {
                    break;
                }
                None
            }
        };
        let mut exit = false;
        loop {
            let Some(cmd) = next_cmd() else {
                exit = true;
                break;
            };
            match cmd {
                Cmd::End => break,
                Cmd::GatesOff => {
                    set_report(false);
                    continue;
                }
                Cmd::Exit | Cmd::Begin(_) => {
                    exit = true;
                    break;
                }
                _ => {}
            }
            let outcome = std::panic::catch_unwind(std::panic::AssertUnwindSafe(|| {
                let fresh;
                let inst: &Inst<K> = match &held {
                    Some(i) => i,
                    None => {
                        fresh = handles.acquire(setup.access);
                        &fresh
                    }
                };
                match &cmd {
                    Cmd::Read { get } => Outcome::Read(if *get { K::read_get(inst) } else { K::read_with(inst) }),
                    Cmd::Write(v) => {
                        K::write(inst, *v);
                        Outcome::Wrote
                    }
                    Cmd::Pin(ids) => {
                        pin_to(&hw, ids);
                        Outcome::Pinned
                    }
                    _ => Outcome::Pinned,
                }
            }))
            .unwrap_or_else(|p| if p.is::<ScriptedPanic>() { Outcome::ScriptedPanic } else { Outcome::Panic(vcommon::panic_message(&*p)) });
            if !done(outcome) {
                exit = true;
                break;
            }
        }
        set_report(false);
        held.take();
        drop(handles);
        drop(hw);
        if exit || !done(Outcome::Ended) {
            break;
        }
    }
    WORKER.with(|w| *w.borrow_mut() = None);
}

const POOL_THREADS: usize = 9;
const POOL_USES: u32 = 48;

struct Pool {
    chans: Vec<Chan>,
    events: Receiver<Event>,
    uses: u32,
}

impl Pool {
    fn new<K: Kind>() -> Self {
        let (ev_tx, events) = mpsc::channel::<Event>();
        let chans = (0..POOL_THREADS)
            .map(|idx| {
                let (tx, rx) = mpsc::channel::<Cmd>();
                let ev = ev_tx.clone();
                let tid = Arc::new(AtomicI64::new(0));
                let tid2 = Arc::clone(&tid);
                let join = std::thread::Builder::new()
                    .name(format!("c13-{}-w{idx}", K::NAME))
                    .spawn(move || {
                        // SAFETY: gettid has no preconditions.
                        tid2.store(unsafe { libc::syscall(libc::SYS_gettid) } as i64, Ordering::Relaxed);
                        worker_main::<K>(idx, rx, ev);
                    })
                    .expect("spawn worker");
                Chan { tx, join: Some(join), tid }
            })
            .collect();
        Self { chans, events, uses: 0 }
    }

    fn shutdown(mut self) {
        for c in &self.chans {
            let _ = c.tx.send(Cmd::Exit);
        }
        for c in &mut self.chans {
            if let Some(j) = c.join.take() {
                let _ = j.join();
            }
        }
    }
}

// ---------------------------------------------------------------------------------------------
// coordinator: sequencing, model, records
// ---------------------------------------------------------------------------------------------

#[derive(Debug, Serialize, Deserialize)]
struct ReadRec {
    thread: usize,
    /// index into the case's regions, if the harness knows where the thread runs
    region: Option<usize>,
    value: Tagged,
    /// harness clock (one tick per operation start / end) when the read was dispatched / returned
    start: u64,
    end: u64,
    final_phase: bool,
    /// the thread's directly preceding operation was this write (index in the write log)
    own_prev: Option<usize>,
}

#[derive(Debug, Serialize, Deserialize)]
struct WriteRec {
    thread: usize,
    region: Option<usize>,
    value: Tagged,
    /// harness clock when the write was dispatched / returned (it can be parked in between)
    start: u64,
    end: u64,
}

#[derive(Debug, Serialize, Deserialize)]
struct Window {
    /// where the reader is parked
    site: u8,
    /// region of the parked thread (None: unpinned writer on multi-region hardware)
    region: Option<usize>,
    /// region_cached: the value the parked initialiser is cloning / has installed
    holding: Option<Tagged>,
    writes_inside: u32,
    /// indices (write log) of the writes that completed inside the window
    write_idx: Vec<usize>,
    /// indices (read log) of the reads that completed inside the window
    read_idx: Vec<usize>,
    depth: usize,
}

struct Chan {
    tx: Sender<Cmd>,
    join: Option<JoinHandle<()>>,
    /// kernel thread id of the worker (0 until it has started)
    tid: Arc<AtomicI64>,
}

/// Scheduler state and consumed CPU time (clock ticks) of a worker, from /proc/self/task/<tid>/stat.
/// A worker that is executing an operation has no reason to sleep and needs microseconds of CPU:
/// it either reports a callback / its result (an event arrives), waits inside the library for a
/// parked initialiser (state `S`: dead-lock with the harness), or spins (CPU time grows: live-lock).
fn thread_stat(tid: i64) -> Option<(bool, u64)> {
    if tid == 0 {
        return None;
    }
    let stat = std::fs::read_to_string(format!("/proc/self/task/{tid}/stat")).ok()?;
    // "<pid> (<comm>) <state> <ppid> ... utime(14) stime(15) ..."
    let (_, rest) = stat.rsplit_once(')')?;
    let mut f = rest.split_ascii_whitespace();
    let state = f.next()?;
    let utime: u64 = f.nth(10)?.parse().ok()?;
    let stime: u64 = f.next()?.parse().ok()?;
    Some((state.starts_with('S'), utime + stime))
}

/// Hang watchdog. Nothing in a case waits on wall-clock time, so on correct code it never fires;
/// it only turns a dead-locked case into a `hang` failure. Once some case has failed (the run is
/// then only shrinking a counterexample) it is shortened so that shrinking through dead-locking
/// variants stays affordable.
static FAILED_ONCE: AtomicBool = AtomicBool::new(false);

fn watchdog() -> Duration {
    if FAILED_ONCE.load(Ordering::Relaxed) { Duration::from_millis(1500) } else { Duration::from_secs(30) }
}
const MAX_DEPTH: usize = 3;

struct Run<'a> {
    cached: bool,
    case: &'a Case,
    nregions: usize,
    nthreads: usize,
    pool: &'a Pool,
    /// model: region index each thread runs in (None = unknown: unpinned on multi-region hardware)
    region_of: Vec<Option<usize>>,
    can_move: Vec<bool>,
    pin_single: Vec<bool>,
    /// model: region whose slot holds this thread's initialising marker (set when the thread
    /// reports the user callback, removed by a completed write or when it installs its value)
    holds: Vec<Option<usize>>,
    /// region_cached: the value a reporting thread was last seen cloning in its current attempt
    last_holding: Vec<Option<Tagged>>,
    /// open gate windows, innermost last: (reader, window index, site)
    stack: Vec<(usize, usize, u8)>,
    windows: Vec<Window>,
    site_count: Vec<[u32; NSITES]>,
    clock: u64,
    next_seq: Vec<u32>,
    prev_write: Vec<Option<usize>>,
    fired: Vec<bool>,
    reads: Vec<ReadRec>,
    writes: Vec<WriteRec>,
    final_phase: bool,
    skipped_blocked: u32,
    skipped_parked: u32,
    unpinned_reads: u32,
    /// reads issued although they have to wait for a parked initialiser; their `Done` arrives later
    waiters: Vec<Waiter>,
    waiter_reads: u32,
    /// reads that unwound with a panic the harness raised in the region's initialiser callback
    scripted_panics: u32,
}

struct Waiter {
    t: usize,
    own_prev: Option<usize>,
    start: u64,
    region: Option<usize>,
}

#[derive(Debug, Clone, Copy, PartialEq, Eq)]
enum Exec {
    Read { get: bool },
    Write,
    /// pin to region index
    Move(usize),
}

enum Stop {
    Hang(String),
    Panic(String),
    Protocol(String),
}

impl Run<'_> {
    fn proc_ids(&self, region: usize, single: bool) -> Vec<u32> {
        let start: u32 = self.case.procs[..region].iter().map(|c| u32::from(*c)).sum();
        let n = if single { 1 } else { u32::from(self.case.procs[region]) };
        (start..start + n).collect()
    }

    fn send(&self, t: usize, cmd: Cmd) -> Result<(), Stop> {
        self.pool.chans[t].tx.send(cmd).map_err(|_| Stop::Protocol(format!("worker {t} is gone")))
    }

    /// Would a read by `t` wait for a parked initialiser (and so deadlock the harness)?
    fn read_would_block(&self, t: usize) -> bool {
        let mine = self.region_of[t];
        self.stack.iter().any(|(r, _, site)| {
            // a thread parked in user code or just before installing still has its marker in the
            // slot unless a write removed it since
            matches!(*site, SITE_USER | SITE_PRODUCED | SITE_ANNOUNCED | SITE_LOADED | SITE_SYNC) && self.holds[*r].is_some_and(|x| mine.is_none_or(|m| m == x))
        })
    }

    fn tick(&mut self) -> u64 {
        self.clock += 1;
        self.clock
    }

    fn step(&mut self, step: &Step) -> Result<(), Stop> {
        let t = pick_index(step.thread, self.nthreads);
        let op = self.to_exec(step.op);
        self.exec(t, op)
    }

    fn sweeper(&self) -> usize {
        self.nthreads
    }

    /// The sweeper (an extra thread that acquired its instance unpinned) reads every region.
    fn sweep(&mut self) -> Result<(), Stop> {
        let sw = self.sweeper();
        for x in 0..self.nregions {
            self.exec(sw, Exec::Move(x))?;
            self.exec(sw, Exec::Read { get: x % 2 == 1 })?;
        }
        Ok(())
    }

    fn to_exec(&self, op: Op) -> Exec {
        match op {
            Op::With => Exec::Read { get: false },
            Op::Get => Exec::Read { get: true },
            Op::Set => Exec::Write,
            Op::Move(raw) => Exec::Move(pick_index(raw, self.nregions)),
        }
    }

    fn owns_gate(&self, t: usize) -> bool {
        self.case.gates.iter().any(|g| pick_index(g.reader, self.nthreads) == t)
    }

    /// The `Done` of a read that had to wait for a parked initialiser.
    fn finish_waiter(&mut self, thread: usize, outcome: Outcome) -> Result<(), Stop> {
        let i = self.waiters.iter().position(|w| w.t == thread).expect("caller checked");
        let w = self.waiters.swap_remove(i);
        self.holds[thread] = None;
        match outcome {
            Outcome::Read(value) => {
                let ri = self.reads.len();
                for (_, win, _) in &self.stack {
                    self.windows[*win].read_idx.push(ri);
                }
                let end = self.tick();
                self.reads.push(ReadRec { thread, region: w.region, value, start: w.start, end, final_phase: false, own_prev: w.own_prev });
                self.waiter_reads += 1;
                Ok(())
            }
            Outcome::Panic(m) => Err(Stop::Panic(m)),
            o => Err(Stop::Protocol(format!("waiting read answered {o:?}"))),
        }
    }

    /// Nothing is parked any more: every read that waited for an initialiser must come back.
    fn drain_waiters(&mut self) -> Result<(), Stop> {
        while !self.waiters.is_empty() {
            match self.pool.events.recv_timeout(watchdog()) {
                Ok(Event::Done { thread, outcome }) if self.waiters.iter().any(|w| w.t == thread) => self.finish_waiter(thread, outcome)?,
                Ok(e) => return Err(Stop::Protocol(format!("unexpected {e:?} while collecting waiting reads"))),
                Err(_) => {
                    return Err(Stop::Hang(format!(
                        "thread {} started a read while another thread was initialising its region; that thread has long finished, the read never returned",
                        self.waiters[0].t
                    )));
                }
            }
        }
        Ok(())
    }

    fn exec(&mut self, t: usize, mut op: Exec) -> Result<(), Stop> {
        if self.stack.iter().any(|(r, _, _)| *r == t) || self.waiters.iter().any(|w| w.t == t) {
            self.skipped_parked += 1;
            return Ok(());
        }
        if let Exec::Move(_) = op {
            if !self.can_move[t] {
                op = Exec::Read { get: false };
            }
        }
        // region_local: a write from an unknown region cannot be modelled
        if op == Exec::Write && !self.cached && self.region_of[t].is_none() {
            op = Exec::Read { get: true };
        }
        match op {
            Exec::Read { get } => {
                if self.read_would_block(t) {
                    if self.case.waiters && !self.final_phase && self.region_of[t].is_some() && t != self.sweeper() && !self.owns_gate(t) {
                        // issue it anyway: it blocks inside the library until the parked
                        // initialiser is resumed; its answer is collected when it arrives
                        let own_prev = self.prev_write[t].take();
                        let start = self.tick();
                        self.send(t, Cmd::Read { get })?;
                        self.waiters.push(Waiter { t, own_prev, start, region: self.region_of[t] });
                        return Ok(());
                    }
                    self.skipped_blocked += 1;
                    return Ok(());
                }
                if self.region_of[t].is_none() && t != self.sweeper() && !self.final_phase {
                    // An unpinned thread reads a random region (rand inside the fake platform).
                    // To keep the case a pure function of its input, every region is brought to
                    // the initialised state first, so the read cannot initialise anything.
                    self.sweep()?;
                    self.unpinned_reads += 1;
                }
                let own_prev = self.prev_write[t].take();
                let start = self.tick();
                self.send(t, Cmd::Read { get })?;
                let region = self.region_of[t];
                let outcome = self.wait_done(t);
                self.holds[t] = None;
                match outcome? {
                    Outcome::Read(value) => {
                        let ri = self.reads.len();
                        for (_, w, _) in &self.stack {
                            self.windows[*w].read_idx.push(ri);
                        }
                        let end = self.tick();
                        self.reads.push(ReadRec { thread: t, region, value, start, end, final_phase: self.final_phase, own_prev });
                        Ok(())
                    }
                    // the region's initialiser callback panicked on request: the read unwound
                    // without a value; everything else goes on as if it had never been issued
                    Outcome::ScriptedPanic => {
                        self.prev_write[t] = own_prev;
                        Ok(())
                    }
                    o => Err(Stop::Protocol(format!("read answered {o:?}"))),
                }
            }
            Exec::Write => {
                self.next_seq[t] += 1;
                let value = Tagged { writer: t as u8, seq: self.next_seq[t] };
                let start = self.tick();
                self.send(t, Cmd::Write(value))?;
                match self.wait_done(t)? {
                    Outcome::Wrote => {}
                    o => return Err(Stop::Protocol(format!("write answered {o:?}"))),
                }
                let region = self.region_of[t];
                // model: the write removes initialising markers (cached: everywhere; local: its region)
                let wi = self.writes.len();
                if self.cached {
                    self.holds.iter_mut().for_each(|m| *m = None);
                    for (_, w, _) in &self.stack {
                        self.windows[*w].writes_inside += 1;
                        self.windows[*w].write_idx.push(wi);
                    }
                } else if let Some(x) = region {
                    self.holds.iter_mut().filter(|m| **m == Some(x)).for_each(|m| *m = None);
                    for (_, w, _) in &self.stack {
                        if self.windows[*w].region == Some(x) {
                            self.windows[*w].writes_inside += 1;
                            self.windows[*w].write_idx.push(wi);
                        }
                    }
                }
                let end = self.tick();
                self.prev_write[t] = Some(self.writes.len());
                self.writes.push(WriteRec { thread: t, region, value, start, end });
                Ok(())
            }
            Exec::Move(x) => {
                self.prev_write[t] = None;
                self.send(t, Cmd::Pin(self.proc_ids(x, self.pin_single[t])))?;
                match self.wait_done(t)? {
                    Outcome::Pinned => {
                        self.region_of[t] = Some(x);
                        Ok(())
                    }
                    o => Err(Stop::Protocol(format!("pin answered {o:?}"))),
                }
            }
        }
    }

    /// Next event while thread `t` is executing an operation. Declares a hang when `t` is found
    /// blocked in the kernel on 500 consecutive polls >= 2 ms apart with no event pending (it waits
    /// for a parked initialiser, which waits for us) or when the 30 s watchdog expires; while
    /// shrinking an already failed case: 50 polls, 500 ms of CPU inside the operation (live-lock),
    /// or a 1.5 s watchdog.
    fn next_event(&self, t: usize) -> Result<Event, Stop> {
        let deadline = Instant::now() + watchdog();
        let tid = self.pool.chans[t].tid.load(Ordering::Relaxed);
        // Before any case has failed only robust signals count: the thread asleep on every poll
        // for well over a second, or the 30 s watchdog (CPU accounting is not trustworthy on an
        // oversubscribed VM). Once a case has failed the run is only shrinking it and quicker,
        // less conservative thresholds keep that affordable.
        let fast = FAILED_ONCE.load(Ordering::Relaxed);
        let asleep_limit = if fast { 50 } else { 500 };
        let mut asleep = 0u32;
        let mut cpu_start: Option<u64> = None;
        loop {
            match self.pool.events.recv_timeout(Duration::from_millis(2)) {
                Ok(ev) => return Ok(ev),
                Err(RecvTimeoutError::Disconnected) => return Err(Stop::Protocol("event channel closed".into())),
                Err(RecvTimeoutError::Timeout) => {
                    let mut spinning = false;
                    match thread_stat(tid) {
                        Some((sleeping, cpu)) => {
                            asleep = if sleeping { asleep + 1 } else { 0 };
                            let start = *cpu_start.get_or_insert(cpu);
                            // 50 ticks = 500 ms of CPU inside one operation
                            spinning = fast && cpu.saturating_sub(start) >= 50;
                        }
                        None => asleep = 0,
                    }
                    let expired = Instant::now() > deadline;
                    if asleep >= asleep_limit || spinning || expired {
                        // the event may have arrived just before the thread went to sleep in its channel
                        if let Ok(ev) = self.pool.events.try_recv() {
                            return Ok(ev);
                        }
                        return Err(Stop::Hang(format!(
                            "thread {t} does not finish its operation ({})",
                            if asleep >= asleep_limit {
                                "blocked in the kernel with no event pending"
                            } else if spinning {
                                "burning CPU with no event"
                            } else {
                                "watchdog"
                            }
                        )));
                    }
                }
            }
        }
    }

    /// Waits for `t`'s running operation, serving the callbacks it makes on the way.
    fn wait_done(&mut self, t: usize) -> Result<Outcome, Stop> {
        // a failure inside a gate must not leave the parked reader behind: it is resumed and
        // awaited first, then the failure is reported
        let mut pending: Option<Stop> = None;
        loop {
            let ev = self.next_event(t)?;
            match ev {
                Event::Done { thread, outcome } => {
                    if thread != t && self.waiters.iter().any(|w| w.t == thread) {
                        self.finish_waiter(thread, outcome)?;
                        continue;
                    }
                    if thread != t {
                        return Err(Stop::Protocol(format!("thread {thread} finished while {t} was running")));
                    }
                    if let Some(e) = pending {
                        return Err(e);
                    }
                    if let Outcome::Panic(m) = outcome {
                        return Err(Stop::Panic(m));
                    }
                    return Ok(outcome);
                }
                Event::Callback { thread, site, holding } => {
                    if thread != t {
                        return Err(Stop::Protocol(format!("callback from {thread} while {t} was running")));
                    }
                    let mut by_panic = false;
                    if pending.is_none() {
                        match self.on_callback(t, site, holding) {
                            Ok(p) => by_panic = p,
                            Err(e @ Stop::Hang(_)) => return Err(e),
                            Err(e) => pending = Some(e),
                        }
                    }
                    self.send(t, if by_panic { Cmd::ResumePanic } else { Cmd::Resume })?;
                }
            }
        }
    }

    /// Returns whether the parked thread is to be resumed by panicking out of its user callback.
    fn on_callback(&mut self, t: usize, site: u8, holding: Option<Tagged>) -> Result<bool, Stop> {
        if self.final_phase || site as usize >= NSITES {
            return Ok(false);
        }
        let region = self.region_of[t];
        // --- model of the initialising marker and of the value being installed
        match site {
            SITE_INIT_BEGUN => {
                self.holds[t] = None;
                self.last_holding[t] = None;
            }
            SITE_ANNOUNCED => {
                self.holds[t] = region;
                self.last_holding[t] = None;
            }
            SITE_USER => {
                self.holds[t] = region;
                self.last_holding[t] = holding;
            }
            SITE_INSTALLED => self.holds[t] = None,
            _ => {}
        }
        self.site_count[t][site as usize] += 1;
        let k = self.site_count[t][site as usize];
        let init_site = matches!(site, SITE_USER | SITE_INIT_BEGUN | SITE_PRODUCED | SITE_INSTALLED | SITE_ANNOUNCED | SITE_LOADED);
        if (init_site || site == SITE_SYNC) && region.is_none() {
            // an initialiser in an unknown region cannot be modelled (a sync operation may lie
            // inside an initialisation, with this thread's marker in a slot nobody can name:
            // a read of another thread in that region would wait for it, and so for the harness)
            return Ok(false);
        }
        // region_local runs the initialiser once per region, so a reader rarely passes an
        // initialisation site twice: such gates fire at the reader's next passes, in list order
        let ignore_k = !self.cached && init_site;
        let cached = self.cached;
        let gate = self
            .case
            .gates
            .iter()
            .enumerate()
            .find(|(i, g)| {
                !self.fired[*i]
                    && pick_index(g.reader, self.nthreads) == t
                    && effective_site(g.site, cached) == site
                    && (ignore_k || u32::from(g.k) == k)
            })
            .map(|(i, _)| i);
        let Some(gi) = gate else {
            return Ok(false);
        };
        if self.stack.len() >= MAX_DEPTH {
            return Ok(false);
        }
        self.fired[gi] = true;
        let w = self.windows.len();
        let holding = if site == SITE_USER { holding } else { self.last_holding[t] };
        self.windows.push(Window {
            site,
            region,
            holding,
            writes_inside: 0,
            write_idx: Vec::new(),
            read_idx: Vec::new(),
            depth: self.stack.len() + 1,
        });
        self.stack.push((t, w, site));
        let case = self.case;
        let mut res = Ok(());
        for a in &case.gates[gi].actions {
            if res.is_err() {
                break;
            }
            res = match region {
                Some(x) if !self.cached => {
                    // region_local: only operations in the window's region interact with it, so the
                    // actor is chosen among the threads that are in that region now (if any)
                    let here: Vec<usize> = (0..self.nthreads).filter(|u| *u != t && self.region_of[*u] == Some(x)).collect();
                    if here.is_empty() {
                        self.step(a)
                    } else {
                        let u = here[pick_index(a.thread, here.len())];
                        let op = self.to_exec(a.op);
                        self.exec(u, op)
                    }
                }
                _ => self.step(a),
            };
        }
        self.stack.pop();
        res.map(|()| {
            let p = case.gates[gi].panic && site == SITE_USER;
            if p {
                self.scripted_panics += 1;
            }
            p
        })
    }
}

fn classify_case(case: &Case, ctx: &mut Ctx) {
    ctx.classify(if case.creator_region.is_some() { "family-created-on-a-pinned-thread" } else { "family-created-on-an-unpinned-thread" });
    ctx.classify(match case.region_ids.len() {
        1 => "regions:1",
        2 => "regions:2",
        _ => "regions:3-8",
    });
    for t in &case.threads {
        ctx.classify(match t.mode {
            MODE_PINNED => "thread:pinned-before-acquire",
            MODE_LATE => "thread:pinned-after-acquire(per-call-lookup)",
            _ => "thread:unpinned",
        });
        ctx.classify(match t.access % 4 {
            0 => "access:InstancePerThreadSync",
            1 => "access:InstancePerThread",
            2 => "access:Family::into",
            _ => "access:clone-of-instance",
        });
        if t.reacquire {
            ctx.classify("thread:reacquires-per-op");
        }
    }
}

/// What the executor process observed in one case; judged by the parent.
#[derive(Debug, Serialize, Deserialize)]
struct Report {
    nregions: usize,
    reads: Vec<ReadRec>,
    writes: Vec<WriteRec>,
    windows: Vec<Window>,
    skipped_blocked: u32,
    skipped_parked: u32,
    unpinned_reads: u32,
    #[serde(default)]
    waiter_reads: u32,
    #[serde(default)]
    scripted_panics: u32,
}

#[derive(Debug, Serialize, Deserialize)]
enum ChildReply {
    Done(Report),
    Hang(String),
    Panic(String),
    Protocol(String),
}

#[derive(Debug, Serialize, Deserialize)]
struct Request {
    cached: bool,
    /// a case has already failed: the run is only shrinking, use the short watchdog
    fast: bool,
    case: Case,
}

/// Runs one case on the worker pool (executor process only).
fn exec_case<K: Kind>(case: &Case, pool_slot: &mut Option<Pool>) -> ChildReply {
    let nregions = case.region_ids.len();
    let nthreads = case.threads.len() + 1; // + the sweeper
    // --- hardware
    let mut b = HardwareBuilder::new();
    let mut pid = 0u32;
    for (rid, n) in case.region_ids.iter().zip(&case.procs) {
        for _ in 0..*n {
            b = b.processor(ProcessorBuilder::new().id(pid).memory_region(*rid));
            pid += 1;
        }
    }
    let hw = SystemHardware::fake(b);
    let handles: Handles<K> = match case.creator_region {
        None => Handles::new(hw.clone()),
        Some(raw) => {
            // the first object of the family comes from a thread that is pinned to one region
            let x = pick_index(raw, nregions);
            let start: u32 = case.procs[..x].iter().map(|c| u32::from(*c)).sum();
            let ids: Vec<u32> = (start..start + u32::from(case.procs[x])).collect();
            let hw2 = hw.clone();
            std::thread::spawn(move || {
                pin_to(&hw2, &ids);
                Handles::<K>::new(hw2)
            })
            .join()
            .expect("harness: creating the family on a pinned thread")
        }
    };

    if pool_slot.as_ref().is_some_and(|p| p.uses >= POOL_USES) {
        if let Some(p) = pool_slot.take() {
            p.shutdown();
        }
    }
    let pool = pool_slot.get_or_insert_with(Pool::new::<K>);
    pool.uses += 1;
    let pool: &Pool = pool;

    let mut run = Run {
        cached: K::CACHED,
        case,
        nregions,
        nthreads: case.threads.len(),
        pool,
        region_of: Vec::new(),
        can_move: Vec::new(),
        pin_single: Vec::new(),
        holds: vec![None; nthreads],
        last_holding: vec![None; nthreads],
        stack: Vec::new(),
        windows: Vec::new(),
        site_count: vec![[0; NSITES]; nthreads],
        clock: 0,
        next_seq: vec![0; nthreads],
        prev_write: vec![None; nthreads],
        fired: vec![false; case.gates.len()],
        reads: Vec::new(),
        writes: Vec::new(),
        final_phase: false,
        skipped_blocked: 0,
        skipped_parked: 0,
        unpinned_reads: 0,
        waiters: Vec::new(),
        waiter_reads: 0,
        scripted_panics: 0,
    };

    // --- threads (the last one is the sweeper: instance first, then visits every region at the end)
    let sweeper = ThreadSpec { mode: MODE_LATE, region: 0, pin_single: false, access: 0, reacquire: false };
    let mut start: Result<(), Stop> = Ok(());
    for (idx, spec) in case.threads.iter().chain(std::iter::once(&sweeper)).enumerate() {
        let x = pick_index(spec.region, nregions);
        let ids = run.proc_ids(x, spec.pin_single);
        let (pin_first, pin_after, region, can_move) = match spec.mode {
            MODE_PINNED => (Some(ids), None, Some(x), false),
            MODE_LATE => (None, Some(ids), Some(x), true),
            _ => (None, None, (nregions == 1).then_some(0), false),
        };
        run.region_of.push(region);
        run.can_move.push(can_move);
        run.pin_single.push(spec.pin_single);
        let setup = WorkerSetup { pin_first, pin_after, access: spec.access, reacquire: spec.reacquire };
        let report = idx < case.threads.len() && case.gates.iter().any(|g| pick_index(g.reader, case.threads.len()) == idx);
        let begin: Box<Begin<K>> = Box::new(Begin { report, setup, hw: hw.clone(), handles: handles.dup() });
        if let Err(e) = run.send(idx, Cmd::Begin(begin)) {
            start = Err(e);
        }
    }

    let result = start.and_then(|()| drive(&mut run, nthreads));

    // --- end of the case on every worker that got a Begin
    let mut result = result;
    if !matches!(result, Err(Stop::Hang(_))) {
        for t in 0..nthreads {
            let _ = run.send(t, Cmd::End);
        }
        let mut ended = 0;
        while ended < nthreads {
            match pool.events.recv_timeout(watchdog()) {
                Ok(Event::Done { outcome: Outcome::Ended, .. }) => ended += 1,
                Ok(_) => {}
                Err(_) => {
                    if result.is_ok() {
                        result = Err(Stop::Hang("a worker did not end the case".into()));
                    }
                    break;
                }
            }
        }
    }
    drop(handles);
    drop(hw);
    match result {
        Ok(()) => ChildReply::Done(Report {
            nregions,
            reads: std::mem::take(&mut run.reads),
            writes: std::mem::take(&mut run.writes),
            windows: std::mem::take(&mut run.windows),
            skipped_blocked: run.skipped_blocked,
            skipped_parked: run.skipped_parked,
            unpinned_reads: run.unpinned_reads,
            waiter_reads: run.waiter_reads,
            scripted_panics: run.scripted_panics,
        }),
        Err(Stop::Hang(m)) => ChildReply::Hang(m),
        Err(Stop::Panic(m)) => ChildReply::Panic(m),
        Err(Stop::Protocol(m)) => ChildReply::Protocol(m),
    }
}

/// Parent side: ships the case to the executor process, judges what it observed. A hung (or
/// live-locked) executor is killed and replaced, so nothing of a failed case survives it.
fn check_case(name: &str, cached: bool, case: &Case, ctx: &mut Ctx, exec: &mut Worker, failed: &mut bool) -> Verdict {
    classify_case(case, ctx);
    let req = serde_json::to_string(&Request { cached, fast: *failed, case: case.clone() }).expect("serialise request");
    let reply = match exec.call(&req, Duration::from_secs(100)) {
        Reply::Line(l) => serde_json::from_str::<ChildReply>(&l).unwrap_or_else(|e| ChildReply::Protocol(format!("unreadable reply: {e}"))),
        Reply::Timeout => ChildReply::Hang("the executor process did not answer".into()),
        Reply::Died(m) => ChildReply::Panic(format!("executor process died: {m}")),
    };
    let verdict = match reply {
        ChildReply::Done(report) => judge(&report, cached, name, ctx),
        ChildReply::Hang(m) => {
            // a watchdog verdict counts only if the same case hangs again in a fresh executor
            // process (an oversubscribed machine can starve a thread past any deadline)
            exec.restart();
            let again = match exec.call(&req, Duration::from_secs(100)) {
                Reply::Line(l) => serde_json::from_str::<ChildReply>(&l).unwrap_or_else(|e| ChildReply::Protocol(format!("unreadable reply: {e}"))),
                Reply::Timeout => ChildReply::Hang("the executor process did not answer".into()),
                Reply::Died(m) => ChildReply::Panic(format!("executor process died: {m}")),
            };
            match again {
                ChildReply::Hang(m2) => {
                    exec.restart();
                    Err(Failure::new(format!("C13/{name}/hang"), format!("watchdog (twice, the second time in a fresh process): {m} / {m2}")))
                }
                ChildReply::Done(report) => {
                    ctx.classify("watchdog-expired-once-but-not-on-re-run(inconclusive)");
                    judge(&report, cached, name, ctx)
                }
                ChildReply::Panic(m2) => Err(Failure::new(format!("C13/{name}/panic/{}", vcommon::normalise(&m2)), format!("operation panicked: {m2}"))),
                ChildReply::Protocol(m2) => {
                    exec.restart();
                    Err(Failure::new(format!("C13/{name}/harness-protocol"), m2))
                }
            }
        }
        ChildReply::Panic(m) => Err(Failure::new(format!("C13/{name}/panic/{}", vcommon::normalise(&m)), format!("operation panicked: {m}"))),
        ChildReply::Protocol(m) => {
            exec.restart();
            Err(Failure::new(format!("C13/{name}/harness-protocol"), m))
        }
    };
    if verdict.is_err() {
        *failed = true;
    }
    verdict
}

fn drive(run: &mut Run<'_>, nthreads_with_sweeper: usize) -> Result<(), Stop> {
    // every worker reports Ready once its instance exists and it is pinned
    let mut ready = 0;
    while ready < nthreads_with_sweeper {
        match run.pool.events.recv_timeout(watchdog()) {
            Ok(Event::Done { outcome: Outcome::Ready, .. }) => ready += 1,
            Ok(Event::Done { outcome: Outcome::Panic(m), .. }) => return Err(Stop::Panic(m)),
            Ok(e) => return Err(Stop::Protocol(format!("unexpected {e:?} during start-up"))),
            Err(_) => return Err(Stop::Hang("worker start-up".into())),
        }
    }
    let case = run.case;
    for s in &case.steps {
        run.step(s)?;
    }
    run.drain_waiters()?;
    // --- quiescent phase: everything has returned; no gate fires any more
    run.final_phase = true;
    for t in 0..nthreads_with_sweeper {
        run.send(t, Cmd::GatesOff)?;
    }
    let sweeper = nthreads_with_sweeper - 1;
    run.sweep()?;
    for t in 0..sweeper {
        run.exec(t, Exec::Read { get: t % 2 == 0 })?;
    }
    Ok(())
}

fn judge(run: &Report, cached: bool, name: &str, ctx: &mut Ctx) -> Verdict {
    // --- classification
    let fired = run.windows.len();
    let hit: Vec<&Window> = run.windows.iter().filter(|w| w.writes_inside > 0).collect();
    if fired > 0 {
        ctx.classify("gate-fired");
    }
    for w in &run.windows {
        ctx.classify(&format!("gate@{}", SITE_LABEL[w.site as usize]));
        if w.writes_inside > 0 {
            ctx.classify(&format!("write-inside-window@{}", SITE_LABEL[w.site as usize]));
        }
        if !w.read_idx.is_empty() {
            ctx.classify(&format!("read-inside-window@{}", SITE_LABEL[w.site as usize]));
        }
    }
    if !hit.is_empty() {
        ctx.classify("write-inside-window");
        ctx.nontrivial();
    }
    if hit.len() >= 2 {
        ctx.classify("write-inside-window:>=2-windows");
    }
    if hit.iter().any(|w| w.writes_inside >= 2) {
        ctx.classify("write-inside-window:>=2-writes");
    }
    if run.writes.iter().enumerate().any(|(i, a)| run.writes[..i].iter().any(|b| b.end > a.start)) {
        ctx.classify("overlapping-writes");
    }
    if run.windows.iter().any(|w| w.depth >= 2) {
        ctx.classify("nested-gate");
    }
    if run.skipped_blocked > 0 {
        ctx.classify("action-skipped:would-wait-for-parked-initialiser");
    }
    if run.scripted_panics > 0 {
        ctx.classify("initialiser-callback-panicked(read-unwound)");
    }
    if run.waiter_reads > 0 {
        ctx.classify("read-waited-for-a-parked-initialiser(waiter-path)");
    }
    if run.skipped_parked > 0 {
        ctx.classify("action-skipped:thread-is-parked");
    }
    if run.unpinned_reads > 0 {
        ctx.classify("unpinned-read-on-multi-region-hardware");
    }
    if run.writes.is_empty() {
        ctx.classify("no-writes");
    }
    if run.writes.iter().map(|w| w.thread).collect::<std::collections::BTreeSet<_>>().len() >= 2 {
        ctx.classify(">=2-writers");
    }

    // --- quiescent state
    // region_cached: a write can be parked inside set_global while others complete, so "the last
    // value written" is any write that is maximal in real-time order (no write started after it
    // returned) - exactly the last write when writes did not overlap - and all regions must agree.
    let max_start = run.writes.iter().map(|w| w.start).max().unwrap_or(0);
    let maximal: Vec<Tagged> = if run.writes.is_empty() { vec![INIT] } else { run.writes.iter().filter(|w| w.end >= max_start).map(|w| w.value).collect() };
    let mut last_in_region = vec![INIT; run.nregions];
    for w in &run.writes {
        if let Some(x) = w.region {
            last_in_region[x] = w.value;
        }
    }
    let mut agreed: Option<&ReadRec> = None;
    for r in run.reads.iter().filter(|r| r.final_phase) {
        if cached {
            if maximal.contains(&r.value) {
                match agreed {
                    None => agreed = Some(r),
                    Some(first) if first.value != r.value => {
                        return Err(Failure::new(
                            format!("C13/{name}/quiescent/regions-disagree"),
                            format!(
                                "after all {} writes returned, thread {} in region index {:?} reads {:?} but thread {} in region index {:?} reads {:?} (overlapping last writes: {:?})",
                                run.writes.len(), first.thread, first.region, first.value, r.thread, r.region, r.value, maximal
                            ),
                        ));
                    }
                    Some(_) => {}
                }
            } else {
                let last_global = &maximal;
                let window = run.windows.iter().any(|w| {
                    matches!(w.site, SITE_USER | SITE_PRODUCED) && w.writes_inside > 0 && w.holding == Some(r.value) && (r.region.is_none() || r.region == w.region)
                });
                let sig = if window {
                    format!("C13/{name}/write-during-region-init/stale-forever")
                } else {
                    format!("C13/{name}/quiescent/stale-value")
                };
                let msg = format!(
                    "after all {} writes returned, thread {} in region index {:?} reads {:?}; the last write was {:?}{}",
                    run.writes.len(),
                    r.thread,
                    r.region,
                    r.value,
                    last_global,
                    if window { " (the stale value is the one an initialiser of that region was cloning while a set_global completed)" } else { "" }
                );
                if !ctx.tolerate(&sig) {
                    return Err(Failure::new(sig, msg));
                }
            }
        } else {
            match r.region {
                Some(x) => {
                    if r.value != last_in_region[x] {
                        // lost = the region serves the initial value although its last write
                        // completed while the region's initialiser was running
                        let last_idx = run.writes.iter().rposition(|w| w.region == Some(x));
                        let window = r.value == INIT
                            && last_idx.is_some_and(|li| {
                                run.windows.iter().any(|w| matches!(w.site, SITE_USER | SITE_PRODUCED) && w.region == Some(x) && w.write_idx.contains(&li))
                            });
                        let sig = if window {
                            format!("C13/{name}/write-during-region-init/lost")
                        } else if run.writes.iter().any(|w| w.value == r.value && w.region != Some(x)) {
                            format!("C13/{name}/quiescent/value-of-another-region")
                        } else {
                            format!("C13/{name}/quiescent/wrong-value")
                        };
                        let msg = format!(
                            "after all writes returned, thread {} in region index {x} reads {:?}; the last write in that region was {:?}{}",
                            r.thread,
                            r.value,
                            last_in_region[x],
                            if window { " (a set_local completed while the region's initialiser was running and was overwritten by the initial value)" } else { "" }
                        );
                        if !ctx.tolerate(&sig) {
                            return Err(Failure::new(sig, msg));
                        }
                    }
                }
                None => {
                    if !last_in_region.contains(&r.value) {
                        return Err(Failure::new(
                            format!("C13/{name}/quiescent/unpinned-value-of-no-region"),
                            format!("unpinned thread {} reads {:?}; region values are {:?}", r.thread, r.value, last_in_region),
                        ));
                    }
                }
            }
        }
    }

    // --- every value read was written (or is the initial value)
    for r in &run.reads {
        let known = r.value == INIT || run.writes.iter().any(|w| w.value == r.value && w.start < r.end);
        if !known {
            return Err(Failure::new(
                format!("C13/{name}/read/never-written-value"),
                format!("thread {} read {:?}, which nobody had written", r.thread, r.value),
            ));
        }
    }

    // A read made while an initialiser of the same region is parked between installing its
    // regional copy and re-checking the latest generation, returning exactly that copy.
    let transient = |ri: usize, r: &ReadRec| -> bool {
        run.windows.iter().any(|w| w.site == SITE_INSTALLED && w.region.is_some() && w.region == r.region && w.holding == Some(r.value) && w.read_idx.contains(&ri))
    };
    let transient_sig = format!("C13/{name}/stale-copy-visible-between-install-and-recheck");

    // --- a pinned thread that writes then reads sees its own write unless another write came in between
    for (ri, r) in run.reads.iter().enumerate() {
        let (Some(wi), Some(x)) = (r.own_prev, r.region) else { continue };
        let own = &run.writes[wi];
        if own.region != Some(x) {
            continue;
        }
        // "in between" = any write of another thread that overlaps [own write dispatched, read returned]
        let other = run
            .writes
            .iter()
            .enumerate()
            .any(|(i, w)| i != wi && w.thread != r.thread && w.end > own.start && w.start < r.end && (cached || w.region == Some(x)));
        if !other && r.value != own.value {
            let sig = if transient(ri, r) { transient_sig.clone() } else { format!("C13/{name}/own-write/not-visible") };
            if !ctx.tolerate(&sig) {
                return Err(Failure::new(
                    sig,
                    format!(
                        "thread {} (region index {x}) wrote {:?} and then read {:?}; no other write completed in between",
                        r.thread, own.value, r.value
                    ),
                ));
            }
        }
    }

    // --- one writer's values are never seen out of order by one reader
    let mut seen: BTreeMap<(usize, u8, usize), u32> = BTreeMap::new();
    for (ri, r) in run.reads.iter().enumerate() {
        if r.value == INIT {
            continue;
        }
        // Sequencing is promised to readers that stay in one region ("reads on region-pinned
        // threads"): judged per (reader, region); reads from an unknown region are not judged.
        let Some(scope) = r.region else { continue };
        let e = seen.entry((r.thread, r.value.writer, scope)).or_insert(0);
        if r.value.seq < *e {
            let sig = if transient(ri, r) { transient_sig.clone() } else { format!("C13/{name}/reader-order/went-backwards") };
            if !ctx.tolerate(&sig) {
                return Err(Failure::new(
                    sig,
                    format!("thread {} saw writer {}'s seq {} after its seq {}", r.thread, r.value.writer, r.value.seq, *e),
                ));
            }
        } else {
            *e = r.value.seq;
        }
    }
    Ok(())
}

const RULE: &str = "generated fake hardware (1..8 regions, sparse ids) x 2..8 threads (pinned before acquire / pinned after acquire and migrating / unpinned; four linked access paths; kept or per-op instances) x totally ordered steps (with, get, set, move) x gates (reader r, k-th Clone callback [region_local: r's next initialiser callback, actors drawn from the threads in that region] -> complete operations of other threads run inside the initialisation window, nested up to depth 3), followed by a quiescent read of every thread and of every region; one thread acts at a time, nothing depends on timing; non-trivial = at least one gate fired and at least one write (region_local: to that region) completed inside its initialisation window; distinct by serialised case";

fn main() {
    if vcommon::worker::worker_role().is_some() {
        region_cached::__verif::install_point_hook(Some(point_hook));
        region_local::__verif::install_point_hook(Some(point_hook));
        let mut cached_pool: Option<Pool> = None;
        let mut local_pool: Option<Pool> = None;
        vcommon::worker::serve(|line| {
            let reply = match serde_json::from_str::<Request>(line) {
                Ok(req) => {
                    if req.fast {
                        FAILED_ONCE.store(true, Ordering::Relaxed);
                    }
                    if req.cached {
                        exec_case::<CachedKind>(&req.case, &mut cached_pool)
                    } else {
                        exec_case::<LocalKind>(&req.case, &mut local_pool)
                    }
                }
                Err(e) => ChildReply::Protocol(format!("unreadable request: {e}")),
            };
            serde_json::to_string(&reply).expect("serialise reply")
        });
    }
    let mut h = Harness::from_args("C13");
    let cases = h.cases(12_000, 800_000);
    let mut exec = Worker::spawn("exec");
    let mut failed = false;
    h.section("region_cached", RULE, cases, case_strategy(), |case, ctx| check_case("region_cached", true, case, ctx, &mut exec, &mut failed));
    h.section("region_local", RULE, cases, case_strategy(), |case, ctx| check_case("region_local", false, case, ctx, &mut exec, &mut failed));
    exec.kill();
    h.finish()
}
