//! Schedule engine (E2): a byte-driven deterministic scheduler over real OS threads plus a
//! vector-clock model of C11 release/acquire that is fed by the repo-side sync shim.
//!
//! * Exactly one task thread runs at a time ("baton"). Every shimmed atomic operation, fence,
//!   spin hint and mutex acquisition is a scheduling point: the next decision byte chooses which
//!   runnable task performs its pending operation next. `0` continues the current task, so
//!   shrinking a schedule toward zeros/shorter means fewer pre-emptions. When the bytes run out
//!   the current task continues until it finishes, spins or blocks.
//! * The model keeps a vector clock per task, a store history per atomic location (with release
//!   clocks and release sequences continued by RMWs), pending-acquire / release-fence state, and
//!   clocks for mutexes. Loads may be served an *older* store that coherence and happens-before
//!   still allow (choice taken from the schedule bytes, biased to the latest).
//! * Harness-owned "HB objects" stand for the non-atomic cells of a protocol. Two conflicting
//!   accesses by different tasks must be ordered by the modelled happens-before, else a race is
//!   recorded - this is how a missing Acquire/Release shows up on x86.
//!
//! Limits: SC interleavings + stale loads + missing-HB detection; no load buffering, no
//! out-of-thin-air, no non-multi-copy-atomic effects; SeqCst is treated as AcqRel.

use std::cell::Cell;
use std::collections::HashMap;
use std::panic::{AssertUnwindSafe, catch_unwind};
use std::sync::atomic::{AtomicBool, AtomicUsize, Ordering};
use std::sync::mpsc::{Receiver, Sender, channel};
use std::sync::{Arc, Mutex, MutexGuard};

// ------------------------------------------------------------------------------------------------
// vector clocks

#[derive(Clone, Debug, Default, PartialEq, Eq)]
pub struct VC(Vec<u32>);

impl VC {
    fn new(n: usize) -> Self {
        VC(vec![0; n])
    }
    fn join(&mut self, other: &VC) {
        for (a, b) in self.0.iter_mut().zip(other.0.iter()) {
            if *b > *a {
                *a = *b;
            }
        }
    }
    fn get(&self, i: usize) -> u32 {
        self.0.get(i).copied().unwrap_or(0)
    }
}

#[derive(Clone, Copy, Debug, PartialEq, Eq)]
pub enum OpKind {
    Load,
    Store,
    Rmw,
    Cas,
}

struct StoreRec {
    value: u64,
    writer: usize,
    epoch: u32,
    /// clock a reader with acquire semantics synchronises with (None = nothing released)
    rel: Option<VC>,
}

#[derive(Default)]
struct Location {
    stores: Vec<StoreRec>,
    /// per task: index of the newest store this task has observed (coherence)
    seen: HashMap<usize, usize>,
    /// per task: epoch of the task's latest access to this location
    last_access: HashMap<usize, u32>,
    /// largest value ever stored (a reference count exceeds 1, a flag never does)
    max_value: u64,
}

#[derive(Clone, Copy, Debug, PartialEq, Eq)]
pub enum Access {
    Read,
    Write,
}

#[derive(Default)]
struct HbObject {
    name: String,
    accesses: Vec<(usize, u32, Access)>,
}

#[derive(Clone, Debug)]
pub struct Race {
    pub object: String,
    pub first_task: usize,
    pub first: String,
    pub second_task: usize,
    pub second: String,
}

#[derive(Clone, Copy, PartialEq, Eq, Debug)]
enum Status {
    Runnable,
    /// asked to be descheduled once (spin hint / failed try_lock)
    Yielded,
    Finished,
}

struct TaskModel {
    clock: VC,
    acq_pending: VC,
    rel_fence: Option<VC>,
}

struct State {
    ntasks: usize,
    current: usize,
    status: Vec<Status>,
    bytes: Vec<u8>,
    pos: usize,
    steps: u64,
    max_steps: u64,
    free_run: bool,
    stale_loads: bool,
    // model
    tasks: Vec<TaskModel>,
    locs: HashMap<usize, Location>,
    mutexes: HashMap<usize, VC>,
    objects: Vec<HbObject>,
    races: Vec<Race>,
    // statistics
    switches: u64,
    preemptions: u64,
    stale_taken: u64,
    trace: Vec<String>,
    trace_on: bool,
    releases: Vec<ReleaseRec>,
    free_on_zero: bool,
    dead_counters: HashMap<usize, usize>,
    use_after_free: Vec<String>,
    handovers: HashMap<usize, VC>,
}

#[derive(Clone, Debug)]
pub struct ReleaseRec {
    pub addr: usize,
    pub size: usize,
    pub task: usize,
    /// tasks whose earlier accesses to the storage do not happen-before this release
    pub unordered_with: Vec<usize>,
}

struct Shared {
    state: Mutex<State>,
    /// index of the task holding the baton (mirrors `State::current`)
    turn: AtomicUsize,
    free_run: AtomicBool,
    threads: Mutex<Vec<Option<std::thread::Thread>>>,
}

impl Shared {
    /// Blocks task `t` until it holds the baton (or the execution runs freely).
    fn wait_turn(&self, t: usize) {
        let mut spins = 0u32;
        loop {
            if self.turn.load(Ordering::Acquire) == t || self.free_run.load(Ordering::Acquire) {
                return;
            }
            spins += 1;
            if spins < 300 {
                std::hint::spin_loop();
            } else {
                std::thread::park_timeout(std::time::Duration::from_micros(500));
            }
        }
    }

    fn hand_to(&self, next: usize) {
        self.turn.store(next, Ordering::Release);
        let th = self.threads.lock().unwrap_or_else(|e| e.into_inner());
        if let Some(Some(t)) = th.get(next) {
            t.unpark();
        }
    }

    fn set_free_run(&self) {
        self.free_run.store(true, Ordering::Release);
        let th = self.threads.lock().unwrap_or_else(|e| e.into_inner());
        for t in th.iter().flatten() {
            t.unpark();
        }
    }
}

thread_local! {
    static TASK: Cell<Option<usize>> = const { Cell::new(None) };
}

static ACTIVE: Mutex<Option<Arc<Shared>>> = Mutex::new(None);

fn active() -> Option<Arc<Shared>> {
    ACTIVE.lock().unwrap_or_else(|e| e.into_inner()).clone()
}

fn me() -> Option<usize> {
    TASK.with(Cell::get)
}

fn lock(sh: &Shared) -> MutexGuard<'_, State> {
    sh.state.lock().unwrap_or_else(|e| e.into_inner())
}

impl State {
    fn next_byte(&mut self) -> u8 {
        let b = self.bytes.get(self.pos).copied().unwrap_or(0);
        self.pos += 1;
        b
    }

    /// Chooses the task that runs next. `must_switch`: the current task asked to be descheduled.
    fn choose(&mut self, must_switch: bool) -> Option<usize> {
        let cur = self.current;
        let runnable: Vec<usize> = (0..self.ntasks).filter(|t| self.status[*t] != Status::Finished).collect();
        if runnable.is_empty() {
            return None;
        }
        let cur_ok = runnable.contains(&cur);
        let b = self.next_byte();
        let others: Vec<usize> = runnable.iter().copied().filter(|t| *t != cur).collect();
        let pick = if cur_ok && !must_switch && (b == 0 || others.is_empty()) {
            cur
        } else if others.is_empty() {
            cur
        } else if cur_ok && !must_switch {
            // b in 1..=255: 1..=127 continue, 128.. switch (keeps long runs likely)
            if b < 128 {
                cur
            } else {
                others[usize::from(b - 128) * others.len() / 128]
            }
        } else if self.pos > self.bytes.len() {
            // no decision bytes left and the current task cannot continue: round-robin, so that a
            // task spinning on a lock never starves the lock holder
            *others.iter().find(|t| **t > cur).unwrap_or(&others[0])
        } else {
            others[usize::from(b) * others.len() / 256]
        };
        if pick != cur {
            self.switches += 1;
            if cur_ok && !must_switch {
                self.preemptions += 1;
            }
        }
        Some(pick)
    }
}

/// Scheduling point of task `t`: blocks until the scheduler hands the baton back to `t`.
fn switch_point(sh: &Shared, t: usize, must_switch: bool) {
    if sh.free_run.load(Ordering::Acquire) {
        return;
    }
    let next = {
        let mut st = lock(sh);
        st.steps += 1;
        if st.steps > st.max_steps {
            st.free_run = true;
            drop(st);
            sh.set_free_run();
            return;
        }
        let next = st.choose(must_switch);
        if let Some(n) = next {
            st.current = n;
        }
        next
    };
    if let Some(next) = next {
        if next != t {
            sh.hand_to(next);
            sh.wait_turn(t);
        }
    }
}

fn is_acquire(o: Ordering) -> bool {
    matches!(o, Ordering::Acquire | Ordering::AcqRel | Ordering::SeqCst)
}

fn is_release(o: Ordering) -> bool {
    matches!(o, Ordering::Release | Ordering::AcqRel | Ordering::SeqCst)
}

impl State {
    fn tick(&mut self, t: usize) -> u32 {
        let c = &mut self.tasks[t].clock.0[t];
        *c += 1;
        *c
    }

    fn read_sync(&mut self, t: usize, rel: Option<VC>, acquire: bool) {
        if let Some(rel) = rel {
            if acquire {
                self.tasks[t].clock.join(&rel);
            } else {
                self.tasks[t].acq_pending.join(&rel);
            }
        }
    }

    /// Models one atomic access performed by task `t`; returns the value the access reports.
    fn atomic(&mut self, t: usize, addr: usize, kind: OpKind, success: Ordering, failure: Ordering, old: u64, new: Option<u64>) -> u64 {
        let epoch = self.tick(t);
        let n = self.ntasks + 1;
        let loc = self.locs.entry(addr).or_default();
        // The memory at this address was re-initialised behind the model's back (a new object
        // constructed at a recycled address: constructors are not atomic operations): what the
        // real operation read differs from the model's newest store. Start a fresh history.
        if loc.stores.last().is_some_and(|s| s.value != old) {
            *loc = Location::default();
        }
        if loc.stores.is_empty() {
            // initial value: written before any task started (happens-before everything)
            loc.stores.push(StoreRec {
                value: old,
                writer: n - 1,
                epoch: 0,
                rel: None,
            });
        }
        loc.last_access.insert(t, epoch);
        loc.max_value = loc.max_value.max(old).max(new.unwrap_or(0));
        let latest = loc.stores.len() - 1;
        match kind {
            OpKind::Load => {
                // coherence floor: newest store already observed, or that happens-before us
                let mut floor = loc.seen.get(&t).copied().unwrap_or(0);
                let clock = &self.tasks[t].clock;
                for (i, s) in loc.stores.iter().enumerate().rev() {
                    if i <= floor {
                        break;
                    }
                    if s.epoch <= clock.get(s.writer) {
                        floor = i;
                        break;
                    }
                }
                let mut idx = latest;
                if self.stale_loads && floor < latest {
                    let b = self.bytes.get(self.pos).copied().unwrap_or(0);
                    self.pos += 1;
                    // 3 of 4 decisions read the latest store
                    if b >= 192 {
                        let span = latest - floor;
                        idx = floor + usize::from(b - 192) * span / 64;
                        if idx != latest {
                            self.stale_taken += 1;
                        }
                    }
                }
                let loc = self.locs.get_mut(&addr).expect("present");
                loc.seen.insert(t, idx);
                let rel = loc.stores[idx].rel.clone();
                let value = loc.stores[idx].value;
                self.read_sync(t, rel, is_acquire(success));
                value
            }
            OpKind::Store => {
                let rel = if is_release(success) { Some(self.tasks[t].clock.clone()) } else { self.tasks[t].rel_fence.clone() };
                let loc = self.locs.get_mut(&addr).expect("present");
                loc.stores.push(StoreRec {
                    value: new.unwrap_or(old),
                    writer: t,
                    epoch,
                    rel,
                });
                let idx = loc.stores.len() - 1;
                loc.seen.insert(t, idx);
                old
            }
            OpKind::Rmw | OpKind::Cas => {
                let prev_rel = loc.stores[latest].rel.clone();
                match new {
                    Some(newv) => {
                        self.read_sync(t, prev_rel.clone(), is_acquire(success));
                        // release sequence: an RMW continues the sequence headed by earlier releases
                        let mut rel = prev_rel;
                        let own = if is_release(success) { Some(self.tasks[t].clock.clone()) } else { self.tasks[t].rel_fence.clone() };
                        if let Some(own) = own {
                            match &mut rel {
                                Some(r) => r.join(&own),
                                None => rel = Some(own),
                            }
                        }
                        let loc = self.locs.get_mut(&addr).expect("present");
                        loc.stores.push(StoreRec {
                            value: newv,
                            writer: t,
                            epoch,
                            rel,
                        });
                        let idx = loc.stores.len() - 1;
                        loc.seen.insert(t, idx);
                    }
                    None => {
                        // failed compare-exchange: a load with the failure ordering
                        let loc = self.locs.get_mut(&addr).expect("present");
                        loc.seen.insert(t, latest);
                        self.read_sync(t, prev_rel, is_acquire(failure));
                    }
                }
                old
            }
        }
    }

    fn fence(&mut self, t: usize, order: Ordering) {
        self.tick(t);
        if is_acquire(order) {
            let pending = self.tasks[t].acq_pending.clone();
            self.tasks[t].clock.join(&pending);
        }
        if is_release(order) {
            self.tasks[t].rel_fence = Some(self.tasks[t].clock.clone());
        }
    }

    fn access(&mut self, t: usize, obj: usize, kind: Access, what: &str) {
        let epoch = self.tick(t);
        let clock = self.tasks[t].clock.clone();
        let o = &mut self.objects[obj];
        for (u, e, k) in &o.accesses {
            if *u != t && (*k == Access::Write || kind == Access::Write) && *e > clock.get(*u) {
                let race = Race {
                    object: o.name.clone(),
                    first_task: *u,
                    first: format!("{k:?}"),
                    second_task: t,
                    second: format!("{kind:?} ({what})"),
                };
                self.races.push(race);
                break;
            }
        }
        o.accesses.push((t, epoch, kind));
    }
}

impl State {
    /// An access to a counter that already dropped to zero (and was not re-initialised since).
    fn refcount_watch(&mut self, t: usize, addr: usize, kind: OpKind, old: u64, new: Option<u64>) {
        if let Some(by) = self.dead_counters.get(&addr).copied() {
            if old == 0 {
                self.use_after_free.push(format!("task {t} performed {kind:?} (read 0, wrote {new:?}) on a reference count that task {by} had already dropped to zero"));
            }
            // either way the location is being re-used or was reported: stop watching
            self.dead_counters.remove(&addr);
        }
    }

    fn refcount_zero(&mut self, t: usize, addr: usize) {
        let is_counter = self.locs.get(&addr).is_some_and(|l| l.max_value >= 2);
        if !is_counter {
            return;
        }
        let clock = self.tasks[t].clock.clone();
        let mut unordered = Vec::new();
        for a in [addr, addr.wrapping_sub(8), addr + 8] {
            let Some(loc) = self.locs.get(&a) else { continue };
            if a != addr && loc.max_value >= 2 {
                continue; // a neighbouring counter, not this object's flag word
            }
            for (u, e) in &loc.last_access {
                if *u != t && *e > clock.get(*u) && !unordered.contains(u) {
                    unordered.push(*u);
                }
            }
        }
        self.dead_counters.insert(addr, t);
        self.releases.push(ReleaseRec {
            addr,
            size: 8,
            task: t,
            unordered_with: unordered,
        });
    }
}

fn task_or_main(sh: &Shared) -> usize {
    me().unwrap_or_else(|| lock(sh).ntasks)
}

// ------------------------------------------------------------------------------------------------
// hook entry points (called from the repo-side shim through plain fn pointers)

pub fn hook_atomic(addr: usize, kind: OpKind, success: Ordering, failure: Ordering, exec: &mut dyn FnMut() -> (u64, Option<u64>)) -> u64 {
    let Some(sh) = active() else {
        return exec().0;
    };
    let t = task_or_main(&sh);
    if me().is_some() {
        switch_point(&sh, t, false);
    }
    let (old, new) = exec();
    let mut st = lock(&sh);
    if st.free_on_zero {
        st.refcount_watch(t, addr, kind, old, new);
    }
    let v = st.atomic(t, addr, kind, success, failure, old, new);
    if st.free_on_zero && kind == OpKind::Rmw && old == 1 && new == Some(0) {
        st.refcount_zero(t, addr);
    }
    if st.trace_on {
        let line = format!("t{t} {kind:?} @{:x} {success:?} old={old} new={new:?} -> {v}", addr & 0xfff);
        st.trace.push(line);
    }
    v
}

pub fn hook_fence(order: Ordering) {
    let Some(sh) = active() else { return };
    let t = task_or_main(&sh);
    if me().is_some() {
        switch_point(&sh, t, false);
    }
    let mut st = lock(&sh);
    st.fence(t, order);
    if st.trace_on {
        st.trace.push(format!("t{t} fence {order:?}"));
    }
}

pub fn hook_spin() {
    let Some(sh) = active() else {
        std::hint::spin_loop();
        return;
    };
    if let Some(t) = me() {
        let free = sh.free_run.load(Ordering::Acquire);
        if free {
            std::thread::yield_now();
        } else {
            switch_point(&sh, t, true);
        }
    }
}

pub fn hook_mutex_lock(addr: usize, try_lock: &mut dyn FnMut() -> bool) {
    let Some(sh) = active() else {
        while !try_lock() {
            std::thread::yield_now();
        }
        return;
    };
    let t = task_or_main(&sh);
    let mut first = true;
    loop {
        if me().is_some() {
            switch_point(&sh, t, !first);
        }
        first = false;
        if try_lock() {
            break;
        }
        if sh.free_run.load(Ordering::Acquire) || me().is_none() {
            std::thread::yield_now();
        }
    }
    let mut st = lock(&sh);
    st.tick(t);
    if let Some(c) = st.mutexes.get(&addr).cloned() {
        st.tasks[t].clock.join(&c);
    }
    if st.trace_on {
        st.trace.push(format!("t{t} lock @{:x}", addr & 0xfff));
    }
}

pub fn hook_mutex_unlock(addr: usize) {
    let Some(sh) = active() else { return };
    let t = task_or_main(&sh);
    let mut st = lock(&sh);
    st.tick(t);
    let c = st.tasks[t].clock.clone();
    st.mutexes.insert(addr, c);
    if st.trace_on {
        st.trace.push(format!("t{t} unlock @{:x}", addr & 0xfff));
    }
    drop(st);
    // releasing a lock is a scheduling point too: another task may get in before the releasing
    // task's next instruction (e.g. before a destructor that runs right after the unlock)
    if me().is_some() {
        switch_point(&sh, t, false);
    }
}

/// Release notification (hook H4): every earlier access of *other* tasks to atomics inside
/// `[addr, addr+size)` must happen-before the release. The locations are then forgotten (the
/// storage may be re-used by a new event).
pub fn hook_release(addr: usize, size: usize) {
    let Some(sh) = active() else { return };
    let t = task_or_main(&sh);
    let mut st = lock(&sh);
    st.tick(t);
    let clock = st.tasks[t].clock.clone();
    let mut unordered = Vec::new();
    let keys: Vec<usize> = st.locs.keys().copied().filter(|a| *a >= addr && *a < addr + size).collect();
    for k in &keys {
        if let Some(loc) = st.locs.get(k) {
            for (u, e) in &loc.last_access {
                if *u != t && *e > clock.get(*u) && !unordered.contains(u) {
                    unordered.push(*u);
                }
            }
        }
    }
    for k in keys {
        st.locs.remove(&k);
    }
    if st.trace_on {
        st.trace.push(format!("t{t} RELEASE @{:x}+{size} unordered_with={unordered:?}", addr & 0xfff));
    }
    st.releases.push(ReleaseRec {
        addr,
        size,
        task: t,
        unordered_with: unordered,
    });
}

// ------------------------------------------------------------------------------------------------
// harness API

#[derive(Clone, Copy, Debug)]
pub struct ObjId(usize);

/// Registers a harness-owned object that stands for a non-atomic cell of the protocol.
pub fn new_object(name: &str) -> ObjId {
    let sh = active().expect("vsched::new_object outside an execution");
    let mut st = lock(&sh);
    st.objects.push(HbObject {
        name: name.to_string(),
        accesses: Vec::new(),
    });
    ObjId(st.objects.len() - 1)
}

/// Records an access of the calling task to `obj`; conflicting unordered accesses are races.
pub fn access(obj: ObjId, kind: Access, what: &str) {
    let Some(sh) = active() else { return };
    let t = task_or_main(&sh);
    let mut st = lock(&sh);
    st.access(t, obj.0, kind, what);
}

/// Models an external hand-over (channel, lock, Arc) between harness tasks: `hb_send` publishes
/// the calling task's clock under `key`, `hb_recv` makes everything published under `key` happen
/// before the calling task's next step.
pub fn hb_send(key: usize) {
    let Some(sh) = active() else { return };
    let t = task_or_main(&sh);
    let mut st = lock(&sh);
    st.tick(t);
    let c = st.tasks[t].clock.clone();
    match st.handovers.get_mut(&key) {
        Some(old) => old.join(&c),
        None => {
            st.handovers.insert(key, c);
        }
    }
}

pub fn hb_recv(key: usize) {
    let Some(sh) = active() else { return };
    let t = task_or_main(&sh);
    let mut st = lock(&sh);
    if let Some(c) = st.handovers.get(&key).cloned() {
        st.tasks[t].clock.join(&c);
    }
}

/// An explicit scheduling point for harness code (e.g. between two endpoint operations).
pub fn yield_point() {
    let Some(sh) = active() else { return };
    if let Some(t) = me() {
        switch_point(&sh, t, false);
    }
}

/// The calling task's current vector clock (one component per task plus the harness thread).
pub fn clock_snapshot() -> Vec<u32> {
    let Some(sh) = active() else { return Vec::new() };
    let t = task_or_main(&sh);
    let st = lock(&sh);
    st.tasks[t].clock.0.clone()
}

pub fn current_task() -> Option<usize> {
    me()
}

#[derive(Debug, Default, Clone)]
pub struct Outcome {
    pub steps: u64,
    pub switches: u64,
    pub preemptions: u64,
    pub stale_taken: u64,
    pub bytes_used: usize,
    pub step_bound_hit: bool,
    /// free-run after the step bound did not finish within the wall-clock guard
    pub hung: bool,
    pub races: Vec<Race>,
    pub releases: Vec<ReleaseRec>,
    pub use_after_free: Vec<String>,
    pub panics: Vec<(usize, String)>,
    pub trace: Vec<String>,
}

pub struct Config {
    pub max_steps: u64,
    pub stale_loads: bool,
    pub trace: bool,
    /// Treat "an RMW takes a counter that has been >= 2 from 1 to 0" as the release of the object
    /// holding it (reference-counted metadata): every earlier access of other tasks to that
    /// counter and to flag words directly next to it must happen-before it, and any later access
    /// to the dead counter is recorded as a use after free.
    pub free_on_refcount_zero: bool,
}

impl Default for Config {
    fn default() -> Self {
        Self {
            max_steps: 20_000,
            stale_loads: true,
            trace: false,
            free_on_refcount_zero: false,
        }
    }
}

pub type TaskFn = Box<dyn FnOnce() + Send + 'static>;

struct Job {
    index: usize,
    shared: Arc<Shared>,
    f: TaskFn,
    done: Sender<(usize, Option<String>)>,
}

static WORKERS: Mutex<Vec<Sender<Job>>> = Mutex::new(Vec::new());

fn worker_loop(rx: Receiver<Job>) {
    while let Ok(job) = rx.recv() {
        let Job { index, shared, f, done } = job;
        TASK.with(|t| t.set(Some(index)));
        if let Some(slot) = shared.threads.lock().unwrap_or_else(|e| e.into_inner()).get_mut(index) {
            *slot = Some(std::thread::current());
        }
        shared.wait_turn(index);
        let r = catch_unwind(AssertUnwindSafe(f));
        let next = {
            let mut st = lock(&shared);
            st.status[index] = Status::Finished;
            if shared.free_run.load(Ordering::Acquire) {
                None
            } else {
                let n = st.choose(true);
                if let Some(n) = n {
                    st.current = n;
                }
                n
            }
        };
        if let Some(next) = next {
            shared.hand_to(next);
        }
        TASK.with(|t| t.set(None));
        let msg = r.err().map(|p| {
            if let Some(s) = p.downcast_ref::<&'static str>() {
                (*s).to_string()
            } else if let Some(s) = p.downcast_ref::<String>() {
                s.clone()
            } else {
                "<non-string panic>".to_string()
            }
        });
        drop(shared);
        let _ = done.send((index, msg));
    }
}

/// Persistent task threads (thread-locals of the code under test persist across executions,
/// exactly as they do for a long-lived application thread).
fn take_workers(n: usize) -> Vec<Sender<Job>> {
    let mut pool = WORKERS.lock().unwrap_or_else(|e| e.into_inner());
    let mut v = Vec::with_capacity(n);
    for i in 0..n {
        match pool.pop() {
            Some(w) => v.push(w),
            None => {
                let (tx, rx) = channel::<Job>();
                std::thread::Builder::new()
                    .name(format!("vsched-worker-{i}"))
                    .stack_size(4 << 20)
                    .spawn(move || worker_loop(rx))
                    .expect("spawn worker");
                v.push(tx);
            }
        }
    }
    v
}

fn return_workers(v: Vec<Sender<Job>>) {
    WORKERS.lock().unwrap_or_else(|e| e.into_inner()).extend(v);
}

static RUN_LOCK: Mutex<()> = Mutex::new(());

/// Runs `tasks` to completion under the schedule `bytes`. `setup` runs on the calling thread
/// before the tasks start (its effects happen-before every task) and builds the task closures.
pub fn run<S>(bytes: &[u8], cfg: &Config, setup: S) -> Outcome
where
    S: FnOnce() -> Vec<TaskFn>,
{
    run_with_finale(bytes, cfg, setup, || {})
}

/// Like [`run`]; `finale` runs on the calling thread after every task has been joined (ordered
/// after everything the tasks did) while the model is still recording, e.g. to poll a parked
/// receiver and drop the last endpoint. It is skipped when the execution hung.
pub fn run_with_finale<S, F>(bytes: &[u8], cfg: &Config, setup: S, finale: F) -> Outcome
where
    S: FnOnce() -> Vec<TaskFn>,
    F: FnOnce(),
{
    let _serial = RUN_LOCK.lock().unwrap_or_else(|e| e.into_inner());
    // the model needs the task count up front; tasks are created by `setup` under an active
    // execution so that objects can be registered there
    let sh = Arc::new(Shared {
        state: Mutex::new(State {
            ntasks: 0,
            current: usize::MAX,
            status: Vec::new(),
            bytes: bytes.to_vec(),
            pos: 0,
            steps: 0,
            max_steps: cfg.max_steps,
            free_run: false,
            stale_loads: cfg.stale_loads,
            tasks: vec![TaskModel {
                clock: VC::new(1),
                acq_pending: VC::new(1),
                rel_fence: None,
            }],
            locs: HashMap::new(),
            mutexes: HashMap::new(),
            objects: Vec::new(),
            races: Vec::new(),
            switches: 0,
            preemptions: 0,
            stale_taken: 0,
            trace: Vec::new(),
            trace_on: cfg.trace,
            releases: Vec::new(),
            free_on_zero: cfg.free_on_refcount_zero,
            dead_counters: HashMap::new(),
            use_after_free: Vec::new(),
            handovers: HashMap::new(),
        }),
        turn: AtomicUsize::new(usize::MAX),
        free_run: AtomicBool::new(false),
        threads: Mutex::new(Vec::new()),
    });
    *ACTIVE.lock().unwrap_or_else(|e| e.into_inner()) = Some(Arc::clone(&sh));
    // setup phase: the main thread is "task 0 of 0" (index ntasks = 0)
    let tasks = setup();
    let n = tasks.len();
    {
        let mut st = lock(&sh);
        // re-dimension: main thread becomes index n; its setup accesses were recorded as index 0
        // with a 1-wide clock. Translate by giving every task the main clock as its start.
        let main_epoch = st.tasks[0].clock.get(0);
        st.ntasks = n;
        st.status = vec![Status::Runnable; n];
        let mut start = VC::new(n + 1);
        start.0[n] = main_epoch;
        st.tasks = (0..=n)
            .map(|_| TaskModel {
                clock: start.clone(),
                acq_pending: VC::new(n + 1),
                rel_fence: None,
            })
            .collect();
        // setup-time records: attribute them to the main index n
        for loc in st.locs.values_mut() {
            for s in &mut loc.stores {
                if s.writer == 0 {
                    s.writer = n;
                }
                s.rel = None;
            }
            let main_seen = loc.seen.remove(&0);
            loc.seen.clear();
            let _ = main_seen;
            let la = loc.last_access.remove(&0);
            loc.last_access.clear();
            if let Some(e) = la {
                loc.last_access.insert(n, e);
            }
        }
        for o in &mut st.objects {
            for a in &mut o.accesses {
                a.0 = n;
            }
        }
        st.handovers.clear();
        for v in st.mutexes.values_mut() {
            let mut c = VC::new(n + 1);
            c.0[n] = v.get(0);
            *v = c;
        }
        // first decision: who starts
        st.current = 0;
        if n > 0 {
            let b = st.next_byte();
            st.current = usize::from(b) * n / 256;
        }
    }
    sh.turn.store(lock(&sh).current, Ordering::Release);
    *sh.threads.lock().unwrap_or_else(|e| e.into_inner()) = vec![None; n];
    let (done_tx, done_rx) = channel::<(usize, Option<String>)>();
    let workers = take_workers(n);
    for (i, f) in tasks.into_iter().enumerate() {
        let job = Job {
            index: i,
            shared: Arc::clone(&sh),
            f,
            done: done_tx.clone(),
        };
        workers[i].send(job).expect("worker alive");
    }
    drop(done_tx);
    // wait for completion; after the step bound the tasks run freely and a wall-clock guard
    // distinguishes "long" from "never"
    let mut hung = false;
    let mut panics = Vec::new();
    let mut finished = 0usize;
    let mut free_since: Option<std::time::Instant> = None;
    while finished < n {
        match done_rx.recv_timeout(std::time::Duration::from_millis(50)) {
            Ok((i, msg)) => {
                finished += 1;
                if let Some(m) = msg {
                    panics.push((i, m));
                }
            }
            Err(_) => {
                if sh.free_run.load(Ordering::Acquire) {
                    let since = *free_since.get_or_insert_with(std::time::Instant::now);
                    if since.elapsed() > std::time::Duration::from_secs(5) {
                        hung = true;
                        break;
                    }
                }
            }
        }
    }
    if hung {
        // the stuck worker threads can never be reused
        drop(workers);
    } else {
        return_workers(workers);
    }
    if !hung {
        // join edges: the main thread sees everything the tasks did
        let mut st = lock(&sh);
        let n = st.ntasks;
        for i in 0..n {
            let c = st.tasks[i].clock.clone();
            st.tasks[n].clock.join(&c);
        }
        drop(st);
        if let Err(p) = catch_unwind(AssertUnwindSafe(finale)) {
            let msg = if let Some(s) = p.downcast_ref::<&'static str>() {
                (*s).to_string()
            } else if let Some(s) = p.downcast_ref::<String>() {
                s.clone()
            } else {
                "<non-string panic>".to_string()
            };
            panics.push((n, msg));
        }
    }
    *ACTIVE.lock().unwrap_or_else(|e| e.into_inner()) = None;
    let st = lock(&sh);
    Outcome {
        steps: st.steps,
        switches: st.switches,
        preemptions: st.preemptions,
        stale_taken: st.stale_taken,
        bytes_used: st.pos.min(st.bytes.len()),
        step_bound_hit: st.free_run,
        hung,
        races: st.races.clone(),
        releases: st.releases.clone(),
        use_after_free: st.use_after_free.clone(),
        panics,
        trace: st.trace.clone(),
    }
}

/// Keeps the execution context alive for checks that the harness performs after `run` returned
/// is not needed: `run` joins every task, so post-run code is ordered after all of them.
pub fn _doc() {}

/// Builds `Hooks` for one crate's copy of the sync shim and installs them.
#[macro_export]
macro_rules! install_shim {
    ($krate:ident) => {{
        use $krate::__verif as v;
        fn kind(op: v::AtomicOp) -> $crate::OpKind {
            match op {
                v::AtomicOp::Load => $crate::OpKind::Load,
                v::AtomicOp::Store => $crate::OpKind::Store,
                v::AtomicOp::Rmw => $crate::OpKind::Rmw,
                v::AtomicOp::Cas => $crate::OpKind::Cas,
            }
        }
        fn atomic(addr: usize, op: v::AtomicOp, s: std::sync::atomic::Ordering, f: std::sync::atomic::Ordering, exec: &mut dyn FnMut() -> (u64, Option<u64>)) -> u64 {
            $crate::hook_atomic(addr, kind(op), s, f, exec)
        }
        v::install(Some(v::Hooks {
            atomic,
            fence: $crate::hook_fence,
            spin: $crate::hook_spin,
            mutex_lock: $crate::hook_mutex_lock,
            mutex_unlock: $crate::hook_mutex_unlock,
        }));
    }};
}
