//! C16 — metrics reports account for every observation exactly once.
//!
//! Generator: 1..4 event configurations (0..80 strictly ascending bucket bounds, negatives and
//! `i64::MIN` / `i64::MAX - 1` edges, more than 63 buckets heavily weighted) x 1..8 real OS threads,
//! each with its own `MetricsPusher`s and its own pull- or push-model `Event` per name, running a
//! phase-structured script of `observe`, `observe_once`, `batch(n).observe*` (n incl. 0),
//! `observe_millis`, `observe_duration_millis`, `push()`, `Report::collect()` and thread exit.
//! Phases are separated by barriers so the reference never depends on timing.
//!
//! Oracle: reference aggregation from the script (count, sum, per-bucket counts; pull = everything
//! observed, push = state at the instance's last push; exited threads stay included).
//!   * quiescent report (every live thread parked at a barrier, exiting threads joined): equals
//!     the reference exactly;
//!   * reports taken while threads run (by the coordinator and by worker threads): every field is
//!     a monotone lower bound — at least the previous report of the same reporter and the last
//!     quiescent state (plus the reporter's own published data), at most the state at the end of
//!     the phase.
//!
//! Event names come from a process-wide counter (the registry is process-global and never
//! forgets). Cases run in a worker process that is replaced every 150 cases, because
//! `Report::collect` walks every name the process has ever registered.

use std::collections::{BTreeSet, HashMap};
use std::sync::atomic::{AtomicU64, Ordering};
use std::sync::{Arc, Barrier, LazyLock, Mutex};
use std::thread;
use std::time::Duration;

use nm::{Event, MetricsPusher, Observe, PublishModel, Pull, Push, Report};
use proptest::prelude::*;
use serde::{Deserialize, Serialize};
use vcommon::worker::{Reply, Worker, serve, worker_role};
use vcommon::{Ctx, Failure, Harness, Verdict, catch, pick_index};

// ---------------------------------------------------------------------------------------------
// case
// ---------------------------------------------------------------------------------------------

#[derive(Debug, Clone, Serialize, Deserialize)]
struct Case {
    /// bucket bounds per event: strictly ascending, never `i64::MAX` (what the builder accepts)
    events: Vec<Vec<i64>>,
    /// events that may receive magnitudes near the i64 limits (for the others `Min` / `Max` /
    /// `Any` are scaled down to 24 bits so that the sum stays comparable)
    wild: Vec<bool>,
    /// events whose `Timed` ops really call `observe_duration_millis` (magnitude unknown to the
    /// oracle, so those events get the relaxed comparison)
    timed: Vec<bool>,
    phases: Vec<PhaseCfg>,
    threads: Vec<ThreadCfg>,
}

#[derive(Debug, Clone, Serialize, Deserialize)]
struct PhaseCfg {
    /// reports the coordinator takes while the threads of this phase run
    reports: u8,
    /// yields between those reports
    spin: u8,
}

#[derive(Debug, Clone, Serialize, Deserialize)]
struct ThreadCfg {
    /// first phase = pick_index(start, P); last phase = first + pick_index(span, P - first)
    start: u16,
    span: u16,
    /// per event: 0 = pull, 1 = push via pusher 0, 2 = push via pusher 1, 3 = not registered
    modes: Vec<u8>,
    /// ops per phase (entries outside the thread's life are ignored)
    ops: Vec<Vec<Op>>,
}

#[derive(Debug, Clone, Serialize, Deserialize)]
enum Op {
    Obs { ev: u16, mag: Mag, how: How, reps: u16 },
    Push(u8),
    Report,
    Yield,
    /// the thread drops its `Event` instance for this event (its pusher, if any, lives on); later
    /// observations of this thread on that event are skipped. What was observed through the
    /// dropped instance still counts: at once for pull events, at its pusher's next push otherwise.
    DropEvent(u16),
}

#[derive(Debug, Clone, Serialize, Deserialize)]
enum Mag {
    /// bound number pick_index(i, len) plus d (d in -1..=1)
    Bound { i: u16, d: i8 },
    /// bound number 60 + k (clamped to the last bound) plus d — the dirty-bitmap edge
    High { k: u8, d: i8 },
    /// last bound plus d (d = 1: implicit overflow bucket)
    Last { d: i8 },
    Zero,
    Small(i16),
    Min,
    MinPlus1,
    Max,
    MaxMinus1,
    Any(i64),
}

#[derive(Debug, Clone, Serialize, Deserialize)]
enum How {
    Plain,
    /// through the `Observe` trait
    Trait,
    /// magnitude passed as `i32` when it fits
    AsI32,
    Once,
    Batch(u32),
    BatchTrait(u32),
    BatchOnce(u32),
    /// `observe_millis(Duration)` with `extra` nanoseconds below one millisecond
    Millis { extra: u32 },
    BatchMillis { n: u32, extra: u32 },
    /// `observe_duration_millis(|| ())` (only on `timed` events)
    Timed,
    BatchTimed(u32),
}

fn d_strategy() -> impl Strategy<Value = i8> {
    prop_oneof![3 => Just(0i8), 2 => Just(1i8), 2 => Just(-1i8)]
}

fn mag_strategy() -> impl Strategy<Value = Mag> {
    prop_oneof![
        8 => (any::<u16>(), d_strategy()).prop_map(|(i, d)| Mag::Bound { i, d }),
        5 => (0u8..=8, d_strategy()).prop_map(|(k, d)| Mag::High { k, d }),
        2 => d_strategy().prop_map(|d| Mag::Last { d }),
        4 => Just(Mag::Zero),
        3 => (-300i16..300).prop_map(Mag::Small),
        1 => Just(Mag::Min),
        1 => Just(Mag::MinPlus1),
        1 => Just(Mag::Max),
        1 => Just(Mag::MaxMinus1),
        1 => any::<i64>().prop_map(Mag::Any),
    ]
}

fn batch_n() -> impl Strategy<Value = u32> {
    prop_oneof![3 => Just(0u32), 3 => Just(1u32), 8 => 2u32..100, 2 => 1000u32..(1 << 20)]
}

fn how_strategy() -> impl Strategy<Value = How> {
    prop_oneof![
        8 => Just(How::Plain),
        2 => Just(How::Trait),
        1 => Just(How::AsI32),
        3 => Just(How::Once),
        6 => batch_n().prop_map(How::Batch),
        2 => batch_n().prop_map(How::BatchTrait),
        2 => batch_n().prop_map(How::BatchOnce),
        3 => (0u32..1_000_000).prop_map(|extra| How::Millis { extra }),
        2 => (batch_n(), 0u32..1_000_000).prop_map(|(n, extra)| How::BatchMillis { n, extra }),
        3 => Just(How::Timed),
        1 => batch_n().prop_map(How::BatchTimed),
    ]
}

fn op_strategy() -> impl Strategy<Value = Op> {
    prop_oneof![
        24 => (any::<u16>(), mag_strategy(), how_strategy(),
               prop_oneof![16 => Just(1u16), 3 => 2u16..40, 1 => 400u16..3000])
            .prop_map(|(ev, mag, how, reps)| Op::Obs { ev, mag, how, reps }),
        9 => (0u8..2).prop_map(Op::Push),
        1 => Just(Op::Report),
        1 => Just(Op::Yield),
        1 => any::<u16>().prop_map(Op::DropEvent),
    ]
}

/// Bounds plus "these bounds are themselves near the i64 limits".
fn buckets_strategy() -> impl Strategy<Value = (Vec<i64>, bool)> {
    let len = prop_oneof![
        2 => Just(0usize),
        4 => 1usize..=10,
        2 => 11usize..=62,
        5 => 63usize..=65,
        5 => 66usize..=80,
    ];
    let style = prop_oneof![3 => Just(0u8), 3 => Just(1u8), 3 => Just(2u8), 1 => Just(3u8), 1 => Just(4u8), 2 => Just(5u8), 1 => Just(6u8)];
    (len, style, -40i64..40, prop::collection::vec(any::<u16>(), 80)).prop_map(|(len, style, s, raw)| {
        let wild = matches!(style, 3 | 4 | 6);
        let mut out: Vec<i64> = Vec::with_capacity(len);
        let (start, gap): (i64, Box<dyn Fn(u16) -> i64>) = match style {
            0 => (s, Box::new(|_| 1)),                                  // adjacent bounds
            1 => (s - 30, Box::new(|r| 1 + i64::from(r % 3))),          // near-adjacent around 0
            2 => (s * 25, Box::new(|r| 1 + i64::from(r % 50))),
            3 => (i64::MIN, Box::new(|r| (i64::from(r) + 1) << 41)),    // whole i64 range
            4 => (i64::MIN + s.abs(), Box::new(|r| 1 + i64::from(r % 4))),
            5 => (-1_000_000, Box::new(|r| 1 + i64::from(r % 1000))),   // negatives only
            _ => (0, Box::new(|_| 0)),                                  // built downwards below
        };
        if style == 6 {
            // ends at the largest legal bound, i64::MAX - 1
            let mut v = i64::MAX - 1;
            for r in raw.iter().take(len) {
                out.push(v);
                v -= 1 + i64::from(r % 5);
            }
            out.reverse();
            return (out, wild);
        }
        let mut v = start;
        for r in raw.iter().take(len) {
            out.push(v);
            match v.checked_add(gap(*r)) {
                Some(n) if n < i64::MAX => v = n,
                _ => break,
            }
        }
        (out, wild)
    })
}

fn thread_strategy(ne: usize, np: usize) -> impl Strategy<Value = ThreadCfg> {
    (
        any::<u16>(),
        any::<u16>(),
        prop::collection::vec(prop_oneof![4 => Just(0u8), 4 => Just(1u8), 2 => Just(2u8), 1 => Just(3u8)], ne),
        prop::collection::vec(prop::collection::vec(op_strategy(), 0..=12), np),
    )
        .prop_map(|(start, span, modes, ops)| ThreadCfg { start, span, modes, ops })
}

fn case_strategy() -> impl Strategy<Value = Case> {
    (
        prop_oneof![3 => Just(1usize), 3 => Just(2usize), 2 => Just(3usize), 1 => Just(4usize)],
        prop_oneof![1 => Just(1usize), 4 => Just(2usize), 4 => Just(3usize), 2 => Just(4usize)],
        prop_oneof![1 => Just(1usize), 3 => 2usize..=3, 3 => 4usize..=5, 2 => 6usize..=8],
    )
        .prop_flat_map(|(ne, np, nt)| {
            (
                prop::collection::vec((buckets_strategy(), prop::bool::weighted(0.15)), ne),
                prop::collection::vec(prop::bool::weighted(0.12), ne),
                prop::collection::vec((prop_oneof![3 => Just(0u8), 3 => Just(1u8), 2 => Just(2u8), 1 => Just(3u8)], 0u8..4), np),
                prop::collection::vec(thread_strategy(ne, np), nt),
            )
        })
        .prop_map(|(events, timed, phases, threads)| Case {
            wild: events.iter().map(|((_, forced), w)| *forced || *w).collect(),
            events: events.into_iter().map(|((b, _), _)| b).collect(),
            timed,
            phases: phases.into_iter().map(|(reports, spin)| PhaseCfg { reports, spin }).collect(),
            threads,
        })
}

// ---------------------------------------------------------------------------------------------
// decoding shared by the reference model and the real run
// ---------------------------------------------------------------------------------------------

#[derive(Debug, Clone, Copy, PartialEq)]
enum Kind {
    Plain,
    AsI32,
    Once,
    Millis(Duration),
    Timed,
}

#[derive(Debug, Clone)]
struct Action {
    ev: usize,
    kind: Kind,
    /// magnitude handed to the API (ignored for Once / Timed)
    m: i64,
    /// magnitude the library must record; None = unknown (Timed)
    recorded: Option<i64>,
    batch: Option<usize>,
    via_trait: bool,
    reps: u16,
}

impl Case {
    fn np(&self) -> usize {
        self.phases.len()
    }

    fn life(&self, t: usize) -> (usize, usize) {
        let np = self.np();
        let th = &self.threads[t];
        let s = pick_index(th.start, np);
        let e = s + pick_index(th.span, np - s);
        (s, e)
    }

    fn well_formed(&self) -> bool {
        let ne = self.events.len();
        let np = self.np();
        ne >= 1
            && np >= 1
            && !self.threads.is_empty()
            && self.timed.len() == ne
            && self.wild.len() == ne
            && self.events.iter().all(|b| b.windows(2).all(|w| w[0] < w[1]) && !b.contains(&i64::MAX))
            && self.threads.iter().all(|t| t.modes.len() == ne && t.ops.len() == np)
    }

    fn resolve_mag(&self, ev: usize, mag: &Mag) -> i64 {
        let b = &self.events[ev];
        let at = |idx: usize, d: i8| -> i64 {
            let base = b[idx.min(b.len() - 1)];
            base.checked_add(i64::from(d)).unwrap_or(base)
        };
        match mag {
            Mag::Bound { i, d } => {
                if b.is_empty() {
                    i64::from(*d)
                } else {
                    at(pick_index(*i, b.len()), *d)
                }
            }
            Mag::High { k, d } => {
                if b.is_empty() {
                    i64::from(*k)
                } else {
                    at(60 + usize::from(*k), *d)
                }
            }
            Mag::Last { d } => {
                if b.is_empty() {
                    i64::from(*d)
                } else {
                    at(b.len() - 1, *d)
                }
            }
            Mag::Zero => 0,
            Mag::Small(v) => i64::from(*v),
            Mag::Min if self.wild[ev] => i64::MIN,
            Mag::MinPlus1 if self.wild[ev] => i64::MIN + 1,
            Mag::Max if self.wild[ev] => i64::MAX,
            Mag::MaxMinus1 if self.wild[ev] => i64::MAX - 1,
            Mag::Any(v) if self.wild[ev] => *v,
            Mag::Min => -(1 << 24),
            Mag::MinPlus1 => -(1 << 24) + 1,
            Mag::Max => 1 << 24,
            Mag::MaxMinus1 => (1 << 24) - 1,
            Mag::Any(v) => *v >> 40,
        }
    }

    /// The API call an `Obs` op stands for on thread `t`, or None if the thread has not
    /// registered the event.
    fn action(&self, t: usize, ev: u16, mag: &Mag, how: &How, reps: u16) -> Option<Action> {
        let e = pick_index(ev, self.events.len());
        if self.threads[t].modes[e] == 3 {
            return None;
        }
        let m = self.resolve_mag(e, mag);
        let millis = |extra: u32| -> Kind {
            if m >= 0 {
                let secs = (m / 1000) as u64;
                let nanos = (m % 1000) as u32 * 1_000_000 + extra.min(999_999);
                Kind::Millis(Duration::new(secs, nanos))
            } else {
                Kind::Plain
            }
        };
        let timed = |fallback: Kind| if self.timed[e] { Kind::Timed } else { fallback };
        let (kind, batch, via_trait) = match how {
            How::Plain => (Kind::Plain, None, false),
            How::Trait => (Kind::Plain, None, true),
            How::AsI32 => (if i32::try_from(m).is_ok() { Kind::AsI32 } else { Kind::Plain }, None, false),
            How::Once => (Kind::Once, None, false),
            How::Batch(n) => (Kind::Plain, Some(*n as usize), false),
            How::BatchTrait(n) => (Kind::Plain, Some(*n as usize), true),
            How::BatchOnce(n) => (Kind::Once, Some(*n as usize), false),
            How::Millis { extra } => (millis(*extra), None, false),
            How::BatchMillis { n, extra } => (millis(*extra), Some(*n as usize), true),
            How::Timed => (timed(Kind::Plain), None, false),
            How::BatchTimed(n) => (timed(Kind::Plain), Some(*n as usize), true),
        };
        let recorded = match kind {
            Kind::Once => Some(1),
            Kind::Timed => None,
            _ => Some(m),
        };
        Some(Action { ev: e, kind, m, recorded, batch, via_trait, reps })
    }
}

// ---------------------------------------------------------------------------------------------
// reference model
// ---------------------------------------------------------------------------------------------

#[derive(Debug, Clone, PartialEq)]
struct Agg {
    count: u64,
    /// sum of the positive / negative contributions, exact
    pos: i128,
    neg: i128,
    /// explicit buckets followed by the implicit overflow bucket
    buckets: Vec<u64>,
    /// observations of unknown (non-negative) magnitude, included in `count` only
    unknown: u64,
}

impl Agg {
    fn zero(nb: usize) -> Self {
        Self { count: 0, pos: 0, neg: 0, buckets: vec![0; nb + 1], unknown: 0 }
    }

    fn bucket_of(bounds: &[i64], m: i64) -> usize {
        bounds.iter().position(|b| m <= *b).unwrap_or(bounds.len())
    }

    fn observe(&mut self, bounds: &[i64], m: Option<i64>, total: u64) -> Option<usize> {
        self.count += total;
        match m {
            Some(m) => {
                let c = i128::from(m) * i128::from(total);
                if c >= 0 {
                    self.pos += c;
                } else {
                    self.neg += c;
                }
                let b = Self::bucket_of(bounds, m);
                self.buckets[b] += total;
                Some(b)
            }
            None => {
                self.unknown += total;
                None
            }
        }
    }

    fn merge(&mut self, o: &Agg) {
        self.count += o.count;
        self.pos += o.pos;
        self.neg += o.neg;
        self.unknown += o.unknown;
        for (a, b) in self.buckets.iter_mut().zip(&o.buckets) {
            *a += *b;
        }
    }

    /// No grouping or ordering of the additions can leave the i64 range (the crate's
    /// "mathematics policy" makes no promise about the sum otherwise).
    fn sum_in_range(&self) -> bool {
        self.pos <= i128::from(i64::MAX) && self.neg >= i128::from(i64::MIN)
    }

    fn sum(&self) -> i64 {
        (self.pos + self.neg) as i64
    }

    /// The true total of all observations is an i64 (even if some grouping of the additions
    /// leaves the range on the way): the property says a report shows that total.
    fn total_in_range(&self) -> bool {
        let t = self.pos + self.neg;
        t <= i128::from(i64::MAX) && t >= i128::from(i64::MIN)
    }

    fn is_zero(&self) -> bool {
        self.count == 0
    }
}

#[derive(Default)]
struct Facts {
    big_observed: bool,
    high_bucket_pushed: bool,
    push_between_same_bucket: bool,
    idle_push: bool,
    sum_neutral_push: bool,
    batch0: bool,
    extreme: bool,
    unpushed_at_exit: bool,
    event_dropped_mid_life: bool,
    event_dropped_with_unpushed_data: bool,
    worker_reports: usize,
}

struct Sim {
    /// [t][p][e]: what thread t has published for event e at the end of phase p (zero before its
    /// first phase, frozen after its last)
    contrib: Vec<Vec<Vec<Agg>>>,
    /// per thread, per `Report` op in script order: (phase, own published state at that point)
    worker_own: Vec<Vec<(usize, Vec<Agg>)>>,
    facts: Facts,
}

fn simulate(case: &Case) -> Sim {
    let ne = case.events.len();
    let np = case.np();
    let zero: Vec<Agg> = case.events.iter().map(|b| Agg::zero(b.len())).collect();
    let mut facts = Facts::default();
    let mut contrib = Vec::new();
    let mut worker_own = Vec::new();
    for (t, th) in case.threads.iter().enumerate() {
        let (sp, ep) = case.life(t);
        let mut local = zero.clone();
        let mut published = zero.clone();
        // push-model bookkeeping per event
        let mut before_push: Vec<BTreeSet<usize>> = vec![BTreeSet::new(); ne];
        let mut since_push: Vec<BTreeSet<usize>> = vec![BTreeSet::new(); ne];
        let mut per_phase: Vec<Vec<Agg>> = Vec::with_capacity(np);
        let mut own = Vec::new();
        let mut dropped = vec![false; ne];
        for p in 0..np {
            if p >= sp && p <= ep {
                for op in &th.ops[p] {
                    match op {
                        Op::Obs { ev, mag, how, reps } => {
                            let Some(a) = case.action(t, *ev, mag, how, *reps) else { continue };
                            if dropped[a.ev] {
                                continue;
                            }
                            let total = a.batch.map_or(1, |n| n as u64) * u64::from(a.reps);
                            if a.batch == Some(0) {
                                facts.batch0 = true;
                            }
                            if total == 0 {
                                continue;
                            }
                            if matches!(a.recorded, Some(m) if m <= i64::MIN + 1 || m >= i64::MAX - 1) {
                                facts.extreme = true;
                            }
                            let bounds = &case.events[a.ev];
                            let b = local[a.ev].observe(bounds, a.recorded, total);
                            if bounds.len() > 63 {
                                facts.big_observed = true;
                            }
                            let mode = th.modes[a.ev];
                            if mode == 0 {
                                published[a.ev] = local[a.ev].clone();
                            } else if let Some(b) = b {
                                if before_push[a.ev].contains(&b) {
                                    facts.push_between_same_bucket = true;
                                }
                                since_push[a.ev].insert(b);
                            }
                        }
                        Op::Push(k) => {
                            for e in 0..ne {
                                if th.modes[e] == 1 + (*k % 2) {
                                    if published[e] == local[e] {
                                        facts.idle_push = true;
                                    } else if published[e].sum() == local[e].sum() {
                                        facts.sum_neutral_push = true;
                                    }
                                    if since_push[e].iter().any(|b| *b >= 63 && *b < case.events[e].len()) {
                                        facts.high_bucket_pushed = true;
                                    }
                                    published[e] = local[e].clone();
                                    let moved = std::mem::take(&mut since_push[e]);
                                    before_push[e].extend(moved);
                                }
                            }
                        }
                        Op::Report => {
                            own.push((p, published.clone()));
                            facts.worker_reports += 1;
                        }
                        Op::Yield => {}
                        Op::DropEvent(ev) => {
                            let e = pick_index(*ev, ne);
                            if th.modes[e] != 3 && !dropped[e] {
                                dropped[e] = true;
                                facts.event_dropped_mid_life = true;
                                if th.modes[e] != 0 && published[e] != local[e] {
                                    facts.event_dropped_with_unpushed_data = true;
                                }
                            }
                        }
                    }
                }
            }
            per_phase.push(published.clone());
        }
        if published != local {
            facts.unpushed_at_exit = true;
        }
        contrib.push(per_phase);
        worker_own.push(own);
    }
    Sim { contrib, worker_own, facts }
}

impl Sim {
    /// Published state of everything at the end of phase `p` (`None` = before phase 0),
    /// optionally leaving one thread out.
    fn total(&self, case: &Case, p: Option<usize>, except: Option<usize>) -> Vec<Agg> {
        let mut out: Vec<Agg> = case.events.iter().map(|b| Agg::zero(b.len())).collect();
        if let Some(p) = p {
            for (t, c) in self.contrib.iter().enumerate() {
                if Some(t) == except {
                    continue;
                }
                for (e, a) in c[p].iter().enumerate() {
                    out[e].merge(a);
                }
            }
        }
        out
    }
}

// ---------------------------------------------------------------------------------------------
// real run
// ---------------------------------------------------------------------------------------------

#[derive(Debug, Clone)]
struct EvView {
    count: u64,
    sum: i64,
    /// (upper bound, count) including the synthetic i64::MAX bucket; None = no histogram
    buckets: Option<Vec<(i64, u64)>>,
}

type View = Vec<Option<EvView>>;

struct Runtime {
    names: Vec<&'static str>,
    prefix: String,
    buckets: Vec<&'static [i64]>,
    start: Vec<Barrier>,
    end: Vec<Barrier>,
}

static CASE_COUNTER: AtomicU64 = AtomicU64::new(0);
static INTERN: LazyLock<Mutex<HashMap<Vec<i64>, &'static [i64]>>> = LazyLock::new(|| Mutex::new(HashMap::new()));

fn intern(b: &[i64]) -> &'static [i64] {
    let mut map = INTERN.lock().unwrap_or_else(|e| e.into_inner());
    if let Some(s) = map.get(b) {
        return s;
    }
    let leaked: &'static [i64] = Box::leak(b.to_vec().into_boxed_slice());
    map.insert(b.to_vec(), leaked);
    leaked
}

fn take_view(rt: &Runtime) -> Result<View, String> {
    let report = catch(Report::collect)?;
    let mut view: View = vec![None; rt.names.len()];
    for ev in report.events() {
        let name: &str = ev.name();
        if !name.starts_with(rt.prefix.as_str()) {
            continue;
        }
        if let Some(i) = rt.names.iter().position(|n| *n == name) {
            if view[i].is_some() {
                return Err(format!("event {name} appears twice in one report"));
            }
            view[i] = Some(EvView {
                count: ev.count(),
                sum: ev.sum(),
                buckets: ev.histogram().map(|h| h.buckets().collect()),
            });
        }
    }
    Ok(view)
}

enum Ev {
    Pull(Event<Pull>),
    Push(Event<Push>),
}

fn via<O: Observe>(o: &O, a: &Action) {
    match a.kind {
        Kind::Plain => o.observe(a.m),
        Kind::AsI32 => o.observe(a.m as i32),
        Kind::Once => o.observe_once(),
        Kind::Millis(d) => o.observe_millis(d),
        Kind::Timed => o.observe_duration_millis(|| ()),
    }
}

fn exec<P: PublishModel>(e: &Event<P>, a: &Action) {
    for _ in 0..a.reps {
        match (a.batch, a.via_trait) {
            (None, true) => via(e, a),
            (Some(n), true) => via(&e.batch(n), a),
            (None, false) => match a.kind {
                Kind::Plain => e.observe(a.m),
                Kind::AsI32 => e.observe(a.m as i32),
                Kind::Once => e.observe_once(),
                Kind::Millis(d) => e.observe_millis(d),
                Kind::Timed => e.observe_duration_millis(|| ()),
            },
            (Some(n), false) => {
                let b = e.batch(n);
                match a.kind {
                    Kind::Plain => b.observe(a.m),
                    Kind::AsI32 => b.observe(a.m as i32),
                    Kind::Once => b.observe_once(),
                    Kind::Millis(d) => b.observe_millis(d),
                    Kind::Timed => b.observe_duration_millis(|| ()),
                }
            }
        }
    }
}

struct WorkerOut {
    reports: Vec<(usize, View)>,
    panics: Vec<String>,
}

fn worker(case: &Case, rt: &Runtime, t: usize) -> WorkerOut {
    let (sp, ep) = case.life(t);
    let th = &case.threads[t];
    let mut out = WorkerOut { reports: Vec::new(), panics: Vec::new() };
    let pushers = [MetricsPusher::new(), MetricsPusher::new()];
    let mut events: Vec<Option<Ev>> = Vec::new();
    for p in sp..=ep {
        rt.start[p].wait();
        if !out.panics.is_empty() {
            // keep the barrier protocol alive, do nothing else
        } else {
            let r = catch(|| {
                if p == sp {
                    // registration happens while older threads already run this phase
                    for (e, mode) in th.modes.iter().enumerate() {
                        let mut b = Event::builder().name(rt.names[e]);
                        if !rt.buckets[e].is_empty() {
                            b = b.histogram(rt.buckets[e]);
                        }
                        events.push(match mode {
                            0 => Some(Ev::Pull(b.build())),
                            1 => Some(Ev::Push(b.pusher(&pushers[0]).build())),
                            2 => Some(Ev::Push(b.pusher(&pushers[1]).build())),
                            _ => None,
                        });
                    }
                }
                for op in &th.ops[p] {
                    match op {
                        Op::Obs { ev, mag, how, reps } => {
                            let Some(a) = case.action(t, *ev, mag, how, *reps) else { continue };
                            match events[a.ev].as_ref() {
                                Some(Ev::Pull(e)) => exec(e, &a),
                                Some(Ev::Push(e)) => exec(e, &a),
                                // dropped by an earlier `DropEvent`
                                None => {}
                            }
                        }
                        Op::Push(k) => pushers[usize::from(*k % 2)].push(),
                        Op::Report => match take_view(rt) {
                            Ok(v) => out.reports.push((p, v)),
                            Err(m) => out.panics.push(format!("Report::collect on a worker: {m}")),
                        },
                        Op::Yield => thread::yield_now(),
                        Op::DropEvent(ev) => {
                            let e = pick_index(*ev, events.len());
                            drop(events[e].take());
                        }
                    }
                }
            });
            if let Err(m) = r {
                out.panics.push(m);
            }
        }
        if p < ep {
            rt.end[p].wait();
        }
    }
    drop(events);
    drop(pushers);
    out
}

struct RunOut {
    /// (phase, quiescent, view) in the order the coordinator took them
    coord: Vec<(usize, bool, View)>,
    workers: Vec<WorkerOut>,
    panics: Vec<String>,
}

fn run(case: &Arc<Case>) -> RunOut {
    let id = CASE_COUNTER.fetch_add(1, Ordering::Relaxed);
    let np = case.np();
    let nt = case.threads.len();
    let prefix = format!("c16.{id:08}.");
    let names: Vec<&'static str> = (0..case.events.len())
        .map(|e| &*Box::leak(format!("{prefix}{e}").into_boxed_str()))
        .collect();
    let lives: Vec<(usize, usize)> = (0..nt).map(|t| case.life(t)).collect();
    let rt = Arc::new(Runtime {
        names,
        prefix,
        buckets: case.events.iter().map(|b| intern(b)).collect(),
        start: (0..np).map(|p| Barrier::new(1 + lives.iter().filter(|(s, e)| *s <= p && p <= *e).count())).collect(),
        end: (0..np).map(|p| Barrier::new(1 + lives.iter().filter(|(s, e)| *s <= p && p < *e).count())).collect(),
    });
    let mut out = RunOut { coord: Vec::new(), workers: Vec::new(), panics: Vec::new() };
    let mut handles: Vec<Option<thread::JoinHandle<WorkerOut>>> = (0..nt).map(|_| None).collect();
    let mut outs: Vec<Option<WorkerOut>> = (0..nt).map(|_| None).collect();
    for p in 0..np {
        for t in 0..nt {
            if lives[t].0 == p {
                let (c, r) = (Arc::clone(case), Arc::clone(&rt));
                let h = thread::Builder::new()
                    .stack_size(512 * 1024)
                    .spawn(move || worker(&c, &r, t))
                    .expect("thread spawn (infrastructure)");
                handles[t] = Some(h);
            }
        }
        rt.start[p].wait();
        for _ in 0..case.phases[p].reports {
            match take_view(&rt) {
                Ok(v) => out.coord.push((p, false, v)),
                Err(m) => out.panics.push(format!("Report::collect while threads run: {m}")),
            }
            for _ in 0..case.phases[p].spin {
                thread::yield_now();
            }
        }
        for t in 0..nt {
            if lives[t].1 == p {
                match handles[t].take().expect("spawned").join() {
                    Ok(w) => outs[t] = Some(w),
                    Err(e) => {
                        out.panics.push(format!("worker {t} died: {}", vcommon::panic_message(&*e)));
                        outs[t] = Some(WorkerOut { reports: Vec::new(), panics: Vec::new() });
                    }
                }
            }
        }
        rt.end[p].wait();
        match take_view(&rt) {
            Ok(v) => out.coord.push((p, true, v)),
            Err(m) => out.panics.push(format!("Report::collect at rest: {m}")),
        }
    }
    out.workers = outs.into_iter().map(|o| o.expect("all joined")).collect();
    out
}

// ---------------------------------------------------------------------------------------------
// oracle
// ---------------------------------------------------------------------------------------------

fn model_label(case: &Case, e: usize) -> Option<&'static str> {
    let mut pull = false;
    let mut push = false;
    for t in &case.threads {
        match t.modes[e] {
            0 => pull = true,
            1 | 2 => push = true,
            _ => {}
        }
    }
    match (pull, push) {
        (true, true) => Some("mixed"),
        (true, false) => Some("pull"),
        (false, true) => Some("push"),
        (false, false) => None,
    }
}

/// Count / sum / buckets of an event in a view; an absent event reads as all zero.
fn fields(case: &Case, e: usize, v: &Option<EvView>, model: &str) -> Result<(u64, i64, Vec<u64>), Failure> {
    let bounds = &case.events[e];
    match v {
        None => Ok((0, 0, vec![0; bounds.len() + 1])),
        Some(v) => {
            let got = match &v.buckets {
                None => {
                    if !bounds.is_empty() {
                        return Err(Failure::new(
                            format!("C16/report/{model}/bucket-layout"),
                            format!("event {e} has {} configured bounds but the report has no histogram", bounds.len()),
                        ));
                    }
                    vec![0] // no histogram: the overflow slot is not reported
                }
                Some(bs) => {
                    let mags: Vec<i64> = bs.iter().map(|b| b.0).collect();
                    let mut want = bounds.clone();
                    want.push(i64::MAX);
                    if bounds.is_empty() || mags != want {
                        return Err(Failure::new(
                            format!("C16/report/{model}/bucket-layout"),
                            format!("event {e}: reported bucket bounds {mags:?}, configured {bounds:?} (+ i64::MAX)"),
                        ));
                    }
                    bs.iter().map(|b| b.1).collect()
                }
            };
            Ok((v.count, v.sum, got))
        }
    }
}

/// Non-zero buckets as `#index=count` (the last index is the implicit overflow bucket).
fn show(b: &[u64]) -> String {
    let v: Vec<String> = b.iter().enumerate().filter(|(_, c)| **c != 0).map(|(i, c)| format!("#{i}={c}")).collect();
    format!("[{}]", v.join(" "))
}

fn check_exact(case: &Case, what: &str, view: &View, want: &[Agg]) -> Verdict {
    for e in 0..case.events.len() {
        let Some(model) = model_label(case, e) else { continue };
        let w = &want[e];
        let nb = case.events[e].len();
        if view[e].is_none() && !w.is_zero() {
            return Err(Failure::new(
                format!("C16/quiescent/{model}/event-missing"),
                format!("{what}: event {e} is not in the report; reference count {}", w.count),
            ));
        }
        let (count, sum, got) = fields(case, e, &view[e], model)?;
        if count != w.count {
            return Err(Failure::new(
                format!("C16/quiescent/{model}/count-mismatch"),
                format!("{what}: event {e} ({nb} bounds) count {count}, reference {}", w.count),
            ));
        }
        if nb > 0 {
            if w.unknown == 0 {
                if let Some(i) = (0..=nb).find(|i| got[*i] != w.buckets[*i]) {
                    let bound = case.events[e].get(i).copied().unwrap_or(i64::MAX);
                    return Err(Failure::new(
                        format!("C16/quiescent/{model}/bucket-mismatch"),
                        format!(
                            "{what}: event {e} ({nb} bounds) bucket #{i} (<= {bound}) holds {}, reference {}; non-zero buckets reported {}, reference {}",
                            got[i], w.buckets[i], show(&got), show(&w.buckets)
                        ),
                    ));
                }
            } else {
                let total: u64 = got.iter().sum();
                let bad = (0..=nb).find(|i| got[*i] < w.buckets[*i] || got[*i] > w.buckets[*i] + w.unknown);
                if total != count || bad.is_some() {
                    return Err(Failure::new(
                        format!("C16/quiescent/{model}/bucket-mismatch-timed"),
                        format!(
                            "{what}: event {e} non-zero buckets {} (total {total}, count {count}); reference {} plus {} timed observations",
                            show(&got), show(&w.buckets), w.unknown
                        ),
                    ));
                }
            }
        }
        if w.sum_in_range() || (w.unknown == 0 && w.total_in_range()) {
            let ok = if w.unknown == 0 { sum == w.sum() } else { sum >= w.sum() };
            if !ok {
                return Err(Failure::new(
                    format!("C16/quiescent/{model}/sum-mismatch"),
                    format!("{what}: event {e} sum {sum}, reference {} ({} timed observations)", w.sum(), w.unknown),
                ));
            }
        }
    }
    Ok(())
}

/// Lower bound `lo` (last state every reader must see), upper bound `hi` (nothing more exists
/// before the phase ends), `prev` = previous report of the same reporter.
fn check_bounds(case: &Case, who: &str, what: &str, view: &View, prev: Option<&View>, lo: &[Agg], hi: &[Agg]) -> Verdict {
    for e in 0..case.events.len() {
        let Some(model) = model_label(case, e) else { continue };
        let nb = case.events[e].len();
        let (count, sum, got) = fields(case, e, &view[e], model)?;
        let (l, h) = (&lo[e], &hi[e]);
        let sig = |kind: &str| format!("C16/{who}/{model}/{kind}");
        if count < l.count {
            return Err(Failure::new(sig("count-below-published"), format!("{what}: event {e} count {count} < {} already published", l.count)));
        }
        if count > h.count {
            return Err(Failure::new(sig("count-above-final"), format!("{what}: event {e} count {count} > {} observed by the end of the phase", h.count)));
        }
        // The implicit overflow bucket is derived from two unsynchronised reads (count minus
        // explicit buckets) and is only meaningful at rest; explicit buckets are plain counters.
        for i in 0..nb {
            if got[i] < l.buckets[i] {
                return Err(Failure::new(sig("bucket-below-published"), format!("{what}: event {e} bucket #{i} holds {} < {} already published", got[i], l.buckets[i])));
            }
            if got[i] > h.buckets[i] + h.unknown {
                return Err(Failure::new(sig("bucket-above-final"), format!("{what}: event {e} bucket #{i} holds {} > {} observed by the end of the phase", got[i], h.buckets[i] + h.unknown)));
            }
        }
        // the sum is monotone only without negative contributions
        let sum_monotone = h.neg == 0 && h.sum_in_range() && h.unknown == 0;
        if sum_monotone {
            if sum < l.sum() {
                return Err(Failure::new(sig("sum-below-published"), format!("{what}: event {e} sum {sum} < {} already published", l.sum())));
            }
            if sum > h.sum() {
                return Err(Failure::new(sig("sum-above-final"), format!("{what}: event {e} sum {sum} > {} observed by the end of the phase", h.sum())));
            }
        }
        if let Some(prev) = prev {
            let (pc, ps, pg) = fields(case, e, &prev[e], model)?;
            if count < pc {
                return Err(Failure::new(sig("count-not-monotone"), format!("{what}: event {e} count {count} after an earlier report said {pc}")));
            }
            if let Some(i) = (0..nb).find(|i| got[*i] < pg[*i]) {
                return Err(Failure::new(sig("bucket-not-monotone"), format!("{what}: event {e} bucket #{i} holds {} after an earlier report said {}", got[i], pg[i])));
            }
            if sum_monotone && sum < ps {
                return Err(Failure::new(sig("sum-not-monotone"), format!("{what}: event {e} sum {sum} after an earlier report said {ps}")));
            }
        }
    }
    Ok(())
}

/// What the worker process tells the harness process about one case.
#[derive(Debug, Default, Serialize, Deserialize)]
struct Judged {
    classes: Vec<String>,
    nontrivial: bool,
    /// (signature, message)
    failure: Option<(String, String)>,
}

impl Judged {
    fn classify(&mut self, label: &str) {
        self.classes.push(label.to_string());
    }

    fn nontrivial(&mut self) {
        self.nontrivial = true;
    }
}

/// Runs one case against the library and judges it (worker process).
fn judge(case: &Case, ctx: &mut Judged) -> Verdict {
    if !case.well_formed() {
        // hand-edited replay files only; the generator never produces these
        ctx.classify("malformed-skipped");
        return Ok(());
    }
    let case = Arc::new(case.clone());
    let sim = simulate(&case);
    let np = case.np();
    let nt = case.threads.len();
    let lives: Vec<(usize, usize)> = (0..nt).map(|t| case.life(t)).collect();

    // ---- classification
    let maxb = case.events.iter().map(Vec::len).max().unwrap_or(0);
    ctx.classify(match maxb {
        0 => "buckets:none",
        1..=62 => "buckets:1-62",
        63 => "buckets:63",
        64 => "buckets:64",
        _ => "buckets:65-80",
    });
    ctx.classify(match nt {
        1 => "threads:1",
        2..=3 => "threads:2-3",
        4..=5 => "threads:4-5",
        _ => "threads:6-8",
    });
    ctx.classify(&format!("phases:{np}"));
    let models: Vec<Option<&str>> = (0..case.events.len()).map(|e| model_label(&case, e)).collect();
    for m in ["pull", "push", "mixed"] {
        if models.contains(&Some(m)) {
            ctx.classify(&format!("event:{m}"));
        }
    }
    let f = &sim.facts;
    for (on, label) in [
        (f.big_observed, "observed->63-bucket-event"),
        (f.high_bucket_pushed, "pushed-bucket-index>=63"),
        (f.push_between_same_bucket, "push-between-same-bucket"),
        (f.idle_push, "idle-push"),
        (f.sum_neutral_push, "push-with-unchanged-sum"),
        (f.batch0, "batch(0)"),
        (f.extreme, "extreme-magnitude"),
        (f.unpushed_at_exit, "unpushed-data-at-exit"),
        (f.event_dropped_mid_life, "event-instance-dropped-mid-life"),
        (f.event_dropped_with_unpushed_data, "push-event-dropped-with-unpushed-data"),
        (f.worker_reports > 0, "worker-report"),
        (case.phases.iter().any(|p| p.reports > 0), "coordinator-concurrent-report"),
        (case.timed.iter().any(|t| *t), "timed-event"),
    ] {
        if on {
            ctx.classify(label);
        }
    }
    // a thread that published something and exited before the last phase: at least one later
    // phase and two quiescent reports have to find its data in the archive
    let early_exit = (0..nt).any(|t| lives[t].1 + 1 < np && sim.contrib[t][lives[t].1].iter().any(|a| !a.is_zero()));
    if early_exit {
        ctx.classify("early-exit-with-data");
    }
    let final_ref = sim.total(&case, Some(np - 1), None);
    let asserted = (0..case.events.len()).filter(|e| models[*e].is_some() && final_ref[*e].sum_in_range()).count();
    let registered = models.iter().filter(|m| m.is_some()).count();
    ctx.classify(if asserted == registered { "sum-asserted:all-events" } else if asserted > 0 { "sum-asserted:some-events" } else { "sum-asserted:no-event(out of i64 range)" });
    if case.wild.iter().any(|w| *w) {
        ctx.classify("wild-event");
    }
    if (f.big_observed || f.push_between_same_bucket) && early_exit {
        ctx.nontrivial();
    }

    // ---- real run
    let out = run(&case);
    if let Some(m) = out.panics.first().or_else(|| out.workers.iter().flat_map(|w| w.panics.first()).next()) {
        return Err(Failure::new(format!("C16/panic/{}", vcommon::normalise(m)), format!("library panicked: {m}")));
    }

    // ---- coordinator reports: one monotone sequence over the whole case
    let mut prev: Option<&View> = None;
    for (k, (p, quiescent, view)) in out.coord.iter().enumerate() {
        let hi = sim.total(&case, Some(*p), None);
        if *quiescent {
            check_exact(&case, &format!("report #{k} at rest after phase {p}"), view, &hi)?;
        }
        let lo = sim.total(&case, p.checked_sub(1), None);
        check_bounds(&case, "concurrent", &format!("coordinator report #{k} in phase {p}"), view, prev, &lo, &hi)?;
        prev = Some(view);
    }
    // ---- worker reports
    for t in 0..nt {
        let w = &out.workers[t];
        if w.reports.len() != sim.worker_own[t].len() {
            return Err(Failure::new("C16/harness/worker-report-count", format!("thread {t} returned {} reports, script has {}", w.reports.len(), sim.worker_own[t].len())));
        }
        let mut prev: Option<&View> = None;
        for (k, ((p, view), (sp, own))) in w.reports.iter().zip(&sim.worker_own[t]).enumerate() {
            assert_eq!(p, sp, "report phases line up");
            let mut lo = sim.total(&case, p.checked_sub(1), Some(t));
            for (e, a) in own.iter().enumerate() {
                lo[e].merge(a);
            }
            let hi = sim.total(&case, Some(*p), None);
            check_bounds(&case, "worker-report", &format!("thread {t} report #{k} in phase {p}"), view, prev, &lo, &hi)?;
            prev = Some(view);
        }
    }
    Ok(())
}

/// Cases a worker process serves before it is replaced: the library's registry is process-global
/// and never forgets a name, so `Report::collect` gets slower with every case a process has run.
const CASES_PER_WORKER: u32 = 150;
/// Generous: a case is a few milliseconds of work; only ends a wait, a verdict needs a repeat.
const CASE_TIMEOUT: Duration = Duration::from_secs(120);

fn serve_cases() -> ! {
    serve(|line| {
        let mut j = Judged::default();
        match serde_json::from_str::<Case>(line) {
            Err(e) => j.failure = Some(("C16/harness/bad-request".into(), format!("worker cannot parse the case: {e}"))),
            Ok(case) => match catch(|| judge(&case, &mut j)) {
                Ok(Ok(())) => {}
                Ok(Err(f)) => j.failure = Some((f.signature, f.message)),
                Err(m) => j.failure = Some((format!("C16/harness/panic/{}", vcommon::normalise(&m)), format!("harness panicked in the worker: {m}"))),
            },
        }
        serde_json::to_string(&j).expect("serialise verdict")
    })
}

struct Runner {
    worker: Worker,
    served: u32,
}

impl Runner {
    fn call(&mut self, case: &Case) -> Reply {
        if self.served >= CASES_PER_WORKER {
            self.worker.restart();
            self.served = 0;
        }
        self.served += 1;
        let r = self.worker.call(&serde_json::to_string(case).expect("serialise case"), CASE_TIMEOUT);
        if !matches!(r, Reply::Line(_)) {
            self.served = 0; // `call` has already replaced the worker
        }
        r
    }

    fn check(&mut self, case: &Case, ctx: &mut Ctx) -> Verdict {
        // a hang or a dead worker is only a verdict when it happens again in a fresh process
        let mut last = String::new();
        for _attempt in 0..2 {
            match self.call(case) {
                Reply::Line(l) => {
                    let j: Judged = serde_json::from_str(&l).map_err(|e| Failure::new("C16/harness/bad-reply", format!("{e}: {l}")))?;
                    for c in &j.classes {
                        ctx.classify(c);
                    }
                    if j.nontrivial {
                        ctx.nontrivial();
                    }
                    return match j.failure {
                        None => Ok(()),
                        Some((signature, message)) => Err(Failure::new(signature, message)),
                    };
                }
                Reply::Timeout => last = "hang".into(),
                Reply::Died(m) => last = format!("process-died: {m}"),
            }
        }
        if last == "hang" {
            Err(Failure::new("C16/run/hang", format!("the case did not finish within {CASE_TIMEOUT:?} twice in fresh processes")))
        } else {
            Err(Failure::new("C16/run/process-died", format!("the worker process died twice on this case ({last})")))
        }
    }
}

fn main() {
    if worker_role().is_some() {
        serve_cases();
    }
    let mut runner = Runner { worker: Worker::spawn("c16"), served: 0 };
    let mut h = Harness::from_args("C16");
    let cases = h.cases(16_000, 400_000);
    h.section(
        "scripts",
        "generated event configs (0..80 strictly ascending bounds, >63 heavily weighted, i64 edges) x 1..8 real threads with pull/push instances of each name, phase scripts of observe / observe_once / batch(n) (n incl. 0) / observe_millis / observe_duration_millis / push / Report::collect / thread exit, magnitudes on and next to every bound, 0, negatives, i64::MIN/MAX; quiescent reports after every phase must equal the reference aggregation, reports taken while threads run must be monotone lower bounds; non-trivial = (an event with > 63 bounds received observations, or a push happened between two observations of the same bucket of a push-model instance) and >= 1 thread that had published data exited before the last phase (its data must be found in the archive by >= 2 later quiescent reports); distinct by serialised case",
        cases,
        case_strategy(),
        |case, ctx| runner.check(case, ctx),
    );
    h.finish()
}
