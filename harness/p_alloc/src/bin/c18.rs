//! C18 — allocation tracking is exact and transparent.
//!
//! The tracker is used as an *object*: `static TRACKER: Allocator<Checking>` is never installed as
//! the global allocator. The harness calls the `GlobalAlloc` methods on it directly, so every
//! request the tracker counts is one the harness generated (the tracker's counters are only
//! touched from `Allocator`'s `GlobalAlloc` methods — see allocator.rs `track_allocation`).
//!
//! Case: per-thread scripts (1..16 real threads, phases separated by barriers) over alloc /
//! alloc_zeroed / realloc / dealloc with arbitrary valid layouts, thread spans opened and closed
//! inside the scripts (nested, overlapping, living across phases), process spans opened and
//! closed at the quiescent boundaries between phases (possibly by different threads), 1..3
//! sessions sharing a pool of operation names, report snapshots at boundaries, final reports and
//! their merge.
//!
//! Oracle: transparency (the inner allocator's log equals the harness's call list element-wise,
//! pointers returned unchanged, zeroed memory is zero, realloc keeps the prefix) and exactness
//! (every report figure equals a reference computed from the scripts alone).

use std::alloc::{GlobalAlloc, Layout, System};
use std::cell::{Cell, RefCell};
use std::collections::{BTreeMap, BTreeSet};
use std::panic::{AssertUnwindSafe, catch_unwind};
use std::sync::{Arc, Barrier, Mutex, mpsc};

use alloc_tracker::{Allocator, Operation, ProcessSpan, Report, Session, ThreadSpan};
use proptest::prelude::*;
use serde::{Deserialize, Serialize};
use vcommon::{Ctx, Failure, Harness, Verdict, ensure, normalise, panic_message, pick_index};

// ---------------------------------------------------------------------------------------------
// The checking inner allocator
// ---------------------------------------------------------------------------------------------

#[derive(Clone, Copy, PartialEq, Eq, Debug)]
enum Kind {
    Alloc,
    AllocZeroed,
    Realloc,
    Dealloc,
}

/// One allocator call: as made by the harness on the tracker, or as seen by the inner allocator.
#[derive(Clone, Copy, PartialEq, Eq, Debug)]
struct Rec {
    kind: Kind,
    size: usize,
    align: usize,
    new_size: usize,
    /// pointer argument (realloc / dealloc), 0 otherwise
    arg: usize,
    /// returned pointer (0 for dealloc)
    ret: usize,
}

thread_local! {
    /// Preallocated per-thread log of the inner allocator (capacity reserved before each case;
    /// the inner allocator never grows it).
    static LOG: RefCell<Vec<Rec>> = const { RefCell::new(Vec::new()) };
    static LOG_OVERFLOW: Cell<bool> = const { Cell::new(false) };
    /// When set, the next alloc / alloc_zeroed / realloc seen by the inner allocator on this
    /// thread returns null without touching the system allocator.
    static FAIL_NEXT: Cell<bool> = const { Cell::new(false) };
}

fn inner_log(rec: Rec) {
    LOG.with(|l| {
        let mut l = l.borrow_mut();
        if l.len() < l.capacity() {
            l.push(rec);
        } else {
            LOG_OVERFLOW.with(|o| o.set(true));
        }
    });
}

fn take_fail() -> bool {
    FAIL_NEXT.with(|f| f.replace(false))
}

struct Checking;

// SAFETY: forwards to `System`, or returns null (always allowed) when told to fail.
unsafe impl GlobalAlloc for Checking {
    unsafe fn alloc(&self, layout: Layout) -> *mut u8 {
        let p = if take_fail() { std::ptr::null_mut() } else { unsafe { System.alloc(layout) } };
        inner_log(Rec { kind: Kind::Alloc, size: layout.size(), align: layout.align(), new_size: 0, arg: 0, ret: p as usize });
        p
    }

    unsafe fn dealloc(&self, ptr: *mut u8, layout: Layout) {
        inner_log(Rec { kind: Kind::Dealloc, size: layout.size(), align: layout.align(), new_size: 0, arg: ptr as usize, ret: 0 });
        unsafe { System.dealloc(ptr, layout) }
    }

    unsafe fn alloc_zeroed(&self, layout: Layout) -> *mut u8 {
        let p = if take_fail() { std::ptr::null_mut() } else { unsafe { System.alloc_zeroed(layout) } };
        inner_log(Rec { kind: Kind::AllocZeroed, size: layout.size(), align: layout.align(), new_size: 0, arg: 0, ret: p as usize });
        p
    }

    unsafe fn realloc(&self, ptr: *mut u8, layout: Layout, new_size: usize) -> *mut u8 {
        let p = if take_fail() { std::ptr::null_mut() } else { unsafe { System.realloc(ptr, layout, new_size) } };
        inner_log(Rec { kind: Kind::Realloc, size: layout.size(), align: layout.align(), new_size, arg: ptr as usize, ret: p as usize });
        p
    }
}

/// The object under test. NOT `#[global_allocator]`.
static TRACKER: Allocator<Checking> = Allocator::new(Checking);

// ---------------------------------------------------------------------------------------------
// Case
// ---------------------------------------------------------------------------------------------

#[derive(Debug, Clone, Serialize, Deserialize)]
enum Op {
    Alloc { size: u32, align_log2: u8, zeroed: bool, fail: bool },
    /// realloc of the `slot`-th live block of this thread (skipped when none is live)
    Realloc { slot: u16, new_size: u32, fail: bool },
    Dealloc { slot: u16 },
    OpenT { session: u8, name: u8, shared: bool },
    /// closes the `which`-th open thread span of this thread (skipped when none is open)
    CloseT { which: u16, k: u32 },
}

/// A process span: opened at boundary `open_b` by thread `open_t`, closed at a later-or-equal
/// boundary by `close_t`. Boundary b precedes phase b; boundary P (after the last phase) is run by
/// the main thread after the workers are done.
#[derive(Debug, Clone, Serialize, Deserialize)]
struct PSpan {
    open_b: u16,
    open_t: u16,
    close_b: u16,
    close_t: u16,
    session: u8,
    name: u8,
    shared: bool,
    k: u32,
}

#[derive(Debug, Clone, Serialize, Deserialize)]
struct Phase {
    /// thread 0 takes `to_report()` of every session at the boundary before this phase
    snapshot: bool,
    scripts: Vec<Vec<Op>>,
}

#[derive(Debug, Clone, Serialize, Deserialize)]
struct Case {
    threads: u8,
    sessions: u8,
    names: u8,
    /// bit s*4+n: main creates an `Operation` handle (session s, name n) up front
    precreate: u16,
    /// run on freshly spawned threads instead of the persistent pool
    fresh: bool,
    phases: Vec<Phase>,
    pspans: Vec<PSpan>,
}

fn size_strategy() -> impl Strategy<Value = u32> {
    // blocks above 64 KiB are kept rare: they cost page faults and add nothing but magnitude
    let big = prop_oneof![
        4 => 65537u32..=262_144,
        2 => 262_145u32..=(1 << 20),
        1 => Just(1u32 << 20),
        2 => (17u32..=20, 0u32..3).prop_map(|(e, d)| ((1u32 << e) + d).saturating_sub(1).clamp(1, 1 << 20)),
    ];
    let normal = prop_oneof![
        16 => 1u32..=64,
        16 => 1u32..=4096,
        4 => 4097u32..=65536,
        2 => Just(1u32),
        // powers of two and their neighbours
        6 => (0u32..=16, 0u32..3).prop_map(|(e, d)| ((1u32 << e) + d).saturating_sub(1).clamp(1, 65536)),
    ];
    prop_oneof![199 => normal, 1 => big]
}

fn k_strategy() -> impl Strategy<Value = u32> {
    prop_oneof![
        1 => Just(0u32),
        4 => Just(1u32),
        4 => 2u32..=20,
        2 => 21u32..=1000,
        1 => 1001u32..=100_000,
    ]
}

fn op_strategy() -> impl Strategy<Value = Op> {
    let align = prop_oneof![6 => 0u8..=4, 2 => 5u8..=8, 1 => 9u8..=12];
    prop_oneof![
        5 => (size_strategy(), align, prop::bool::weighted(0.35), prop::bool::weighted(0.04))
            .prop_map(|(size, align_log2, zeroed, fail)| Op::Alloc { size, align_log2, zeroed, fail }),
        4 => (any::<u16>(), size_strategy(), prop::bool::weighted(0.05))
            .prop_map(|(slot, new_size, fail)| Op::Realloc { slot, new_size, fail }),
        3 => any::<u16>().prop_map(|slot| Op::Dealloc { slot }),
        2 => (0u8..3, 0u8..4, any::<bool>()).prop_map(|(session, name, shared)| Op::OpenT { session, name, shared }),
        2 => (any::<u16>(), k_strategy()).prop_map(|(which, k)| Op::CloseT { which, k }),
    ]
}

fn case_strategy() -> impl Strategy<Value = Case> {
    let threads = prop_oneof![1 => Just(1u8), 4 => 2u8..=4, 2 => 5u8..=8, 1 => 9u8..=16];
    (threads, 1usize..=4).prop_flat_map(|(threads, nphases)| {
        let script = prop::collection::vec(op_strategy(), 0..=12);
        let phase = (prop::bool::weighted(0.3), prop::collection::vec(script, threads as usize))
            .prop_map(|(snapshot, scripts)| Phase { snapshot, scripts });
        let pspan = (any::<u16>(), any::<u16>(), any::<u16>(), any::<u16>(), 0u8..3, 0u8..4, any::<bool>(), k_strategy())
            .prop_map(|(open_b, open_t, close_b, close_t, session, name, shared, k)| PSpan { open_b, open_t, close_b, close_t, session, name, shared, k });
        (
            Just(threads),
            1u8..=3,
            1u8..=4,
            any::<u16>(),
            prop::bool::weighted(0.01),
            prop::collection::vec(phase, nphases),
            prop::collection::vec(pspan, 0..=5),
        )
            .prop_map(|(threads, sessions, names, precreate, fresh, phases, pspans)| Case { threads, sessions, names, precreate, fresh, phases, pspans })
    })
}

// ---------------------------------------------------------------------------------------------
// Plan: the case resolved into concrete steps plus the reference figures (pure function of case)
// ---------------------------------------------------------------------------------------------

#[derive(Debug, Clone)]
enum Step {
    Alloc { size: usize, align: usize, zeroed: bool, fail: bool },
    Realloc { slot: usize, old_size: usize, align: usize, new_size: usize, fail: bool },
    Dealloc { slot: usize, size: usize, align: usize },
    OpenT { session: usize, name: usize, shared: bool },
    CloseT { span: usize, k: u64 },
}

const MAIN: usize = usize::MAX;

#[derive(Debug, Clone)]
struct PPlan {
    open_b: usize,
    open_t: usize,
    close_b: usize,
    close_t: usize,
    session: usize,
    name: usize,
    shared: bool,
    k: u64,
}

/// A closed span as the reference sees it.
#[derive(Debug, Clone)]
struct SpanRef {
    session: usize,
    name: usize,
    k: u64,
    bytes: u64,
    count: u64,
    process: bool,
    /// visible in snapshots taken at boundary >= closed_at (and in the final reports)
    closed_at: usize,
}

struct Plan {
    threads: usize,
    sessions: usize,
    names: usize,
    nphases: usize,
    precreate: Vec<Vec<bool>>,
    snapshot: Vec<bool>,
    /// steps[phase][thread]
    steps: Vec<Vec<Vec<Step>>>,
    pspans: Vec<PPlan>,
    spans: Vec<SpanRef>,
    /// (session, name, visible from boundary)
    opens: Vec<(usize, usize, usize)>,
    max_calls_per_thread: usize,
    total_live_at_end: usize,
    // classification
    has_realloc: bool,
    realloc_grow: bool,
    realloc_shrink: bool,
    nested_thread: bool,
    thread_in_process: bool,
    nested_process: bool,
    overlapping: bool,
    span_across_phase: bool,
    cross_thread_pspan: bool,
    failed_calls: bool,
    zero_iterations: bool,
    big_alloc: bool,
    big_align: bool,
    tracked_calls: usize,
}

fn build_plan(case: &Case) -> Plan {
    let threads = (case.threads as usize).clamp(1, 16);
    let sessions = (case.sessions as usize).clamp(1, 3);
    let names = (case.names as usize).clamp(1, 4);
    let nphases = case.phases.len();
    let precreate: Vec<Vec<bool>> = (0..sessions).map(|s| (0..names).map(|n| (case.precreate >> (s * 4 + n)) & 1 == 1).collect()).collect();

    // process spans first (their coverage of phases feeds the classification)
    let pspans: Vec<PPlan> = case
        .pspans
        .iter()
        .map(|p| {
            let open_b = pick_index(p.open_b, nphases + 1);
            let close_b = open_b + pick_index(p.close_b, nphases + 1 - open_b);
            let open_t = if open_b == nphases { MAIN } else { pick_index(p.open_t, threads) };
            let close_t = if close_b == open_b {
                open_t
            } else if close_b == nphases {
                MAIN
            } else {
                pick_index(p.close_t, threads)
            };
            PPlan { open_b, open_t, close_b, close_t, session: p.session as usize % sessions, name: p.name as usize % names, shared: p.shared, k: u64::from(p.k) }
        })
        .collect();
    let pcover: Vec<usize> = (0..nphases).map(|phase| pspans.iter().filter(|p| p.open_b <= phase && phase < p.close_b).count()).collect();

    let mut plan = Plan {
        threads,
        sessions,
        names,
        nphases,
        precreate,
        snapshot: case.phases.iter().map(|p| p.snapshot).collect(),
        steps: vec![vec![Vec::new(); threads]; nphases],
        pspans,
        spans: Vec::new(),
        opens: Vec::new(),
        max_calls_per_thread: 0,
        total_live_at_end: 0,
        has_realloc: false,
        realloc_grow: false,
        realloc_shrink: false,
        nested_thread: false,
        thread_in_process: false,
        nested_process: false,
        overlapping: false,
        span_across_phase: false,
        cross_thread_pspan: false,
        failed_calls: false,
        zero_iterations: false,
        big_alloc: false,
        big_align: false,
        tracked_calls: 0,
    };

    // cum[t][b] = (bytes, count) of thread t's tracked calls before phase b
    let mut cum_at: Vec<Vec<(u64, u64)>> = vec![vec![(0, 0); nphases + 1]; threads];

    for t in 0..threads {
        let mut live: Vec<usize> = Vec::new(); // slot ids
        let mut blocks: Vec<(usize, usize)> = Vec::new(); // slot id -> (size, align)
        // open thread spans: (span id, session, name, cum at open, phase opened)
        let mut open: Vec<(usize, usize, usize, (u64, u64), usize)> = Vec::new();
        let mut nspans = 0usize;
        let mut cum = (0u64, 0u64);
        let mut calls = 0usize;
        for ph in 0..nphases {
            cum_at[t][ph] = cum;
            let pc = pcover[ph];
            let empty = Vec::new();
            let script = case.phases[ph].scripts.get(t).unwrap_or(&empty);
            let mut out = Vec::with_capacity(script.len() + 4);
            for op in script {
                let mut tracked = false;
                match *op {
                    Op::Alloc { size, align_log2, zeroed, fail } => {
                        let size = (size as usize).clamp(1, 1 << 20);
                        let align = 1usize << align_log2.min(12);
                        blocks.push((size, align));
                        if !fail {
                            live.push(blocks.len() - 1);
                        }
                        cum = (cum.0 + size as u64, cum.1 + 1);
                        tracked = true;
                        calls += 1;
                        plan.failed_calls |= fail;
                        plan.big_alloc |= size > 65536;
                        plan.big_align |= align > 16;
                        out.push(Step::Alloc { size, align, zeroed, fail });
                    }
                    Op::Realloc { slot, new_size, fail } => {
                        if !live.is_empty() {
                            let id = live[pick_index(slot, live.len())];
                            let (old_size, align) = blocks[id];
                            let new_size = (new_size as usize).clamp(1, 1 << 20);
                            cum = (cum.0 + new_size as u64, cum.1 + 1);
                            tracked = true;
                            calls += 1;
                            plan.has_realloc = true;
                            plan.failed_calls |= fail;
                            plan.realloc_grow |= new_size > old_size;
                            plan.realloc_shrink |= new_size < old_size;
                            if !fail {
                                blocks[id].0 = new_size;
                            }
                            out.push(Step::Realloc { slot: id, old_size, align, new_size, fail });
                        }
                    }
                    Op::Dealloc { slot } => {
                        if !live.is_empty() {
                            let id = live.remove(pick_index(slot, live.len()));
                            calls += 1;
                            out.push(Step::Dealloc { slot: id, size: blocks[id].0, align: blocks[id].1 });
                        }
                    }
                    Op::OpenT { session, name, shared } => {
                        let (s, n) = (session as usize % sessions, name as usize % names);
                        open.push((nspans, s, n, cum, ph));
                        nspans += 1;
                        plan.opens.push((s, n, ph + 1));
                        out.push(Step::OpenT { session: s, name: n, shared });
                    }
                    Op::CloseT { which, k } => {
                        if !open.is_empty() {
                            let idx = pick_index(which, open.len());
                            plan.overlapping |= idx + 1 != open.len();
                            let (id, s, n, at, opened_ph) = open.remove(idx);
                            plan.span_across_phase |= opened_ph != ph;
                            plan.zero_iterations |= k == 0;
                            plan.spans.push(SpanRef { session: s, name: n, k: u64::from(k), bytes: cum.0 - at.0, count: cum.1 - at.1, process: false, closed_at: ph + 1 });
                            out.push(Step::CloseT { span: id, k: u64::from(k) });
                        }
                    }
                }
                if tracked {
                    plan.tracked_calls += 1;
                    plan.nested_thread |= open.len() >= 2;
                    plan.thread_in_process |= !open.is_empty() && pc >= 1;
                    plan.nested_process |= pc >= 2;
                }
            }
            if ph + 1 == nphases {
                // every span must be given an iteration count before it drops
                while let Some((id, s, n, at, opened_ph)) = open.pop() {
                    plan.span_across_phase |= opened_ph != ph;
                    plan.spans.push(SpanRef { session: s, name: n, k: 1, bytes: cum.0 - at.0, count: cum.1 - at.1, process: false, closed_at: ph + 1 });
                    out.push(Step::CloseT { span: id, k: 1 });
                }
            }
            plan.steps[ph][t] = out;
        }
        cum_at[t][nphases] = cum;
        plan.max_calls_per_thread = plan.max_calls_per_thread.max(calls);
        plan.total_live_at_end += live.len();
    }

    let all_at = |b: usize| -> (u64, u64) { cum_at.iter().fold((0, 0), |a, c| (a.0 + c[b].0, a.1 + c[b].1)) };
    for p in &plan.pspans {
        let (o, c) = (all_at(p.open_b), all_at(p.close_b));
        plan.spans.push(SpanRef { session: p.session, name: p.name, k: p.k, bytes: c.0 - o.0, count: c.1 - o.1, process: true, closed_at: p.close_b });
        plan.opens.push((p.session, p.name, p.open_b));
        plan.cross_thread_pspan |= p.open_t != p.close_t;
        plan.zero_iterations |= p.k == 0;
    }
    plan
}

// ---------------------------------------------------------------------------------------------
// Execution
// ---------------------------------------------------------------------------------------------

struct Shared {
    sessions: Vec<Session>,
    names: Vec<String>,
    handles: Vec<Vec<Option<Operation>>>,
    pslots: Vec<Mutex<Option<ProcessSpan>>>,
}

fn with_op<R>(sh: &Shared, s: usize, n: usize, shared: bool, f: impl FnOnce(&Operation) -> R) -> R {
    if shared {
        if let Some(op) = &sh.handles[s][n] {
            return f(op);
        }
    }
    // a second handle for the same name shares the data with every other one (session.rs docs)
    let op = sh.sessions[s].operation(sh.names[n].as_str());
    f(&op)
}

#[derive(Clone, Copy, Debug)]
struct Block {
    ptr: usize,
    size: usize,
    align: usize,
    live: bool,
}

#[derive(Default)]
struct ThreadResult {
    calls: Vec<Rec>,
    inner: Vec<Rec>,
    log_overflow: bool,
    failure: Option<Failure>,
    panic: Option<String>,
    infra: Option<String>,
    snapshots: Vec<(usize, Vec<Report>)>,
    live: Vec<Block>,
}

/// True when every byte of `mem` equals `byte` (word-wise: blocks go up to 1 MiB).
fn all_eq(mem: &[u8], byte: u8) -> bool {
    // SAFETY: any bit pattern is a valid u64.
    let (head, mid, tail) = unsafe { mem.align_to::<u64>() };
    let word = u64::from_ne_bytes([byte; 8]);
    head.iter().all(|b| *b == byte) && mid.iter().all(|w| *w == word) && tail.iter().all(|b| *b == byte)
}

fn pattern(slot: usize) -> u8 {
    ((slot as u8).wrapping_mul(37) ^ 0x5A) | 1
}

fn prepare_log(capacity: usize) {
    LOG.with(|l| {
        let mut l = l.borrow_mut();
        l.clear();
        l.reserve(capacity);
    });
    LOG_OVERFLOW.with(|o| o.set(false));
    FAIL_NEXT.with(|f| f.set(false));
}

fn take_log() -> (Vec<Rec>, bool) {
    let v = LOG.with(|l| l.borrow().clone());
    (v, LOG_OVERFLOW.with(|o| o.get()))
}

struct ThreadState {
    blocks: Vec<Block>,
    spans: Vec<Option<ThreadSpan>>,
    res: ThreadResult,
}

impl ThreadState {
    fn fail_once(&mut self, sig: &str, msg: String) {
        if self.res.failure.is_none() {
            self.res.failure = Some(Failure::new(sig, msg));
        }
    }

    fn run_steps(&mut self, steps: &[Step], sh: &Shared) {
        for st in steps {
            match *st {
                Step::Alloc { size, align, zeroed, fail } => {
                    let slot = self.blocks.len();
                    let layout = Layout::from_size_align(size, align).expect("valid layout");
                    if fail {
                        FAIL_NEXT.with(|f| f.set(true));
                    }
                    // SAFETY: layout has non-zero size.
                    let p = unsafe { if zeroed { TRACKER.alloc_zeroed(layout) } else { TRACKER.alloc(layout) } };
                    self.res.calls.push(Rec {
                        kind: if zeroed { Kind::AllocZeroed } else { Kind::Alloc },
                        size,
                        align,
                        new_size: 0,
                        arg: 0,
                        ret: p as usize,
                    });
                    // if the inner allocator never saw the request the log comparison reports it
                    FAIL_NEXT.with(|f| f.set(false));
                    if fail {
                        if !p.is_null() {
                            self.fail_once("C18/transparency/null-not-propagated", format!("inner allocator returned null for alloc({size},{align}) but the tracker returned {p:p}"));
                        }
                        self.blocks.push(Block { ptr: 0, size, align, live: false });
                        continue;
                    }
                    if p.is_null() {
                        self.res.infra = Some(format!("system allocator returned null for alloc({size},{align})"));
                        self.blocks.push(Block { ptr: 0, size, align, live: false });
                        continue;
                    }
                    // SAFETY: p is a fresh block of `size` bytes.
                    let mem = unsafe { std::slice::from_raw_parts_mut(p, size) };
                    if zeroed && !all_eq(mem, 0) {
                        self.fail_once("C18/transparency/alloc_zeroed-not-zero", format!("alloc_zeroed({size},{align}) through the tracker returned non-zero memory"));
                    }
                    mem.fill(pattern(slot));
                    self.blocks.push(Block { ptr: p as usize, size, align, live: true });
                }
                Step::Realloc { slot, old_size, align, new_size, fail } => {
                    let b = self.blocks[slot];
                    assert!(b.live && b.size == old_size && b.align == align, "plan/runtime disagree on block {slot}");
                    let layout = Layout::from_size_align(old_size, align).expect("valid layout");
                    if fail {
                        FAIL_NEXT.with(|f| f.set(true));
                    }
                    // SAFETY: block is live, allocated with `layout` via the same allocator; new_size >= 1 and <= 1 MiB.
                    let p = unsafe { TRACKER.realloc(b.ptr as *mut u8, layout, new_size) };
                    self.res.calls.push(Rec { kind: Kind::Realloc, size: old_size, align, new_size, arg: b.ptr, ret: p as usize });
                    FAIL_NEXT.with(|f| f.set(false));
                    if fail {
                        if !p.is_null() {
                            self.fail_once("C18/transparency/null-not-propagated", format!("inner allocator returned null for realloc({old_size}->{new_size},{align}) but the tracker returned {p:p}"));
                            // the block's fate is unknown now; stop using it
                            self.blocks[slot].live = false;
                            self.res.infra.get_or_insert_with(|| "block state unknown after a non-null result of a failing realloc".into());
                        }
                        continue;
                    }
                    if p.is_null() {
                        self.res.infra = Some(format!("system allocator returned null for realloc({old_size}->{new_size},{align})"));
                        continue;
                    }
                    // SAFETY: p is a block of new_size bytes.
                    let mem = unsafe { std::slice::from_raw_parts_mut(p, new_size) };
                    let keep = old_size.min(new_size);
                    let pat = pattern(slot);
                    if !all_eq(&mem[..keep], pat) {
                        self.fail_once("C18/transparency/realloc-prefix-lost", format!("realloc({old_size}->{new_size},{align}) through the tracker did not preserve the first {keep} bytes"));
                    }
                    mem[keep..].fill(pat);
                    self.blocks[slot].ptr = p as usize;
                    self.blocks[slot].size = new_size;
                }
                Step::Dealloc { slot, size, align } => {
                    let b = self.blocks[slot];
                    assert!(b.live && b.size == size && b.align == align, "plan/runtime disagree on block {slot}");
                    let layout = Layout::from_size_align(size, align).expect("valid layout");
                    // SAFETY: block is live and was allocated with this layout.
                    unsafe { TRACKER.dealloc(b.ptr as *mut u8, layout) };
                    self.res.calls.push(Rec { kind: Kind::Dealloc, size, align, new_size: 0, arg: b.ptr, ret: 0 });
                    self.blocks[slot].live = false;
                }
                Step::OpenT { session, name, shared } => {
                    let span = with_op(sh, session, name, shared, Operation::measure_thread);
                    self.spans.push(Some(span));
                }
                Step::CloseT { span, k } => {
                    let sp = self.spans[span].take().expect("span open");
                    drop(sp.iterations(k));
                }
            }
        }
    }
}

fn boundary_ops(plan: &Plan, sh: &Shared, b: usize, who: usize) {
    for (i, p) in plan.pspans.iter().enumerate() {
        if p.open_b == b && p.open_t == who {
            let span = with_op(sh, p.session, p.name, p.shared, Operation::measure_process);
            *sh.pslots[i].lock().expect("pslot") = Some(span);
        }
    }
    for (i, p) in plan.pspans.iter().enumerate() {
        if p.close_b == b && p.close_t == who {
            let span = sh.pslots[i].lock().expect("pslot").take().expect("process span open");
            drop(span.iterations(p.k));
        }
    }
}

fn run_thread(plan: &Plan, sh: &Shared, barrier: &Barrier, t: usize) -> ThreadResult {
    prepare_log(plan.max_calls_per_thread + 8);
    let mut st = ThreadState { blocks: Vec::new(), spans: Vec::new(), res: ThreadResult::default() };
    st.res.calls.reserve(plan.max_calls_per_thread + 8);
    let mut dead = false;
    for b in 0..plan.nphases {
        barrier.wait(); // everyone finished phase b-1
        if !dead {
            if let Err(p) = catch_unwind(AssertUnwindSafe(|| boundary_ops(plan, sh, b, t))) {
                st.res.panic = Some(panic_message(&*p));
                dead = true;
            }
        }
        barrier.wait(); // boundary b done, counters quiescent
        if plan.snapshot[b] {
            if t == 0 {
                match catch_unwind(AssertUnwindSafe(|| sh.sessions.iter().map(Session::to_report).collect::<Vec<_>>())) {
                    Ok(r) => st.res.snapshots.push((b, r)),
                    Err(p) => {
                        st.res.panic.get_or_insert(panic_message(&*p));
                        dead = true;
                    }
                }
            }
            barrier.wait();
        }
        if !dead {
            let steps = &plan.steps[b][t];
            if let Err(p) = catch_unwind(AssertUnwindSafe(|| st.run_steps(steps, sh))) {
                st.res.panic = Some(panic_message(&*p));
                dead = true;
            }
        }
    }
    // a span dropped without a count panics; give leftovers (only after a failure) a count
    for sp in st.spans.drain(..).flatten() {
        let _ = catch_unwind(AssertUnwindSafe(|| drop(sp.iterations(0))));
    }
    let (inner, overflow) = take_log();
    st.res.inner = inner;
    st.res.log_overflow = overflow;
    st.res.live = st.blocks.iter().copied().filter(|b| b.live).collect();
    st.res
}

struct Job {
    plan: Arc<Plan>,
    shared: Arc<Shared>,
    barrier: Arc<Barrier>,
    t: usize,
    done: mpsc::Sender<(usize, ThreadResult)>,
}

struct Pool {
    txs: Vec<mpsc::Sender<Job>>,
}

impl Pool {
    fn new(n: usize) -> Self {
        let txs = (0..n)
            .map(|i| {
                let (tx, rx) = mpsc::channel::<Job>();
                std::thread::Builder::new()
                    .name(format!("c18-worker-{i}"))
                    .spawn(move || {
                        for job in rx {
                            let r = run_thread(&job.plan, &job.shared, &job.barrier, job.t);
                            let _ = job.done.send((job.t, r));
                        }
                    })
                    .expect("spawn worker");
                tx
            })
            .collect();
        Self { txs }
    }
}

fn run_case(plan: Arc<Plan>, shared: Arc<Shared>, fresh: bool, pool: &Pool) -> Vec<ThreadResult> {
    let n = plan.threads;
    let barrier = Arc::new(Barrier::new(n));
    let mut results: Vec<Option<ThreadResult>> = (0..n).map(|_| None).collect();
    if fresh {
        std::thread::scope(|s| {
            let hs: Vec<_> = (0..n)
                .map(|t| {
                    let (plan, shared, barrier) = (&plan, &shared, &barrier);
                    s.spawn(move || run_thread(plan, shared, barrier, t))
                })
                .collect();
            for (t, h) in hs.into_iter().enumerate() {
                results[t] = Some(h.join().expect("worker thread"));
            }
        });
    } else {
        let (tx, rx) = mpsc::channel();
        for t in 0..n {
            pool.txs[t]
                .send(Job { plan: Arc::clone(&plan), shared: Arc::clone(&shared), barrier: Arc::clone(&barrier), t, done: tx.clone() })
                .expect("pool worker alive");
        }
        drop(tx);
        for _ in 0..n {
            let (t, r) = rx.recv().expect("pool worker result");
            results[t] = Some(r);
        }
    }
    results.into_iter().map(|r| r.expect("result")).collect()
}

// ---------------------------------------------------------------------------------------------
// Reference figures and report comparison
// ---------------------------------------------------------------------------------------------

#[derive(Default, Clone, Debug)]
struct Agg {
    spans: u64,
    iterations: u64,
    bytes: u64,
    count: u64,
    s_nn: u128,
    s_nb: u128,
    s_nc: u128,
    thread: bool,
    process: bool,
}

impl Agg {
    fn add(&mut self, s: &SpanRef) {
        self.spans += 1;
        self.iterations += s.k;
        self.bytes += s.bytes;
        self.count += s.count;
        self.s_nn += u128::from(s.k) * u128::from(s.k);
        self.s_nb += u128::from(s.k) * u128::from(s.bytes);
        self.s_nc += u128::from(s.k) * u128::from(s.count);
        self.thread |= !s.process;
        self.process |= s.process;
    }

    fn kind(&self) -> &'static str {
        match (self.thread, self.process) {
            (true, false) => "thread-spans",
            (false, true) => "process-spans",
            (true, true) => "mixed-spans",
            (false, false) => "no-spans",
        }
    }
}

/// Expected content of session `s`'s report at boundary `time` (nphases = final).
fn expected(plan: &Plan, s: usize, time: usize) -> BTreeMap<usize, Agg> {
    let mut m: BTreeMap<usize, Agg> = BTreeMap::new();
    for n in 0..plan.names {
        if plan.precreate[s][n] {
            m.entry(n).or_default();
        }
    }
    for (os, on, at) in &plan.opens {
        if *os == s && *at <= time {
            m.entry(*on).or_default();
        }
    }
    for sp in &plan.spans {
        if sp.session == s && sp.closed_at <= time {
            m.entry(sp.name).or_default().add(sp);
        }
    }
    m
}

fn slope_matches(got: Option<f64>, s_nx: u128, s_nn: u128, spans: u64) -> bool {
    // documented: slope = sum(n_i * t_i) / sum(n_i^2); None without a finite rate
    if spans == 0 || s_nn == 0 {
        return got.is_none();
    }
    let want = s_nx as f64 / s_nn as f64;
    match got {
        Some(g) => (g - want).abs() <= 1e-9 * want.abs().max(1.0),
        None => false,
    }
}

fn compare_report(what: &str, report: &Report, want: &BTreeMap<String, Agg>, label: &str) -> Verdict {
    let got: BTreeMap<String, &alloc_tracker::ReportOperation> = report.operations().map(|(n, o)| (n.to_string(), o)).collect();
    let got_names: BTreeSet<&String> = got.keys().collect();
    let want_names: BTreeSet<&String> = want.keys().collect();
    ensure!(got.len() == report.operations().count(), format!("C18/{what}/duplicate-operation"), "{label}: operations() yields a name twice");
    ensure!(got_names == want_names, format!("C18/{what}/operation-set"), "{label}: report has operations {:?}, expected {:?}", got_names, want_names);
    for (name, a) in want {
        let op = got[name];
        let kind = a.kind();
        ensure!(
            op.total_bytes_allocated() == a.bytes,
            format!("C18/{what}/{kind}/bytes"),
            "{label}: operation {name}: total_bytes_allocated {} but the requested sizes inside its spans sum to {} ({} spans)",
            op.total_bytes_allocated(),
            a.bytes,
            a.spans
        );
        ensure!(
            op.total_allocations_count() == a.count,
            format!("C18/{what}/{kind}/count"),
            "{label}: operation {name}: total_allocations_count {} but {} allocation calls were made inside its spans ({} spans)",
            op.total_allocations_count(),
            a.count,
            a.spans
        );
        ensure!(
            op.total_iterations() == a.iterations,
            format!("C18/{what}/iterations"),
            "{label}: operation {name}: total_iterations {} expected {}",
            op.total_iterations(),
            a.iterations
        );
        let st = op.statistics();
        ensure!(
            st.map_or(0, |s| s.span_count) == a.spans && st.is_some() == (a.spans > 0),
            format!("C18/{what}/span-count"),
            "{label}: operation {name}: statistics span_count {:?} expected {}",
            st.map(|s| s.span_count),
            a.spans
        );
        ensure!(
            slope_matches(op.bytes(), a.s_nb, a.s_nn, a.spans),
            format!("C18/{what}/{kind}/per-iteration-bytes"),
            "{label}: operation {name}: bytes() {:?}, documented slope sum(n*t)/sum(n^2) = {}/{}",
            op.bytes(),
            a.s_nb,
            a.s_nn
        );
        ensure!(
            slope_matches(op.allocations(), a.s_nc, a.s_nn, a.spans),
            format!("C18/{what}/{kind}/per-iteration-allocations"),
            "{label}: operation {name}: allocations() {:?}, documented slope sum(n*t)/sum(n^2) = {}/{}",
            op.allocations(),
            a.s_nc,
            a.s_nn
        );
        if let Some(s) = st {
            // statistics() carries the same slope; NaN when the spans covered zero iterations
            let same = |x: f64, o: Option<f64>| o.map_or(x.is_nan() || !x.is_finite(), |v| v == x);
            ensure!(
                same(s.bytes.slope, op.bytes()) && same(s.allocations.slope, op.allocations()),
                format!("C18/{what}/statistics-disagree"),
                "{label}: operation {name}: statistics() slopes ({}, {}) disagree with bytes()/allocations() ({:?}, {:?})",
                s.bytes.slope,
                s.allocations.slope,
                op.bytes(),
                op.allocations()
            );
        }
    }
    let want_empty = want.values().all(|a| a.iterations == 0);
    ensure!(report.is_empty() == want_empty, format!("C18/{what}/is_empty"), "{label}: is_empty() = {} expected {}", report.is_empty(), want_empty);
    Ok(())
}

fn named(plan_names: &[String], m: &BTreeMap<usize, Agg>) -> BTreeMap<String, Agg> {
    m.iter().map(|(n, a)| (plan_names[*n].clone(), a.clone())).collect()
}

fn sum_into(into: &mut BTreeMap<String, Agg>, from: &BTreeMap<String, Agg>) {
    for (n, a) in from {
        let e = into.entry(n.clone()).or_default();
        e.spans += a.spans;
        e.iterations += a.iterations;
        e.bytes += a.bytes;
        e.count += a.count;
        e.s_nn += a.s_nn;
        e.s_nb += a.s_nb;
        e.s_nc += a.s_nc;
        e.thread |= a.thread;
        e.process |= a.process;
    }
}

fn compare_logs(who: &str, calls: &[Rec], inner: &[Rec]) -> Verdict {
    for (i, (c, n)) in calls.iter().zip(inner.iter()).enumerate() {
        if c == n {
            continue;
        }
        let sig = if c.kind != n.kind {
            format!("C18/transparency/request-kind-changed/{:?}-as-{:?}", c.kind, n.kind)
        } else if c.size != n.size || c.align != n.align {
            format!("C18/transparency/layout-changed/{:?}", c.kind)
        } else if c.new_size != n.new_size {
            "C18/transparency/new_size-changed".to_string()
        } else if c.arg != n.arg {
            format!("C18/transparency/pointer-argument-changed/{:?}", c.kind)
        } else {
            format!("C18/transparency/returned-pointer-differs/{:?}", c.kind)
        };
        return Err(Failure::new(sig, format!("{who}: call #{i} on the tracker was {c:?} but the wrapped allocator saw {n:?}")));
    }
    ensure!(
        calls.len() == inner.len(),
        if calls.len() > inner.len() { "C18/transparency/request-not-forwarded" } else { "C18/transparency/extra-inner-request" },
        "{who}: {} calls were made on the tracker, the wrapped allocator saw {}; first unmatched: {:?}",
        calls.len(),
        inner.len(),
        if calls.len() > inner.len() { calls[inner.len()] } else { inner[calls.len()] }
    );
    Ok(())
}

// ---------------------------------------------------------------------------------------------
// Oracle
// ---------------------------------------------------------------------------------------------

fn check(case: &Case, ctx: &mut Ctx, pool: &Pool) -> Verdict {
    let plan = Arc::new(build_plan(case));
    let names: Vec<String> = (0..plan.names).map(|n| format!("op{n}")).collect();
    let sessions: Vec<Session> = (0..plan.sessions).map(|_| Session::new().no_stdout().no_file()).collect();
    let handles: Vec<Vec<Option<Operation>>> = (0..plan.sessions)
        .map(|s| (0..plan.names).map(|n| plan.precreate[s][n].then(|| sessions[s].operation(names[n].as_str()))).collect())
        .collect();
    let shared = Arc::new(Shared { sessions, names: names.clone(), handles, pslots: plan.pspans.iter().map(|_| Mutex::new(None)).collect() });

    let results = run_case(Arc::clone(&plan), Arc::clone(&shared), case.fresh, pool);

    // main thread: release what the workers left allocated (cross-thread dealloc through the
    // tracker, while the process spans of the last phases are still open), then boundary P.
    prepare_log(plan.total_live_at_end + 8);
    let mut main_calls = Vec::with_capacity(plan.total_live_at_end);
    for r in &results {
        for b in &r.live {
            let layout = Layout::from_size_align(b.size, b.align).expect("valid layout");
            // SAFETY: the block is live, allocated through TRACKER with this layout (after reallocs).
            unsafe { TRACKER.dealloc(b.ptr as *mut u8, layout) };
            main_calls.push(Rec { kind: Kind::Dealloc, size: b.size, align: b.align, new_size: 0, arg: b.ptr, ret: 0 });
        }
    }
    let (main_inner, main_overflow) = take_log();
    let main_panic = catch_unwind(AssertUnwindSafe(|| boundary_ops(&plan, &shared, plan.nphases, MAIN))).err().map(|p| panic_message(&*p));
    let finals = catch_unwind(AssertUnwindSafe(|| shared.sessions.iter().map(Session::to_report).collect::<Vec<Report>>()));
    // leftover process spans (only after a failure) need a count before they drop
    for slot in &shared.pslots {
        if let Some(sp) = slot.lock().expect("pslot").take() {
            let _ = catch_unwind(AssertUnwindSafe(|| drop(sp.iterations(0))));
        }
    }

    // ---- classification
    ctx.classify(match plan.threads {
        1 => "threads:1",
        2..=4 => "threads:2-4",
        5..=8 => "threads:5-8",
        _ => "threads:9-16",
    });
    for (flag, label) in [
        (plan.has_realloc, "realloc"),
        (plan.realloc_grow, "realloc-grow"),
        (plan.realloc_shrink, "realloc-shrink"),
        (plan.nested_thread, "nested-thread-spans"),
        (plan.thread_in_process, "thread-span-inside-process-span"),
        (plan.nested_process, "nested-process-spans"),
        (plan.overlapping, "overlapping-thread-spans"),
        (plan.span_across_phase, "thread-span-across-barrier"),
        (plan.cross_thread_pspan, "process-span-closed-by-other-thread"),
        (plan.failed_calls, "inner-returns-null"),
        (plan.zero_iterations, "zero-iterations-span"),
        (plan.big_alloc, "size>64KiB"),
        (plan.big_align, "align>16"),
        (plan.sessions >= 2, "merge-of->=2-sessions"),
        (case.fresh, "fresh-threads"),
        (plan.snapshot.iter().any(|s| *s), "mid-run-report"),
        (plan.total_live_at_end > 0, "cross-thread-dealloc"),
    ] {
        if flag {
            ctx.classify(label);
        }
    }
    let nested = plan.nested_thread || plan.thread_in_process || plan.nested_process;
    if plan.threads >= 2 && plan.has_realloc && nested {
        ctx.nontrivial();
    }

    // ---- infrastructure problems are never violations
    for r in &results {
        if let Some(m) = &r.infra {
            eprintln!("C18 infrastructure problem: {m}");
            if r.failure.is_none() {
                std::process::exit(2);
            }
        }
        if r.log_overflow || main_overflow {
            // more inner requests than harness calls + slack: reported below as a length mismatch
        }
    }

    // ---- panics of the code under test (none is documented for these inputs)
    for (t, r) in results.iter().enumerate() {
        if let Some(p) = &r.panic {
            return Err(Failure::new(format!("C18/panic/{}", normalise(p)), format!("thread {t}: tracker code panicked: {p}")));
        }
    }
    if let Some(p) = &main_panic {
        return Err(Failure::new(format!("C18/panic/{}", normalise(p)), format!("main thread: closing process spans panicked: {p}")));
    }

    // ---- transparency
    for (t, r) in results.iter().enumerate() {
        compare_logs(&format!("thread {t}"), &r.calls, &r.inner)?;
        ensure!(!r.log_overflow, "C18/transparency/extra-inner-request", "thread {t}: the wrapped allocator saw more requests than its log could hold");
    }
    compare_logs("main thread", &main_calls, &main_inner)?;
    for r in &results {
        if let Some(f) = &r.failure {
            return Err(f.clone());
        }
    }

    // ---- exactness: mid-run snapshots, final reports, merges
    let mut first_snapshot: Option<(usize, Report)> = None;
    for (b, reports) in &results[0].snapshots {
        for (s, rep) in reports.iter().enumerate() {
            let want = named(&names, &expected(&plan, s, *b));
            compare_report("snapshot", rep, &want, &format!("session {s} at boundary {b}"))?;
            if s == 0 && first_snapshot.is_none() {
                first_snapshot = Some((*b, rep.clone()));
            }
        }
    }
    let finals = match finals {
        Ok(f) => f,
        Err(p) => {
            let m = panic_message(&*p);
            return Err(Failure::new(format!("C18/panic/{}", normalise(&m)), format!("to_report panicked: {m}")));
        }
    };
    let mut want_merged: BTreeMap<String, Agg> = BTreeMap::new();
    let mut merged = Report::default();
    for (s, rep) in finals.iter().enumerate() {
        let want = named(&names, &expected(&plan, s, plan.nphases));
        compare_report("report", rep, &want, &format!("session {s} final"))?;
        sum_into(&mut want_merged, &want);
        merged = Report::merge(&merged, rep);
    }
    compare_report("merge", &merged, &want_merged, "merge of all sessions")?;
    if let Some((b, snap)) = first_snapshot {
        // a report merged with an earlier snapshot of the same session is the sum of both
        let mut want = named(&names, &expected(&plan, 0, b));
        sum_into(&mut want, &named(&names, &expected(&plan, 0, plan.nphases)));
        let m = Report::merge(&snap, &finals[0]);
        compare_report("merge", &m, &want, &format!("merge of session 0's snapshot at boundary {b} with its final report"))?;
    }
    Ok(())
}

fn replay_section_of_args() -> Option<String> {
    let args: Vec<String> = std::env::args().collect();
    let p = args.iter().position(|a| a == "--replay").and_then(|i| args.get(i + 1))?;
    let v: serde_json::Value = serde_json::from_str(&std::fs::read_to_string(p).ok()?).ok()?;
    v.get("section").and_then(|s| s.as_str()).map(str::to_string)
}

fn main() {
    if replay_section_of_args().is_some_and(|s| s != "histories") {
        return; // replay of the other binary's section
    }
    // Keep freed blocks inside the process (no munmap / heap trim per large block): with up to
    // 16 worker threads sharing the address space that traffic only costs run time.
    #[cfg(all(target_os = "linux", target_env = "gnu"))]
    // SAFETY: plain glibc tuning calls before any worker thread exists.
    unsafe {
        libc::mallopt(libc::M_MMAP_THRESHOLD, 32 << 20);
        libc::mallopt(libc::M_TRIM_THRESHOLD, 1 << 30);
    }
    let mut h = Harness::from_args("C18");
    let pool = Pool::new(16);
    let cases = h.cases(24_000, 1_600_000);
    h.section(
        "histories",
        "tracker used as an object over a checking inner allocator; generated per-thread scripts (1..16 real threads, 1..4 barrier-separated phases) of alloc/alloc_zeroed/realloc/dealloc with sizes 1..1MiB and aligns 1..4096, inner-null injection, thread spans nested/overlapping/across barriers, process spans opened and closed at quiescent boundaries (also by another thread), 1..3 sessions over shared operation names, mid-run and final reports, merges; non-trivial = >=2 threads, at least one realloc, and an allocation call made while >=2 spans are open (nested thread spans, thread span inside process span, or nested process spans); distinct by serialised case",
        cases,
        case_strategy(),
        |case, ctx| check(case, ctx, &pool),
    );
    h.finish()
}
