//! C18 (secondary, smoke) — the tracker installed as `#[global_allocator]`.
//!
//! Over quiescent single-threaded windows the figures a thread span and a process span report
//! must equal what a counting inner allocator saw in the same window, and — when the window
//! contains nothing but the harness's own direct `std::alloc` calls — exactly the number and
//! requested sizes of those calls. Ordinary Rust allocations (Vec / String / Box) give a lower
//! bound plus the tracker == inner equality.

use std::alloc::{GlobalAlloc, Layout, System};
use std::sync::atomic::{AtomicU64, Ordering};

use alloc_tracker::{Allocator, Session};
use proptest::prelude::*;
use serde::{Deserialize, Serialize};
use vcommon::{Ctx, Harness, Verdict, ensure, pick_index};

static IN_BYTES: AtomicU64 = AtomicU64::new(0);
static IN_CALLS: AtomicU64 = AtomicU64::new(0);

struct Counting;

fn seen(bytes: usize) {
    IN_BYTES.fetch_add(bytes as u64, Ordering::Relaxed);
    IN_CALLS.fetch_add(1, Ordering::Relaxed);
}

// SAFETY: forwards everything to `System`.
unsafe impl GlobalAlloc for Counting {
    unsafe fn alloc(&self, layout: Layout) -> *mut u8 {
        seen(layout.size());
        unsafe { System.alloc(layout) }
    }
    unsafe fn dealloc(&self, ptr: *mut u8, layout: Layout) {
        unsafe { System.dealloc(ptr, layout) }
    }
    unsafe fn alloc_zeroed(&self, layout: Layout) -> *mut u8 {
        seen(layout.size());
        unsafe { System.alloc_zeroed(layout) }
    }
    unsafe fn realloc(&self, ptr: *mut u8, layout: Layout, new_size: usize) -> *mut u8 {
        seen(new_size);
        unsafe { System.realloc(ptr, layout, new_size) }
    }
}

#[global_allocator]
static GLOBAL: Allocator<Counting> = Allocator::new(Counting);

fn inner_now() -> (u64, u64) {
    (IN_BYTES.load(Ordering::Relaxed), IN_CALLS.load(Ordering::Relaxed))
}

#[derive(Debug, Clone, Serialize, Deserialize)]
enum DOp {
    Alloc { size: u32, align_log2: u8, zeroed: bool },
    Realloc { slot: u16, new_size: u32 },
    Dealloc { slot: u16 },
}

#[derive(Debug, Clone, Serialize, Deserialize)]
struct Case {
    direct: Vec<DOp>,
    /// sizes of ordinary `Vec<u8>` allocations pushed into a growing outer Vec
    ordinary: Vec<u16>,
    k: u32,
}

fn case_strategy() -> impl Strategy<Value = Case> {
    let size = prop_oneof![4 => 1u32..=64, 4 => 1u32..=4096, 1 => 4097u32..=262_144];
    let dop = prop_oneof![
        4 => (size.clone(), 0u8..=12, any::<bool>()).prop_map(|(size, align_log2, zeroed)| DOp::Alloc { size, align_log2, zeroed }),
        3 => (any::<u16>(), size).prop_map(|(slot, new_size)| DOp::Realloc { slot, new_size }),
        2 => any::<u16>().prop_map(|slot| DOp::Dealloc { slot }),
    ];
    (prop::collection::vec(dop, 0..=24), prop::collection::vec(1u16..=2048, 0..=24), prop_oneof![Just(0u32), Just(1u32), 2u32..=1000])
        .prop_map(|(direct, ordinary, k)| Case { direct, ordinary, k })
}

fn check(case: &Case, ctx: &mut Ctx) -> Verdict {
    let session = Session::new().no_stdout().no_file();
    let (a_t, a_p, b_t, b_p) = (session.operation("a_thread"), session.operation("a_process"), session.operation("b_thread"), session.operation("b_process"));
    let k = u64::from(case.k);

    // ---- window A: nothing but direct std::alloc calls (tables preallocated)
    let mut live: Vec<(*mut u8, Layout)> = Vec::with_capacity(case.direct.len() + 1);
    let (mut want_bytes, mut want_calls, mut reallocs) = (0u64, 0u64, 0u32);
    let base = inner_now();
    let ps = a_p.measure_process();
    let ts = a_t.measure_thread();
    for op in &case.direct {
        match *op {
            DOp::Alloc { size, align_log2, zeroed } => {
                let layout = Layout::from_size_align(size.max(1) as usize, 1usize << align_log2.min(12)).expect("layout");
                // SAFETY: non-zero size.
                let p = unsafe { if zeroed { std::alloc::alloc_zeroed(layout) } else { std::alloc::alloc(layout) } };
                if p.is_null() {
                    eprintln!("C18 installed: system allocator returned null");
                    std::process::exit(2);
                }
                want_bytes += layout.size() as u64;
                want_calls += 1;
                live.push((p, layout));
            }
            DOp::Realloc { slot, new_size } => {
                if !live.is_empty() {
                    let i = pick_index(slot, live.len());
                    let (p, layout) = live[i];
                    let new_size = new_size.max(1) as usize;
                    // SAFETY: live block of this layout, new_size in 1..=256 KiB.
                    let q = unsafe { std::alloc::realloc(p, layout, new_size) };
                    if q.is_null() {
                        eprintln!("C18 installed: system allocator returned null");
                        std::process::exit(2);
                    }
                    want_bytes += new_size as u64;
                    want_calls += 1;
                    reallocs += 1;
                    live[i] = (q, Layout::from_size_align(new_size, layout.align()).expect("layout"));
                }
            }
            DOp::Dealloc { slot } => {
                if !live.is_empty() {
                    let (p, layout) = live.swap_remove(pick_index(slot, live.len()));
                    // SAFETY: live block of this layout.
                    unsafe { std::alloc::dealloc(p, layout) };
                }
            }
        }
    }
    let after = inner_now();
    drop(ts.iterations(k));
    drop(ps.iterations(k));
    let inner_a = (after.0 - base.0, after.1 - base.1);
    for (p, layout) in live.drain(..) {
        // SAFETY: live block of this layout.
        unsafe { std::alloc::dealloc(p, layout) };
    }

    // ---- window B: ordinary Rust allocations
    let base = inner_now();
    let ps = b_p.measure_process();
    let ts = b_t.measure_thread();
    let mut outer: Vec<Vec<u8>> = Vec::new();
    let (mut low_bytes, mut low_calls) = (0u64, 0u64);
    for s in &case.ordinary {
        outer.push(Vec::with_capacity(*s as usize));
        low_bytes += u64::from(*s);
        low_calls += 1;
    }
    let boxed = std::hint::black_box(Box::new([0u64; 4]));
    low_bytes += 32;
    low_calls += 1;
    let after = inner_now();
    drop(ts.iterations(k));
    drop(ps.iterations(k));
    let inner_b = (after.0 - base.0, after.1 - base.1);
    drop(boxed);
    drop(outer);

    let report = session.to_report();
    let get = |name: &str| -> (u64, u64, u64) {
        report
            .operations()
            .find(|(n, _)| *n == name)
            .map(|(_, o)| (o.total_bytes_allocated(), o.total_allocations_count(), o.total_iterations()))
            .unwrap_or((u64::MAX, u64::MAX, u64::MAX))
    };

    let exclusive = inner_a == (want_bytes, want_calls);
    ctx.classify(if exclusive { "window-A-exclusive" } else { "window-A-not-exclusive" });
    if reallocs > 0 {
        ctx.classify("direct-realloc");
    }
    if !case.ordinary.is_empty() {
        ctx.classify("ordinary-allocations");
    }
    if reallocs > 0 && want_calls >= 3 && !case.ordinary.is_empty() {
        ctx.nontrivial();
    }

    for (name, inner, what) in [("a_thread", inner_a, "thread"), ("a_process", inner_a, "process"), ("b_thread", inner_b, "thread"), ("b_process", inner_b, "process")] {
        let (bytes, calls, iters) = get(name);
        ensure!(
            (bytes, calls) == inner,
            format!("C18/installed/{what}-span-differs-from-inner"),
            "{name}: span reported ({bytes} bytes, {calls} calls) but the wrapped allocator saw ({} bytes, {} calls) in the same single-threaded window",
            inner.0,
            inner.1
        );
        ensure!(iters == k, "C18/installed/iterations", "{name}: total_iterations {iters} expected {k}");
    }
    // lower bound: every deliberate request is inside the window
    ensure!(
        inner_a.0 >= want_bytes && inner_a.1 >= want_calls && inner_b.0 >= low_bytes && inner_b.1 >= low_calls,
        "C18/installed/harness-lower-bound",
        "inner allocator saw fewer requests than the harness made: A {:?} vs ({want_bytes},{want_calls}), B {:?} vs ({low_bytes},{low_calls})",
        inner_a,
        inner_b
    );
    if exclusive {
        let (bytes, calls, _) = get("a_thread");
        ensure!(
            (bytes, calls) == (want_bytes, want_calls),
            "C18/installed/direct-calls-not-exact",
            "thread span reported ({bytes},{calls}) for exactly ({want_bytes},{want_calls}) direct std::alloc requests"
        );
    }
    Ok(())
}

fn replay_section_of_args() -> Option<String> {
    let args: Vec<String> = std::env::args().collect();
    let p = args.iter().position(|a| a == "--replay").and_then(|i| args.get(i + 1))?;
    let v: serde_json::Value = serde_json::from_str(&std::fs::read_to_string(p).ok()?).ok()?;
    v.get("section").and_then(|s| s.as_str()).map(str::to_string)
}

fn main() {
    if replay_section_of_args().is_some_and(|s| s != "installed") {
        return; // replay of the other binary's section
    }
    let mut h = Harness::from_args("C18");
    let cases = h.cases(60_000, 3_000_000);
    h.section(
        "installed",
        "smoke: tracker installed as #[global_allocator] over a counting inner allocator, single-threaded process; window A = generated direct std::alloc alloc/alloc_zeroed/realloc/dealloc calls only, window B = ordinary Vec/Box allocations; thread-span and process-span figures must equal the inner allocator's counts over the window, and the exact direct request totals when the window is exclusive; non-trivial = >=3 direct requests incl. a realloc plus ordinary allocations",
        cases,
        case_strategy(),
        check,
    );
    h.finish()
}
