//! Section `codec`: cbh_codec round trip and hostile input.

use proptest::prelude::*;
use serde::{Deserialize, Serialize};
use vcommon::{Ctx, Harness, Verdict, ensure, fail, pick_index};

use crate::common::{Payload, payload_strategy, short};

#[derive(Debug, Clone, Serialize, Deserialize)]
enum Mutation {
    Flip { pos: u16, bit: u8 },
    Truncate { keep: u16 },
    Append { bytes: Vec<u8> },
    DropHead { n: u8 },
    SetByte { pos: u16, value: u8 },
}

#[derive(Debug, Clone, Serialize, Deserialize)]
struct Case {
    payload: Payload,
    mutations: Vec<Mutation>,
    /// arbitrary bytes handed to decompress; `magic` puts the codec's 10-byte header in front
    raw: Vec<u8>,
    magic: bool,
}

fn case(max: u32) -> impl Strategy<Value = Case> {
    let mutation = prop_oneof![
        3 => (any::<u16>(), 0u8..8).prop_map(|(pos, bit)| Mutation::Flip { pos, bit }),
        2 => any::<u16>().prop_map(|keep| Mutation::Truncate { keep }),
        1 => prop::collection::vec(any::<u8>(), 1..16).prop_map(|bytes| Mutation::Append { bytes }),
        1 => (1u8..12).prop_map(|n| Mutation::DropHead { n }),
        2 => (any::<u16>(), any::<u8>()).prop_map(|(pos, value)| Mutation::SetByte { pos, value }),
    ];
    (payload_strategy(max), prop::collection::vec(mutation, 0..=3), prop::collection::vec(any::<u8>(), 0..300), any::<bool>())
        .prop_map(|(payload, mutations, raw, magic)| Case { payload, mutations, raw, magic })
}

fn check(c: &Case, ctx: &mut Ctx) -> Verdict {
    let plain = c.payload.bytes();
    let stored = match vcommon::catch(|| cbh_codec::compress(&plain)) {
        Ok(s) => s,
        Err(p) => fail!("C19/codec/compress-panicked", "compress({}) panicked: {p}", short(&plain)),
    };
    match vcommon::catch(|| cbh_codec::decompress(&stored)) {
        Ok(Ok(back)) => ensure!(back == plain, "C19/codec/round-trip-differs", "decompress(compress(x)) = {}, x = {}", short(&back), short(&plain)),
        Ok(Err(e)) => fail!("C19/codec/round-trip-fails", "decompress(compress({})) failed: {e}", short(&plain)),
        Err(p) => fail!("C19/codec/decompress-panicked", "decompress(compress({})) panicked: {p}", short(&plain)),
    }
    ctx.classify(&format!("payload-kind:{}", c.payload.kind));
    // hostile input 1: a damaged stored object
    let mut bad = stored.clone();
    for m in &c.mutations {
        match m {
            Mutation::Flip { pos, bit } if !bad.is_empty() => {
                let i = pick_index(*pos, bad.len());
                bad[i] ^= 1 << bit;
            }
            Mutation::SetByte { pos, value } if !bad.is_empty() => {
                let i = pick_index(*pos, bad.len());
                bad[i] = *value;
            }
            Mutation::Truncate { keep } => bad.truncate(pick_index(*keep, bad.len() + 1)),
            Mutation::Append { bytes } => bad.extend_from_slice(bytes),
            Mutation::DropHead { n } => {
                let n = (*n as usize).min(bad.len());
                bad.drain(..n);
            }
            _ => {}
        }
    }
    if bad != stored {
        match vcommon::catch(|| cbh_codec::decompress(&bad)) {
            Ok(Ok(_)) => ctx.classify("damaged:accepted"),
            Ok(Err(_)) => ctx.classify("damaged:rejected"),
            Err(p) => fail!("C19/codec/decompress-panicked", "decompress of a damaged object ({}) panicked: {p}", short(&bad)),
        }
    }
    // hostile input 2: arbitrary bytes
    let mut raw = Vec::new();
    if c.magic {
        raw.extend_from_slice(&[0x1f, 0x8b, 0x08, 0x00, 0x00, 0x00, 0x00, 0x00, 0x00, 0xff]);
    }
    raw.extend_from_slice(&c.raw);
    match vcommon::catch(|| cbh_codec::decompress(&raw)) {
        Ok(Ok(_)) => ctx.classify("arbitrary:accepted"),
        Ok(Err(_)) => ctx.classify("arbitrary:rejected"),
        Err(p) => fail!("C19/codec/decompress-panicked", "decompress of arbitrary bytes ({}) panicked: {p}", short(&raw)),
    }
    if !plain.is_empty() && bad != stored {
        ctx.nontrivial();
    }
    Ok(())
}

pub fn run(h: &mut Harness) {
    let cases = h.cases(4_000, 120_000);
    let max = if h.is_thorough() { 8 << 20 } else { 256 << 10 };
    h.section(
        "codec",
        "payload (random / compressible / zero / gzip-magic-prefixed / already compressed, 0..256 KiB quick / 0..8 MiB thorough): decompress(compress(x)) == x; the stored form damaged by 0..3 bit flips / byte overwrites / truncation / appended bytes / dropped head, and 0..300 arbitrary bytes with or without the codec's header: decompress returns Ok or Err and never panics; non-trivial = non-empty payload whose stored form was damaged; distinct by serialised case",
        cases,
        case(max),
        check,
    );
}
