//! Sections `crash` (kill the writer at every intercepted call) and `interleave` (pause the
//! writer before every intercepted call and run one complete foreign operation there).

use std::collections::BTreeMap;
use std::process::{Child, Command, Stdio};
use std::sync::atomic::{AtomicU64, Ordering};

use proptest::prelude::*;
use proptest::strategy::ValueTree;
use proptest::test_runner::{Config, RngAlgorithm, TestRng, TestRunner};
use serde::{Deserialize, Serialize};
use vcommon::{Ctx, Harness, Verdict, ensure, fail};

use crate::common::{Env, GetOutcome, Payload, Sandbox, Store, TEMP_PREFIX, describe, is_reserved_name, last_segment, len_strategy, short};

static INFRA: AtomicU64 = AtomicU64::new(0);

pub fn infra_problems() -> u64 {
    INFRA.load(Ordering::Relaxed)
}

#[derive(Debug, Clone, Serialize, Deserialize)]
pub struct WriteCase {
    /// other objects of the store (some in the target's directory)
    others: Vec<(String, Payload)>,
    key: String,
    /// what the key holds before the write
    old: Option<Payload>,
    overwrite: bool,
    new: Payload,
}

#[derive(Debug, Clone, Serialize, Deserialize)]
pub struct CrashItem {
    case: WriteCase,
    /// index of the intercepted call; `calls` = number of calls of the uninterrupted write
    at: u32,
    calls: u32,
    /// "none" (uninterrupted), "before", "after", "partial:+1", "partial:1/2", "partial:-1"
    mode: String,
    /// the intercepted libc call at `at` (from the counting run), for the distribution report
    call: String,
    /// the crash point lies after the temp file was created and before the rename returned
    in_window: bool,
}

#[derive(Debug, Clone, Serialize, Deserialize)]
pub struct InterItem {
    case: WriteCase,
    at: u32,
    calls: u32,
    call: String,
    in_window: bool,
    /// 0 get, 1 list, 2 put, 3 put_overwrite — on the same key, by a foreign store object
    b_op: u8,
    b_payload: Payload,
}

const DIRS: &[&str] = &["", "v1/", "v1/proj/objects/", "ключ/", "a b/", ".cbh-tmp-dir/", "d\\e/"];
const NAMES: &[&str] = &["run.json", "a", "0f3c9a-2026.json", "日本語.json", ".cbh-tmp-1-2-3", "x\\y", ".hidden"];
const SIBLINGS: &[&str] = &["sibling.json", "other", ".cbh-tmp-7-7-7", "run.json.bak"];

fn payload(max: u32) -> impl Strategy<Value = Payload> {
    (prop_oneof![5 => Just(0u8), 3 => Just(1u8), 1 => Just(2u8), 1 => Just(3u8)], len_strategy(max), any::<u64>()).prop_map(|(kind, len, seed)| Payload { kind, len, seed })
}

fn write_case(max: u32) -> impl Strategy<Value = WriteCase> {
    (
        prop::sample::select(DIRS),
        prop::sample::select(NAMES),
        prop::collection::vec((prop::bool::weighted(0.6), prop::sample::select(DIRS), prop::sample::select(SIBLINGS), payload(4096)), 0..=3),
        prop_oneof![2 => Just(0u8), 4 => Just(1u8), 1 => Just(2u8), 1 => Just(3u8)],
        payload(max),
        payload(max),
    )
        .prop_map(|(dir, name, others, shape, old, new)| {
            let key = format!("{dir}{name}");
            let mut o: Vec<(String, Payload)> = Vec::new();
            for (same_dir, d, n, p) in others {
                let k = format!("{}{n}", if same_dir { dir } else { d });
                // no file-vs-directory conflicts and no duplicates in the prepared state
                let clash = |a: &str, b: &str| a == b || a.starts_with(&format!("{b}/")) || b.starts_with(&format!("{a}/"));
                if !clash(&k, &key) && !o.iter().any(|(e, _)| clash(e, &k)) {
                    o.push((k, p));
                }
            }
            // shape: 0 put on a free key, 1 put_overwrite on an occupied key,
            //        2 put_overwrite on a free key, 3 put on an occupied key (must be refused)
            let (old, overwrite) = match shape {
                0 => (None, false),
                1 => (Some(old), true),
                2 => (None, true),
                _ => (Some(old), false),
            };
            WriteCase { others: o, key, old, overwrite, new }
        })
}

fn op_name(c: &WriteCase) -> &'static str {
    if c.overwrite { "put_overwrite" } else { "put" }
}

/// Builds the prepared state through the store's own API (in this process, without the shim).
fn prepare(env: &Env, c: &WriteCase) -> (Sandbox, BTreeMap<String, Vec<u8>>) {
    let sb = env.sandbox();
    let store = Store::open(&sb.root);
    let mut state = BTreeMap::new();
    for (k, p) in &c.others {
        let b = p.bytes();
        store.put(k, &b).expect("preparing the store state");
        state.insert(k.clone(), b);
    }
    if let Some(p) = &c.old {
        let b = p.bytes();
        store.put(&c.key, &b).expect("preparing the store state");
    }
    (sb, state)
}

struct ChildRun {
    code: Option<i32>,
    result: String,
    trace: Vec<(String, String)>,
}

fn spawn_writer(env: &Env, sb: &Sandbox, c: &WriteCase, at: Option<(u32, &str)>) -> Child {
    let exe = std::env::current_exe().expect("current_exe");
    let mut cmd = Command::new(exe);
    cmd.arg("--crash-child")
        .arg(&sb.root)
        .arg(op_name(c))
        .arg(c.new.arg())
        .arg(&c.key)
        .env("LD_PRELOAD", &env.shim)
        .env("CRASHSHIM_ROOT", &sb.root)
        .env("CRASHSHIM_LOG", sb.dir.join("trace.log"))
        .env("CRASHSHIM_SYNC", sb.dir.join("sync"))
        .env_remove("CRASHSHIM_AT")
        .env_remove("CRASHSHIM_MODE")
        .stdin(Stdio::null())
        .stdout(Stdio::piped())
        .stderr(Stdio::null());
    if let Some((k, mode)) = at {
        cmd.env("CRASHSHIM_AT", k.to_string()).env("CRASHSHIM_MODE", mode);
    }
    cmd.spawn().expect("spawn child writer")
}

fn finish_writer(sb: &Sandbox, child: Child) -> ChildRun {
    let out = child.wait_with_output().expect("wait for child writer");
    let result = String::from_utf8_lossy(&out.stdout).lines().find_map(|l| l.strip_prefix("RESULT ").map(str::to_string)).unwrap_or_default();
    let log = std::fs::read(sb.dir.join("trace.log")).unwrap_or_default();
    let text = String::from_utf8_lossy(&log);
    let mut trace = Vec::new();
    for line in text.lines() {
        // "<idx> <op> <len> <path...>"; paths may contain anything, a new line that does not
        // start with the next index belongs to the previous path
        let mut it = line.splitn(4, ' ');
        let (Some(idx), Some(op), Some(_len)) = (it.next(), it.next(), it.next()) else { continue };
        if idx.parse::<usize>() == Ok(trace.len()) {
            trace.push((op.to_string(), it.next().unwrap_or("").to_string()));
        }
    }
    ChildRun { code: out.status.code(), result, trace }
}

fn run_writer(env: &Env, sb: &Sandbox, c: &WriteCase, at: Option<(u32, &str)>) -> ChildRun {
    let _ = std::fs::remove_file(sb.dir.join("trace.log"));
    finish_writer(sb, spawn_writer(env, sb, c, at))
}

/// (index of the call creating the temp file, index of the publishing rename)
fn window(trace: &[(String, String)]) -> Option<(usize, usize)> {
    let create = trace.iter().position(|(op, _)| op.starts_with("open-creat"))?;
    let rename = trace.iter().position(|(op, _)| op == "rename")?;
    (create < rename).then_some((create, rename))
}

fn in_window(trace: &[(String, String)], at: usize, mode: &str) -> bool {
    match window(trace) {
        Some((c, r)) => (at > c && at < r) || (at == c && mode != "before") || (at == r && mode == "before"),
        None => false,
    }
}

/// What the key may hold after the write was interrupted (or raced): judged through `get`.
fn check_key(store: &Store, c: &WriteCase, section: &str, new_allowed: bool, extra: Option<&[u8]>) -> Result<GetOutcome, vcommon::Failure> {
    let op = op_name(c);
    let old = c.old.as_ref().map(Payload::bytes);
    let new = c.new.bytes();
    let got = store.get(&c.key);
    match &got {
        GetOutcome::Data(b) => {
            let is_old = old.as_deref() == Some(b.as_slice());
            let is_new = b == &new;
            let is_extra = extra == Some(b.as_slice());
            if !(is_old || is_extra || (is_new && new_allowed)) {
                if is_new {
                    fail!(format!("C19/{section}/{op}/refused-write-published"), "key {:?} holds the new object although the write had to be refused; old = {:?}", c.key, old.as_deref().map(short));
                }
                fail!(
                    format!("C19/{section}/{op}/foreign-or-partial-object"),
                    "get({:?}) = {}, which is neither the old object ({:?}) nor the complete new one ({})",
                    c.key,
                    short(b),
                    old.as_deref().map(short),
                    short(&new)
                );
            }
        }
        GetOutcome::NotFound => {
            ensure!(old.is_none(), format!("C19/{section}/{op}/old-object-lost"), "key {:?} held {} before the write and holds nothing now", c.key, short(old.as_deref().unwrap_or_default()));
        }
        GetOutcome::Error(e) => {
            fail!(format!("C19/{section}/{op}/unreadable-object"), "get({:?}) fails with {e:?}: the key holds a partial or corrupt object (old = {:?}, new = {})", c.key, old.as_deref().map(short), short(&new));
        }
    }
    Ok(got)
}

fn check_rest(store: &Store, c: &WriteCase, state: &BTreeMap<String, Vec<u8>>, section: &str, key_present: bool) -> Verdict {
    let op = op_name(c);
    for (k, want) in state {
        match store.get(k) {
            GetOutcome::Data(b) if &b == want => {}
            other => fail!(format!("C19/{section}/{op}/other-key-changed"), "get({k:?}) = {other:?}, it held {}", short(want)),
        }
    }
    let mut want: Vec<String> = state.keys().filter(|k| !is_reserved_name(k)).cloned().collect();
    if key_present && !is_reserved_name(&c.key) {
        want.push(c.key.clone());
    }
    want.sort();
    let dir_prefix = c.key.rsplit_once('/').map(|(d, _)| format!("{d}/")).unwrap_or_default();
    for prefix in ["", dir_prefix.as_str()] {
        match store.list(prefix) {
            Ok(got) => {
                if let Some(t) = got.iter().find(|k| is_reserved_name(k)) {
                    fail!(format!("C19/{section}/{op}/list-shows-temp-file"), "list({prefix:?}) shows {t:?}");
                }
                let want_p: Vec<String> = want.iter().filter(|k| k.starts_with(prefix)).cloned().collect();
                ensure!(got == want_p, format!("C19/{section}/{op}/list-not-the-objects"), "list({prefix:?}) = {got:?}, objects = {want_p:?}");
            }
            Err(e) => fail!(format!("C19/{section}/{op}/list-fails"), "list({prefix:?}) fails: {}", describe(&e)),
        }
    }
    Ok(())
}

fn expected_result(c: &WriteCase) -> &'static str {
    if c.old.is_some() && !c.overwrite { "exists" } else { "ok" }
}

fn classify_case(c: &WriteCase, ctx: &mut Ctx) {
    ctx.classify(match (c.old.is_some(), c.overwrite) {
        (false, false) => "write:put-free-key",
        (true, true) => "write:put_overwrite-occupied-key",
        (false, true) => "write:put_overwrite-free-key",
        (true, false) => "write:put-occupied-key(refused)",
    });
    ctx.classify(match c.new.len {
        0 => "new:empty",
        1..=4096 => "new:<=4KiB",
        4097..=65_536 => "new:<=64KiB",
        65_537..=2_097_152 => "new:<=2MiB",
        _ => "new:>2MiB(multi-write)",
    });
    if is_reserved_name(&c.key) {
        ctx.classify("key:reserved-prefix-name");
    }
}

fn check_crash(item: &CrashItem, ctx: &mut Ctx, env: &Env) -> Verdict {
    let c = &item.case;
    let (sb, state) = prepare(env, c);
    let crash = item.mode != "none";
    let run = run_writer(env, &sb, c, crash.then_some((item.at, item.mode.as_str())));
    classify_case(c, ctx);
    let writes_allowed = !(c.old.is_some() && !c.overwrite);
    if crash {
        if run.code != Some(137) {
            // the child did not die at the selected call: the call sequence differs from the
            // counting run.  Not a property violation; reported as an infrastructure error.
            INFRA.fetch_add(1, Ordering::Relaxed);
            ctx.classify("infra:crash-point-not-reached");
            return Ok(());
        }
        ctx.classify(&format!("crash:{}:{}", item.call, item.mode.split(':').next().unwrap_or("")));
        if item.in_window {
            ctx.classify("crash-between-temp-creation-and-rename");
        }
        // the temp file the writer really used carries the reserved prefix this harness assumes
        if let Some((create, _)) = window(&run.trace) {
            let name = last_segment(&run.trace[create].1);
            ensure!(name.starts_with(TEMP_PREFIX), "C19/crash/harness/temp-prefix-assumption", "writer created {name:?} first; the harness assumes temp names start with {TEMP_PREFIX:?}");
        }
    } else {
        ensure!(run.code == Some(0), format!("C19/crash/{}/writer-died", op_name(c)), "uninterrupted writer exited with {:?}", run.code);
        ensure!(
            run.result == expected_result(c),
            format!("C19/crash/{}/wrong-result", op_name(c)),
            "uninterrupted {} on a key holding {:?} returned {:?}, expected {:?}",
            op_name(c),
            c.old.as_ref().map(|p| p.len),
            run.result,
            expected_result(c)
        );
        ctx.classify("uninterrupted-write");
    }
    // a fresh store object over the same directory
    let store = Store::open(&sb.root);
    let got = check_key(&store, c, "crash", writes_allowed, None)?;
    if !crash && writes_allowed {
        ensure!(got == GetOutcome::Data(c.new.bytes()), format!("C19/crash/{}/completed-write-not-visible", op_name(c)), "after the completed write get({:?}) = {got:?}", c.key);
    }
    ctx.classify(match (&got, c.old.is_some()) {
        (GetOutcome::NotFound, _) => "after:key-empty",
        (GetOutcome::Data(b), true) if Some(b) == c.old.as_ref().map(Payload::bytes).as_ref() => "after:old-object",
        _ => "after:new-object",
    });
    check_rest(&store, c, &state, "crash", matches!(got, GetOutcome::Data(_)))?;
    if crash && item.in_window && c.old.is_some() {
        ctx.nontrivial();
    }
    Ok(())
}

fn case_source(seed: u64, name: &str) -> TestRunner {
    let mut bytes = [0u8; 32];
    let mut x = seed ^ 0x5851F42D4C957F2D;
    for (i, b) in name.bytes().enumerate() {
        x = (x ^ u64::from(b)).wrapping_mul(0x100000001b3).rotate_left((i % 13) as u32);
    }
    for chunk in bytes.chunks_mut(8) {
        x = x.wrapping_mul(0x9E3779B97F4A7C15).wrapping_add(0xD1B54A32D192ED03);
        chunk.copy_from_slice(&x.to_le_bytes());
    }
    TestRunner::new_with_rng(Config::default(), TestRng::from_seed(RngAlgorithm::ChaCha, &bytes))
}

fn replicate<T: Clone>(items: Vec<T>, n: u32) -> Vec<T> {
    items.into_iter().flat_map(|it| std::iter::repeat_n(it, n as usize)).collect()
}

const PARTIALS: &[&str] = &["partial:+1", "partial:1/2", "partial:-1"];

/// Lazily yields, for each generated write case, the uninterrupted run and then every crash
/// point of that case: (call k, before), (call k, after) and for data-carrying calls three
/// partial writes.  N and the call names come from a counting run of the case.
///
/// Sharding: a shard owns the cases with `case index % nshards == shard` (so it pays the
/// counting run only for those).  `Harness::enumerate` deals items round-robin by position,
/// therefore each owned item is yielded `nshards` times in a row: exactly one copy falls on this
/// shard's residue and is evaluated, the others are skipped by the driver without being run.
fn crash_items<'a>(env: &'a Env, seed: u64, ncases: u64, shard: u32, nshards: u32) -> impl Iterator<Item = CrashItem> + 'a {
    let mut runner = case_source(seed, "crash");
    let strat = write_case(env.max_payload());
    (0..ncases).flat_map(move |i| {
        let case = strat.new_tree(&mut runner).expect("case").current();
        if i % u64::from(nshards) != u64::from(shard) {
            return Vec::new();
        }
        let (sb, _) = prepare(env, &case);
        let run = run_writer(env, &sb, &case, None);
        let calls = run.trace.len() as u32;
        let mut items = vec![CrashItem { case: case.clone(), at: calls, calls, mode: "none".into(), call: "-".into(), in_window: false }];
        if run.code != Some(0) {
            INFRA.fetch_add(1, Ordering::Relaxed);
        }
        for (k, (op, _)) in run.trace.iter().enumerate() {
            let mut modes = vec!["before", "after"];
            if op == "write" || op == "pwrite" {
                modes.extend_from_slice(PARTIALS);
            }
            for mode in modes {
                items.push(CrashItem { case: case.clone(), at: k as u32, calls, mode: mode.into(), call: op.clone(), in_window: in_window(&run.trace, k, mode) });
            }
        }
        replicate(items, nshards)
    })
}

pub fn run(h: &mut Harness, env: &Env) {
    let ncases = if h.is_thorough() { 6_000 } else { 240 };
    let (seed, shard, nshards) = (h.seed, h.shard, h.nshards);
    h.enumerate(
        "crash",
        "fault enumeration: for each generated case (store state of 0..3 other objects, target key fresh or occupied, put or put_overwrite, new payload 0..256 KiB quick / 0..8 MiB thorough) a counting run under LD_PRELOAD=crashshim.so numbers the writer's N intercepted libc calls below the store root (mkdir/open/write/close/rename/unlink/...); then EVERY crash point of the case is executed: each call x {not performed, performed} then exit_group(137), plus for each data-carrying write three partial writes (1 byte, half, all but 1 byte), plus the uninterrupted run. After each kill a fresh store object over the same directory must see the key holding nothing (only if it held nothing) / exactly the old object / exactly the complete new object, every other key unchanged, get never failing on a present key, listings without temp names and equal to the objects. `exhaustive` refers to the crash-point dimension of each case (all 2N + 3W points are run); the cases themselves are sampled. evaluations = crash points executed. non-trivial = the key was occupied and the crash point lies after the temp file was created and before the rename returned; distinct by (case, call index, mode)",
        crash_items(env, seed, ncases, shard, nshards),
        |item, ctx| check_crash(item, ctx, env),
    );
}

// ------------------------------------------------------------------------------------ interleave

const KNOWN_BOTH_OK: &str = "C19/put/concurrent-put-both-ok";

fn wait_reached(sb: &Sandbox, child: &mut Child) -> bool {
    let reached = sb.dir.join("sync.reached");
    loop {
        if reached.exists() {
            return true;
        }
        if let Ok(Some(_)) = child.try_wait() {
            return reached.exists();
        }
        std::thread::sleep(std::time::Duration::from_micros(100));
    }
}

fn check_interleave(item: &InterItem, ctx: &mut Ctx, env: &Env) -> Verdict {
    let c = &item.case;
    let (sb, state) = prepare(env, c);
    let _ = std::fs::remove_file(sb.dir.join("trace.log"));
    let mut child = spawn_writer(env, &sb, c, Some((item.at, "pause")));
    if !wait_reached(&sb, &mut child) {
        let _ = child.wait();
        INFRA.fetch_add(1, Ordering::Relaxed);
        ctx.classify("infra:pause-point-not-reached");
        return Ok(());
    }
    classify_case(c, ctx);
    let a_may_write = !(c.old.is_some() && !c.overwrite);
    let b_bytes = item.b_payload.bytes();
    let foreign = Store::open(&sb.root);
    let release = |child: Child| {
        std::fs::write(sb.dir.join("sync.go"), b"").expect("release the paused writer");
        finish_writer(&sb, child)
    };
    // ---- the foreign operation, while the writer sits before call `at`
    let mut b_wrote = false;
    let b_result: Verdict = (|| {
        match item.b_op {
            0 => {
                ctx.classify("foreign:get");
                check_key(&foreign, c, "interleave/get", a_may_write, None)?;
            }
            1 => {
                ctx.classify("foreign:list");
                for prefix in ["".to_string(), c.key.rsplit_once('/').map(|(d, _)| format!("{d}/")).unwrap_or_default()] {
                    match foreign.list(&prefix) {
                        Ok(got) => {
                            if let Some(t) = got.iter().find(|k| is_reserved_name(k)) {
                                fail!("C19/interleave/list/shows-temp-file", "list({prefix:?}) during a write shows {t:?}");
                            }
                            for k in state.keys().filter(|k| !is_reserved_name(k) && k.starts_with(&prefix)) {
                                ensure!(got.contains(k), "C19/interleave/list/object-missing", "list({prefix:?}) during a write of {:?} misses {k:?}: {got:?}", c.key);
                            }
                            if c.old.is_some() && !is_reserved_name(&c.key) {
                                ensure!(got.contains(&c.key), "C19/interleave/list/occupied-key-missing", "list({prefix:?}) during an overwrite misses the occupied key {:?}: {got:?}", c.key);
                            }
                            if let Some(x) = got.iter().find(|k| !state.contains_key(*k) && **k != c.key) {
                                fail!("C19/interleave/list/unknown-name", "list({prefix:?}) during a write shows {x:?}");
                            }
                        }
                        Err(e) => fail!("C19/interleave/list/fails", "list({prefix:?}) during a write fails: {}", describe(&e)),
                    }
                }
            }
            2 => {
                ctx.classify("foreign:put");
                let r = foreign.put(&c.key, &b_bytes);
                if c.old.is_some() {
                    ensure!(r.is_err(), "C19/interleave/put/occupied-key-accepted", "foreign put({:?}) succeeded although the key was occupied before both writes", c.key);
                }
                b_wrote = r.is_ok();
            }
            _ => {
                ctx.classify("foreign:put_overwrite");
                let r = foreign.put_overwrite(&c.key, &b_bytes);
                if let Err(e) = &r {
                    fail!("C19/interleave/put_overwrite/failed", "foreign put_overwrite({:?}) during a write failed: {}", c.key, describe(e));
                }
                b_wrote = true;
            }
        }
        Ok(())
    })();
    let run = release(child);
    b_result?;
    if run.code != Some(0) {
        INFRA.fetch_add(1, Ordering::Relaxed);
        ctx.classify("infra:paused-writer-did-not-finish");
        return Ok(());
    }
    ctx.classify(&format!("paused-before:{}", item.call));
    if item.in_window {
        ctx.classify("pause-between-temp-creation-and-rename");
    }
    let a_ok = run.result == "ok";
    if c.old.is_some() && !c.overwrite {
        ensure!(!a_ok, "C19/interleave/put/occupied-key-accepted", "put({:?}) on a key occupied before it started succeeded", c.key);
    }
    ensure!(a_ok || run.result == "exists", format!("C19/interleave/{}/writer-failed", op_name(c)), "the paused writer finished with {:?}", run.result);
    if !c.overwrite && a_ok && b_wrote {
        // the foreign write completed (the key held its complete object) before the writer's
        // rename; the writer's `put` nevertheless succeeded and replaced it
        ctx.classify("known:put-replaced-a-concurrently-published-object");
        if !ctx.tolerate(KNOWN_BOTH_OK) {
            fail!(
                KNOWN_BOTH_OK,
                "put({:?}) paused before call {} ({}); a foreign {} published a complete object there; the resumed put still returned Ok and replaced it (existence check is not atomic with the publishing rename)",
                c.key,
                item.at,
                item.call,
                if item.b_op == 2 { "put" } else { "put_overwrite" }
            );
        }
    }
    // ---- final state, fresh store object
    let store = Store::open(&sb.root);
    let got = check_key(&store, c, "interleave/final", a_ok, b_wrote.then_some(b_bytes.as_slice()))?;
    if a_ok || b_wrote {
        ensure!(matches!(got, GetOutcome::Data(_)), "C19/interleave/final/successful-write-lost", "a write of {:?} returned Ok but the key holds nothing", c.key);
    }
    check_rest(&store, c, &state, "interleave/final", matches!(got, GetOutcome::Data(_)))?;
    if item.in_window && (c.old.is_some() || item.b_op >= 2) {
        ctx.nontrivial();
    }
    Ok(())
}

fn inter_items<'a>(env: &'a Env, seed: u64, ncases: u64, shard: u32, nshards: u32) -> impl Iterator<Item = InterItem> + 'a {
    let mut runner = case_source(seed, "interleave");
    let strat = (write_case(65_536), payload(65_536));
    (0..ncases).flat_map(move |i| {
        let (case, b_payload) = strat.new_tree(&mut runner).expect("case").current();
        if i % u64::from(nshards) != u64::from(shard) {
            return Vec::new();
        }
        let (sb, _) = prepare(env, &case);
        let run = run_writer(env, &sb, &case, None);
        let calls = run.trace.len() as u32;
        let mut items = Vec::new();
        for (k, (op, _)) in run.trace.iter().enumerate() {
            for b_op in 0..4u8 {
                items.push(InterItem { case: case.clone(), at: k as u32, calls, call: op.clone(), in_window: in_window(&run.trace, k, "before"), b_op, b_payload: b_payload.clone() });
            }
        }
        replicate(items, nshards)
    })
}

pub fn run_interleave(h: &mut Harness, env: &Env) {
    let ncases = if h.is_thorough() { 3_000 } else { 64 };
    let (seed, shard, nshards) = (h.seed, h.shard, h.nshards);
    h.enumerate(
        "interleave",
        "schedule enumeration at libc-call granularity: for each generated write case (as in `crash`, payloads <= 64 KiB) the child writer is paused (crashshim `pause`) before EACH of its N intercepted calls, and there a foreign store object in another process performs one complete get / list / put / put_overwrite on the same key (4N schedules per case, all executed); then the writer resumes. The foreign reader must see nothing (only if the key was empty) / the old / the complete new object, listings never show temp names nor miss objects; a put on a key occupied beforehand must fail; afterwards the key holds one of the successfully written complete objects and all other keys are unchanged. A resumed `put` that succeeds although the foreign write published an object in the meantime is the known finding C19/put/concurrent-put-both-ok. non-trivial = pause point between temp creation and rename with an occupied key or a foreign writer; distinct by (case, call index, foreign op)",
        inter_items(env, seed, ncases, shard, nshards),
        |item, ctx| check_interleave(item, ctx, env),
    );
}
