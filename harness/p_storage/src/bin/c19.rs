//! C19 — benchmark history store: objects are write-once and appear atomically.
//!
//! Sections (see /verif/DESIGN.md §21, engine E4):
//!   * `model`      generated histories put / put_overwrite / get / list / delete over generated
//!                  (plain, unicode, long, reserved-prefix, hostile) keys against a BTreeMap model,
//!                  with a snapshot of everything outside the store root.
//!   * `crash`      for a generated store state and one write, every intercepted file-system call
//!                  of the writer (LD_PRELOAD crashshim.so) is a crash point: a child writer is
//!                  killed there and a fresh store object over the same directory is inspected.
//!   * `interleave` the writer is paused (same shim) before each of its calls while one complete
//!                  foreign operation (get / list / put / put_overwrite on the same key) runs.
//!   * `concurrent` 2..4 free-running threads, each with its own store object, on one key.
//!   * `codec`      round trip and hostile input for cbh_codec.

#[path = "../common.rs"]
mod common;
#[path = "../model.rs"]
mod model;
#[path = "../crash.rs"]
mod crash;
#[path = "../concurrent.rs"]
mod concurrent;
#[path = "../codec.rs"]
mod codec;

fn main() {
    let args: Vec<String> = std::env::args().collect();
    if args.get(1).map(String::as_str) == Some("--crash-child") {
        common::child_main(&args[2..]);
    }
    let mut h = vcommon::Harness::from_args("C19");
    let env = common::Env::prepare(&h);
    codec::run(&mut h);
    model::run(&mut h, &env);
    concurrent::run(&mut h, &env);
    crash::run(&mut h, &env);
    crash::run_interleave(&mut h, &env);
    env.cleanup();
    if crash::infra_problems() > 0 {
        eprintln!(
            "C19: {} crash/pause points were not reached by the child writer (call sequence not reproducible) — infrastructure error",
            crash::infra_problems()
        );
        std::process::exit(2);
    }
    h.finish()
}
