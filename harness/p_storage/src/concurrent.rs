//! Section `concurrent`: 2..4 free-running threads, each with its own runtime and store object
//! over one directory, working on one key.  Verdicts do not depend on the schedule: every
//! assertion holds for every interleaving of a correct store.

use std::sync::atomic::{AtomicU64, Ordering};
use std::sync::{Arc, Barrier};

use proptest::prelude::*;
use serde::{Deserialize, Serialize};
use vcommon::{Ctx, Harness, Verdict, ensure, fail};

use crate::common::{Env, GetOutcome, Payload, Store, is_reserved_name, len_strategy, short};

const KNOWN_BOTH_OK: &str = "C19/put/concurrent-put-both-ok";
const KEY: &str = "v1/proj/objects/run.json";

#[derive(Debug, Clone, Serialize, Deserialize)]
enum AOp {
    Put(Payload),
    PutOverwrite(Payload),
    Get,
    List,
}

#[derive(Debug, Clone, Serialize, Deserialize)]
struct Case {
    initial: Option<Payload>,
    actors: Vec<Vec<AOp>>,
}

fn payload() -> impl Strategy<Value = Payload> {
    (prop_oneof![Just(0u8), Just(1u8)], len_strategy(262_144), any::<u64>()).prop_map(|(kind, len, seed)| Payload { kind, len, seed })
}

fn case() -> impl Strategy<Value = Case> {
    let aop = prop_oneof![
        3 => payload().prop_map(AOp::Put),
        3 => payload().prop_map(AOp::PutOverwrite),
        4 => Just(AOp::Get),
        1 => Just(AOp::List),
    ];
    (prop::option::weighted(0.4, payload()), prop::collection::vec(prop::collection::vec(aop, 2..=8), 2..=4)).prop_map(|(initial, actors)| Case { initial, actors })
}

enum Seen {
    Wrote { put: bool, ok: bool, start: u64, end: u64 },
    Got(GetOutcome),
    Listed(Result<Vec<String>, String>),
}

fn check(case: &Case, ctx: &mut Ctx, env: &Env) -> Verdict {
    let sb = env.sandbox();
    let initial = case.initial.as_ref().map(Payload::bytes);
    if let Some(b) = &initial {
        Store::open(&sb.root).put(KEY, b).expect("prepare");
    }
    let mut complete: Vec<Vec<u8>> = initial.iter().cloned().collect();
    for a in &case.actors {
        for op in a {
            if let AOp::Put(p) | AOp::PutOverwrite(p) = op {
                complete.push(p.bytes());
            }
        }
    }
    let barrier = Arc::new(Barrier::new(case.actors.len()));
    let stamp = Arc::new(AtomicU64::new(0));
    let results: Vec<Vec<Seen>> = std::thread::scope(|s| {
        let handles: Vec<_> = case
            .actors
            .iter()
            .map(|ops| {
                let barrier = Arc::clone(&barrier);
                let stamp = Arc::clone(&stamp);
                let root = sb.root.clone();
                s.spawn(move || {
                    let store = Store::open(&root);
                    let prepared: Vec<Option<Vec<u8>>> = ops.iter().map(|o| if let AOp::Put(p) | AOp::PutOverwrite(p) = o { Some(p.bytes()) } else { None }).collect();
                    barrier.wait();
                    let mut seen = Vec::new();
                    for (op, bytes) in ops.iter().zip(&prepared) {
                        match op {
                            AOp::Put(_) | AOp::PutOverwrite(_) => {
                                let put = matches!(op, AOp::Put(_));
                                let b = bytes.as_ref().expect("prepared");
                                let start = stamp.fetch_add(1, Ordering::SeqCst);
                                let r = if put { store.put(KEY, b) } else { store.put_overwrite(KEY, b) };
                                let end = stamp.fetch_add(1, Ordering::SeqCst);
                                seen.push(Seen::Wrote { put, ok: r.is_ok(), start, end });
                            }
                            AOp::Get => seen.push(Seen::Got(store.get(KEY))),
                            AOp::List => seen.push(Seen::Listed(store.list("v1/").map_err(|e| crate::common::describe(&e)))),
                        }
                    }
                    seen
                })
            })
            .collect();
        handles.into_iter().map(|h| h.join().expect("actor thread")).collect()
    });

    let mut writes: Vec<(bool, bool, u64, u64)> = Vec::new();
    let (mut readers, mut writers) = (0, 0);
    for actor in &results {
        let mut object_seen = initial.is_some();
        for s in actor {
            match s {
                Seen::Wrote { put, ok, start, end } => {
                    writers += 1;
                    writes.push((*put, *ok, *start, *end));
                    if *put && initial.is_some() {
                        ensure!(!ok, "C19/concurrent/put/occupied-key-accepted", "put succeeded although the key was occupied before the run");
                    }
                    object_seen = true;
                }
                Seen::Got(g) => {
                    readers += 1;
                    match g {
                        GetOutcome::Data(b) => {
                            ensure!(complete.iter().any(|c| c == b), "C19/concurrent/get/partial-or-foreign-object", "a concurrent reader got {} which is none of the complete objects", short(b));
                            object_seen = true;
                        }
                        GetOutcome::NotFound => {
                            // no deletes: once this actor knows an object exists it can never vanish
                            ensure!(!object_seen, "C19/concurrent/get/object-vanished", "a reader saw the key empty after it already held an object");
                        }
                        GetOutcome::Error(e) => fail!("C19/concurrent/get/partial-or-corrupt-object", "a concurrent reader got an error that is not not-found: {e}"),
                    }
                }
                Seen::Listed(l) => match l {
                    Ok(names) => {
                        if let Some(t) = names.iter().find(|k| is_reserved_name(k)) {
                            fail!("C19/concurrent/list/shows-temp-file", "a concurrent listing shows {t:?}");
                        }
                        ensure!(names.iter().all(|k| k == KEY), "C19/concurrent/list/unknown-name", "a concurrent listing shows {names:?}");
                    }
                    Err(e) => fail!("C19/concurrent/list/fails", "a concurrent listing failed: {e}"),
                },
            }
        }
    }
    // a put that began after a successful write had returned must be refused (no race involved)
    for (put, ok, start, _) in &writes {
        if *put && *ok {
            ensure!(
                !writes.iter().any(|(_, ok2, _, end2)| *ok2 && end2 < start),
                "C19/concurrent/put/occupied-key-accepted",
                "a put that started after another write had completed succeeded"
            );
        }
    }
    let ok_puts = writes.iter().filter(|(put, ok, _, _)| *put && *ok).count();
    if ok_puts >= 2 {
        ctx.classify("known:two-overlapping-puts-both-ok");
        if !ctx.tolerate(KNOWN_BOTH_OK) {
            fail!(KNOWN_BOTH_OK, "{ok_puts} overlapping put calls on one initially empty key all returned Ok");
        }
    }
    // final state
    let store = Store::open(&sb.root);
    match store.get(KEY) {
        GetOutcome::Data(b) => ensure!(complete.iter().any(|c| c == &b), "C19/concurrent/final/partial-or-foreign-object", "final object {} is none of the written ones", short(&b)),
        GetOutcome::NotFound => ensure!(initial.is_none() && !writes.iter().any(|w| w.1), "C19/concurrent/final/object-lost", "the key is empty although an object was stored"),
        GetOutcome::Error(e) => fail!("C19/concurrent/final/corrupt-object", "final get fails: {e}"),
    }
    match store.list("") {
        Ok(names) => ensure!(!names.iter().any(|k| is_reserved_name(k)), "C19/concurrent/list/shows-temp-file", "final listing shows a temp name: {names:?}"),
        Err(e) => fail!("C19/concurrent/list/fails", "final listing failed: {}", crate::common::describe(&e)),
    }
    ctx.classify(&format!("actors:{}", case.actors.len()));
    ctx.classify(if initial.is_some() { "key:occupied-at-start" } else { "key:empty-at-start" });
    if writers >= 2 && readers >= 1 {
        ctx.nontrivial();
    }
    Ok(())
}

pub fn run(h: &mut Harness, env: &Env) {
    let cases = h.cases(600, 20_000);
    h.section(
        "concurrent",
        "2..4 free-running threads (own tokio runtime and own store object each, one directory), 2..8 ops each of put / put_overwrite / get / list on ONE key, payloads <= 256 KiB; readers may only ever see one of the complete objects of the case (or nothing while the key was never written), listings never show temp names; a put on a key occupied before the run, or started after another write returned, must fail; two overlapping puts both succeeding is the known finding. The OS schedule is not controlled (the `interleave` section is the controlled counterpart); non-trivial = >=2 writes and >=1 read; distinct by serialised case",
        cases,
        case(),
        |c, ctx| check(c, ctx, env),
    );
}
