//! Section `model`: generated histories against a BTreeMap reference model.

use std::collections::{BTreeMap, BTreeSet};

use proptest::prelude::*;
use serde::{Deserialize, Serialize};
use vcommon::{Ctx, Harness, Verdict, ensure, fail, pick_index};

use crate::common::{Env, GetOutcome, Payload, Store, TEMP_PREFIX, describe, is_reserved_name, payload_strategy, short, snapshot};

#[derive(Debug, Clone, Serialize, Deserialize)]
pub enum Op {
    Put { k: u16, p: Payload },
    PutOverwrite { k: u16, p: Payload },
    Get { k: u16 },
    Delete { k: u16 },
    /// prefix = first `cut` characters of key `k` (mapped), or a literal
    List { k: u16, cut: u16, literal: Option<String> },
}

#[derive(Debug, Clone, Serialize, Deserialize)]
pub struct Case {
    keys: Vec<String>,
    ops: Vec<Op>,
}

const PLAIN: &[&str] = &["a", "b", "v1", "proj", "objects", "run.json", "x.json", "0f3c9a-2026.json"];
const UNICODE: &[&str] = &["ключ", "日本語.json", "é", "😀.json", "a b", "tab\there", "nl\nname", "%2e%2e", "~", "-rf", "*", "ＡＢＣ"];
const RESERVED: &[&str] = &[".cbh-tmp-", ".cbh-tmp-1-2-3", ".cbh-tmp-x.json", ".cbh-tmp-99-1700000000000000000-0"];
const DOTTY: &[&str] = &[".hidden", "...", ".. ", " ..", ". ", "..json", ".cbh-tmp", ".cbh-tm"];
const HOSTILE: &[&str] = &["", ".", "..", "..", "a\0b", "\0", "a\\b", "..\\x", "C:\\Windows", "\\\\server\\share", "\\"];

fn segment() -> impl Strategy<Value = String> {
    prop_oneof![
        10 => prop::sample::select(PLAIN).prop_map(str::to_string),
        3 => prop::sample::select(UNICODE).prop_map(str::to_string),
        3 => prop::sample::select(RESERVED).prop_map(str::to_string),
        2 => prop::sample::select(DOTTY).prop_map(str::to_string),
        5 => prop::sample::select(HOSTILE).prop_map(str::to_string),
        1 => prop::sample::select(vec![100usize, 200, 254, 255, 256, 300]).prop_map(|n| "L".repeat(n)),
        1 => prop::sample::select(vec![127usize, 128, 200]).prop_map(|n| "é".repeat(n)),
        1 => "[a-zA-Z0-9._ -]{1,12}",
        1 => "\\PC{1,6}",
    ]
}

fn key() -> impl Strategy<Value = String> {
    prop_oneof![
        12 => prop::collection::vec(segment(), 1..=4).prop_map(|s| s.join("/")),
        1 => prop::collection::vec(segment(), 1..=3).prop_map(|s| format!("/{}", s.join("/"))),
        1 => prop::collection::vec(segment(), 1..=3).prop_map(|s| format!("{}/", s.join("/"))),
        1 => prop::collection::vec(segment(), 1..=3).prop_map(|s| format!("../{}", s.join("/"))),
        1 => prop::collection::vec(segment(), 1..=2).prop_map(|s| format!("{}/../../outside/{}", s.join("/"), "obj.json")),
        1 => Just("../outside.json".to_string()),
        1 => Just("../outside/obj.json".to_string()),
    ]
}

fn keys() -> impl Strategy<Value = Vec<String>> {
    (prop::collection::vec(key(), 2..=6), prop::collection::vec((any::<u16>(), 0u8..3), 0..=4)).prop_map(|(mut keys, derived)| {
        // parents / children of generated keys: file-vs-directory conflicts
        for (raw, how) in derived {
            let base = keys[pick_index(raw, keys.len())].clone();
            let d = match how {
                0 => base.rsplit_once('/').map(|(p, _)| p.to_string()),
                1 => Some(format!("{base}/x.json")),
                _ => Some(format!("{base}/b/run.json")),
            };
            if let Some(d) = d {
                keys.push(d);
            }
        }
        keys
    })
}

fn op(max: u32) -> impl Strategy<Value = Op> {
    prop_oneof![
        5 => (any::<u16>(), payload_strategy(max)).prop_map(|(k, p)| Op::Put { k, p }),
        3 => (any::<u16>(), payload_strategy(max)).prop_map(|(k, p)| Op::PutOverwrite { k, p }),
        3 => any::<u16>().prop_map(|k| Op::Get { k }),
        2 => any::<u16>().prop_map(|k| Op::Delete { k }),
        3 => (any::<u16>(), any::<u16>(), prop_oneof![
            6 => Just(None),
            1 => Just(Some(String::new())),
            1 => prop::sample::select(vec!["../", "..", "/", ".", "./", "../outside/", ".cbh-tmp-", "v1/", "a/"]).prop_map(|s| Some(s.to_string())),
        ]).prop_map(|(k, cut, literal)| Op::List { k, cut, literal }),
    ]
}

fn case(max: u32) -> impl Strategy<Value = Case> {
    (keys(), prop::collection::vec(op(max), 1..=24)).prop_map(|(keys, ops)| Case { keys, ops })
}

#[derive(PartialEq, Eq, Clone, Copy, Debug)]
enum KeyClass {
    /// a segment is "" / "." / "..": documented as rejected; `escape` = could leave the root
    Invalid { escape: bool },
    /// syntactically a key, but the OS cannot hold the name (NUL, component > 255 bytes, path too long)
    OsReject,
    Valid,
}

fn classify_key(key: &str, root_len: usize) -> KeyClass {
    let mut invalid = false;
    let mut escape = key.starts_with('/');
    for seg in key.split('/') {
        match seg {
            "" | "." => invalid = true,
            ".." => {
                invalid = true;
                escape = true;
            }
            _ => {}
        }
    }
    if invalid {
        return KeyClass::Invalid { escape };
    }
    if key.contains('\0') || key.split('/').any(|s| s.len() > 255) || root_len + 1 + key.len() + 64 >= 4096 {
        return KeyClass::OsReject;
    }
    KeyClass::Valid
}

#[derive(Default)]
struct Model {
    files: BTreeMap<String, Vec<u8>>,
    /// paths that may exist as directories (over-approximation; only makes the oracle lenient)
    maybe_dirs: BTreeSet<String>,
}

impl Model {
    fn parent_is_file(&self, key: &str) -> bool {
        key.match_indices('/').any(|(i, _)| self.files.contains_key(&key[..i]))
    }
    fn may_be_dir(&self, key: &str) -> bool {
        let pre = format!("{key}/");
        self.maybe_dirs.contains(key) || self.files.keys().any(|k| k.starts_with(&pre))
    }
    fn note_parents(&mut self, key: &str) {
        if !self.parent_is_file(key) {
            for (i, _) in key.match_indices('/') {
                self.maybe_dirs.insert(key[..i].to_string());
            }
        }
    }
    fn expected_listing(&self, prefix: &str) -> (Vec<String>, usize) {
        let mut hidden = 0;
        let mut v = Vec::new();
        for k in self.files.keys() {
            if k.starts_with(prefix) {
                if is_reserved_name(k) {
                    hidden += 1;
                } else {
                    v.push(k.clone());
                }
            }
        }
        v.sort();
        (v, hidden)
    }
}

fn reject_sig(class: KeyClass, op: &str) -> String {
    match class {
        KeyClass::Invalid { escape: true } => format!("C19/keys/{op}/escaping-key-accepted"),
        _ => format!("C19/keys/{op}/non-plain-key-accepted"),
    }
}

fn verify_state(store: &Store, m: &Model, touched: Option<&str>, after: &str) -> Verdict {
    for (k, want) in &m.files {
        match store.get(k) {
            GetOutcome::Data(got) => ensure!(
                &got == want,
                if Some(k.as_str()) == touched { format!("C19/{after}/read-back-differs") } else { format!("C19/{after}/other-object-changed") },
                "after {after} on {touched:?}: get({k:?}) = {}, model holds {}",
                short(&got),
                short(want)
            ),
            other => fail!(
                if Some(k.as_str()) == touched { format!("C19/{after}/stored-object-unreadable") } else { format!("C19/{after}/other-object-lost") },
                "after {after} on {touched:?}: get({k:?}) = {other:?}, model holds {}",
                short(want)
            ),
        }
    }
    Ok(())
}

fn check_listing(store: &Store, m: &Model, prefix: &str, root_len: usize, ctx: &mut Ctx) -> Verdict {
    let (want, hidden) = m.expected_listing(prefix);
    if hidden > 0 {
        ctx.classify("list:reserved-name-objects-excluded");
    }
    // directory the store may legitimately fail to open: the leading complete segments of the
    // prefix name something the OS rejects or an object (a file, not a directory)
    let mut may_err = false;
    if let Some((parents, _)) = prefix.rsplit_once('/') {
        let mut walked = String::new();
        for seg in parents.split('/') {
            if matches!(seg, "" | "." | "..") {
                break;
            }
            if !walked.is_empty() {
                walked.push('/');
            }
            walked.push_str(seg);
            if seg.contains('\0') || seg.len() > 255 || root_len + walked.len() + 64 >= 4096 || m.files.contains_key(&walked) {
                may_err = true;
            }
        }
    }
    match store.list(prefix) {
        Ok(got) => {
            if let Some(t) = got.iter().find(|k| is_reserved_name(k)) {
                fail!("C19/list/temp-name-listed", "list({prefix:?}) shows {t:?} (reserved temp prefix {TEMP_PREFIX:?})");
            }
            ensure!(
                got == want,
                "C19/list/not-the-model-keys",
                "list({prefix:?}) = {got:?}, model keys under the prefix (reserved names excluded) = {want:?}"
            );
            ctx.classify(if want.is_empty() { "list:empty" } else { "list:non-empty" });
        }
        Err(e) => {
            ensure!(may_err, "C19/list/unexpected-error", "list({prefix:?}) failed: {}", describe(&e));
            ctx.classify("list:error-on-unopenable-prefix-dir");
        }
    }
    Ok(())
}

fn check(case: &Case, ctx: &mut Ctx, env: &Env) -> Verdict {
    let sb = env.sandbox();
    // things outside the store root that an escaping key would reach
    let outside_obj = cbh_codec::compress(b"outside object");
    std::fs::write(sb.dir.join("outside.json"), &outside_obj).expect("sandbox write");
    std::fs::create_dir_all(sb.dir.join("outside")).expect("sandbox dir");
    std::fs::write(sb.dir.join("outside").join("obj.json"), &outside_obj).expect("sandbox write");
    let before = snapshot(&sb.dir, &sb.root);

    let root_len = sb.root.as_os_str().len();
    let store = Store::open(&sb.root);
    let mut m = Model::default();
    let nk = case.keys.len();
    let (mut refused_occupied, mut replaced, mut hostile_ops, mut conflicts) = (0, 0, 0, 0);

    for op in &case.ops {
        match op {
            Op::Put { k, p } | Op::PutOverwrite { k, p } => {
                let overwrite = matches!(op, Op::PutOverwrite { .. });
                let name = if overwrite { "put_overwrite" } else { "put" };
                let key = &case.keys[pick_index(*k, nk)];
                let class = classify_key(key, root_len);
                let bytes = p.bytes();
                let r = if overwrite { store.put_overwrite(key, &bytes) } else { store.put(key, &bytes) };
                match class {
                    KeyClass::Invalid { .. } => {
                        hostile_ops += 1;
                        ctx.classify("key:invalid");
                        ensure!(r.is_err(), reject_sig(class, name), "{name}({key:?}) succeeded");
                    }
                    KeyClass::OsReject | KeyClass::Valid => {
                        let occupied = m.files.contains_key(key);
                        let strict = class == KeyClass::Valid && !m.parent_is_file(key) && !m.may_be_dir(key);
                        if class == KeyClass::OsReject {
                            ctx.classify("key:os-rejects-name");
                        }
                        if !strict && class == KeyClass::Valid {
                            conflicts += 1;
                            ctx.classify("key:file-vs-directory-conflict");
                        }
                        if occupied && !overwrite {
                            refused_occupied += 1;
                            if let Ok(()) = r {
                                fail!("C19/put/occupied-key-accepted", "put({key:?}) succeeded although the key holds {}", short(&m.files[key]));
                            }
                        } else if strict {
                            if let Err(e) = &r {
                                fail!(format!("C19/{name}/valid-free-key-failed"), "{name}({key:?}, {}) failed: {}", short(&bytes), describe(e));
                            }
                        }
                        m.note_parents(key);
                        if r.is_ok() {
                            if occupied {
                                replaced += 1;
                            }
                            m.files.insert(key.clone(), bytes);
                        }
                    }
                }
                verify_state(&store, &m, Some(key), name)?;
            }
            Op::Get { k } => {
                let key = &case.keys[pick_index(*k, nk)];
                let class = classify_key(key, root_len);
                let r = store.get_raw(key);
                if let KeyClass::Invalid { .. } = class {
                    hostile_ops += 1;
                    ensure!(r.is_err(), reject_sig(class, "get"), "get({key:?}) returned {}", short(r.as_ref().expect("ok")));
                } else if let Some(want) = m.files.get(key) {
                    match r {
                        Ok(got) => ensure!(&got == want, "C19/get/read-back-differs", "get({key:?}) = {}, stored {}", short(&got), short(want)),
                        Err(e) => fail!("C19/get/stored-object-unreadable", "get({key:?}) failed: {}; stored {}", describe(&e), short(want)),
                    }
                } else {
                    ensure!(r.is_err(), "C19/get/phantom-object", "get({key:?}) = {} but nothing was stored there", short(r.as_ref().expect("ok")));
                }
            }
            Op::Delete { k } => {
                let key = &case.keys[pick_index(*k, nk)];
                let class = classify_key(key, root_len);
                let r = store.delete(key);
                if let KeyClass::Invalid { .. } = class {
                    hostile_ops += 1;
                    ensure!(r.is_err(), reject_sig(class, "delete"), "delete({key:?}) succeeded");
                } else if r.is_ok() {
                    m.files.remove(key);
                }
                verify_state(&store, &m, None, "delete")?;
            }
            Op::List { k, cut, literal } => {
                let prefix: String = match literal {
                    Some(l) => l.clone(),
                    None => {
                        let key = &case.keys[pick_index(*k, nk)];
                        let n = key.chars().count();
                        key.chars().take(pick_index(*cut, n + 1)).collect()
                    }
                };
                check_listing(&store, &m, &prefix, root_len, ctx)?;
            }
        }
    }
    // final: a fresh store object sees exactly the model
    let fresh = Store::open(&sb.root);
    verify_state(&fresh, &m, None, "history")?;
    check_listing(&fresh, &m, "", root_len, ctx)?;

    let after = snapshot(&sb.dir, &sb.root);
    if before != after {
        let changed: Vec<_> = after
            .iter()
            .filter(|(p, v)| before.get(*p) != Some(*v))
            .map(|(p, _)| p.display().to_string())
            .chain(before.keys().filter(|p| !after.contains_key(*p)).map(|p| format!("(removed) {}", p.display())))
            .collect();
        fail!("C19/keys/outside-root-changed", "files outside the store root changed: {changed:?}");
    }
    // accepted keys resolve below the root
    if let Ok(canon_root) = std::fs::canonicalize(&sb.root) {
        for k in m.files.keys() {
            if let Ok(p) = std::fs::canonicalize(sb.root.join(k)) {
                ensure!(p.starts_with(&canon_root), "C19/keys/object-outside-root", "key {k:?} resolved to {}", p.display());
            }
        }
    }

    if refused_occupied > 0 {
        ctx.classify("put-on-occupied-key");
    }
    if replaced > 0 {
        ctx.classify("overwrite-replaced");
    }
    if hostile_ops > 0 {
        ctx.classify("hostile-key-op");
    }
    if m.files.values().any(|v| v.len() > 65_536) {
        ctx.classify("payload>64KiB");
    }
    if m.files.values().any(Vec::is_empty) {
        ctx.classify("payload:empty");
    }
    if refused_occupied > 0 && hostile_ops > 0 && (replaced > 0 || conflicts > 0) {
        ctx.nontrivial();
    }
    Ok(())
}

pub fn run(h: &mut Harness, env: &Env) {
    let cases = h.cases(2_400, 60_000);
    let max = env.max_payload();
    h.section(
        "model",
        "generated history (1..24 ops: put / put_overwrite / get / delete / list(prefix)) over a pool of 2..10 generated keys (plain, unicode, long, reserved-temp-prefix names, hostile: empty / . / .. / absolute / a//b / NUL / backslash, plus parents and children of pool keys for file-vs-directory conflicts), payloads 0..256 KiB quick / 0..8 MiB thorough (random, compressible, zero, gzip-magic-prefixed, already-compressed), judged step by step against a BTreeMap model (full read-back of every model key after each mutation, listing == model keys minus reserved-prefix names, never a temp name), every op on a non-plain key must fail, a snapshot of the sandbox outside the store root must not change; non-trivial = the history contains a refused put on an occupied key, an operation on a hostile key, and an overwrite that replaced an object or a file-vs-directory conflict; distinct by serialised case",
        cases,
        case(max),
        |case, ctx| check(case, ctx, env),
    );
}
