//! Shared pieces: payload specs, sandbox directories, the store under test, the child writer and
//! the crashshim build.

use std::collections::BTreeMap;
use std::path::{Path, PathBuf};
use std::sync::atomic::{AtomicU64, Ordering};

use cbh_storage::{Storage, StorageError, StorageFacade, build_storage};
use proptest::prelude::*;
use serde::{Deserialize, Serialize};

/// The store's reserved temp-file prefix (local.rs `TEMP_PREFIX`; private there, restated here —
/// the `crash` section cross-checks it against the name of the temp file the writer really creates).
pub const TEMP_PREFIX: &str = ".cbh-tmp-";

pub const SHIM_SOURCE: &str = include_str!("../../preload/crashshim.c");

// ------------------------------------------------------------------------------------ payloads

/// A payload described by (kind, length, seed); the bytes are a pure function of the three.
#[derive(Debug, Clone, PartialEq, Eq, Serialize, Deserialize)]
pub struct Payload {
    /// 0 random, 1 compressible (JSON-like), 2 all-zero, 3 gzip-magic-prefixed random,
    /// 4 the compressed form of another payload (a stored object stored again)
    pub kind: u8,
    pub len: u32,
    pub seed: u64,
}

fn xorshift(state: &mut u64) -> u64 {
    let mut x = *state;
    x ^= x << 13;
    x ^= x >> 7;
    x ^= x << 17;
    *state = x;
    x.wrapping_mul(0x2545F4914F6CDD1D)
}

fn fill_random(out: &mut Vec<u8>, len: usize, seed: u64) {
    let mut s = seed | 1;
    while out.len() + 8 <= len {
        out.extend_from_slice(&xorshift(&mut s).to_le_bytes());
    }
    while out.len() < len {
        out.push(xorshift(&mut s) as u8);
    }
}

impl Payload {
    pub fn bytes(&self) -> Vec<u8> {
        let len = self.len as usize;
        let mut out = Vec::with_capacity(len);
        match self.kind {
            0 => fill_random(&mut out, len, self.seed),
            1 => {
                let mut s = self.seed | 1;
                let mut i = 0u64;
                while out.len() < len {
                    let v = xorshift(&mut s) % 1000;
                    let line = format!("{{\"schema\":1,\"bench\":\"group/case_{}\",\"mean_ns\":{}.{},\"samples\":100}},\n", i % 17, v, i % 10);
                    out.extend_from_slice(line.as_bytes());
                    i += 1;
                }
                out.truncate(len);
            }
            2 => out.resize(len, 0),
            3 => {
                // looks like the start of a stored object (gzip member header of the codec)
                out.extend_from_slice(&[0x1f, 0x8b, 0x08, 0x00, 0x00, 0x00, 0x00, 0x00, 0x00, 0xff]);
                out.truncate(len);
                fill_random(&mut out, len, self.seed);
            }
            _ => {
                let inner = Payload { kind: (self.seed % 3) as u8, len: self.len, seed: self.seed };
                out = cbh_codec::compress(&inner.bytes());
            }
        }
        out
    }

    pub fn arg(&self) -> String {
        format!("{}:{}:{}", self.kind, self.len, self.seed)
    }

    pub fn from_arg(s: &str) -> Option<Self> {
        let mut it = s.split(':');
        Some(Self {
            kind: it.next()?.parse().ok()?,
            len: it.next()?.parse().ok()?,
            seed: it.next()?.parse().ok()?,
        })
    }
}

/// Lengths: empty, tiny, around page / 64 KiB / tokio's 2 MiB write buffer edges, up to `max`.
pub fn len_strategy(max: u32) -> BoxedStrategy<u32> {
    let edges: Vec<u32> = [
        0u32, 1, 2, 7, 8, 9, 4095, 4096, 4097, 65_535, 65_536, 65_537, 131_072, 262_144, 1 << 20, (2 << 20) - 1, 2 << 20, (2 << 20) + 1, 4 << 20,
        8 << 20,
    ]
    .into_iter()
    .filter(|e| *e <= max)
    .collect();
    let big_lo = 65_536.min(max);
    prop_oneof![
        1 => Just(0u32),
        4 => 1u32..=64,
        4 => 64u32..=4096.min(max),
        3 => prop::sample::select(edges),
        3 => 4096u32.min(max)..=65_536.min(max),
        2 => big_lo..=max,
    ]
    .boxed()
}

pub fn payload_strategy(max: u32) -> impl Strategy<Value = Payload> {
    (
        prop_oneof![4 => Just(0u8), 3 => Just(1u8), 1 => Just(2u8), 2 => Just(3u8), 1 => Just(4u8)],
        len_strategy(max),
        any::<u64>(),
    )
        .prop_map(|(kind, len, seed)| Payload { kind, len, seed })
}

// ------------------------------------------------------------------------------------ environment

pub struct Env {
    pub base: PathBuf,
    pub shim: PathBuf,
    pub thorough: bool,
    counter: AtomicU64,
}

fn fnv(s: &str) -> u64 {
    let mut h: u64 = 0xcbf29ce484222325;
    for b in s.bytes() {
        h ^= u64::from(b);
        h = h.wrapping_mul(0x100000001b3);
    }
    h
}

impl Env {
    pub fn prepare(h: &vcommon::Harness) -> Self {
        let root = PathBuf::from(std::env::var("VERIF_ROOT").unwrap_or_else(|_| "/verif".to_string()));
        let work = root.join(".work");
        let _ = std::fs::create_dir_all(&work);
        let shim = build_shim(&work);
        // Default sandbox: tmpfs (several times faster than the shared disk; what a killed
        // process leaves behind is decided by the VFS / page cache, identically on every Linux
        // file system).  C19_SANDBOX=<dir> selects another file system.
        let parent = std::env::var_os("C19_SANDBOX").map(PathBuf::from).unwrap_or_else(|| {
            let shm = Path::new("/dev/shm");
            if shm.is_dir() { shm.join("verif-C19") } else { work.join("C19-sandbox") }
        });
        // sandboxes of harness processes that no longer exist (killed by a watchdog)
        if let Ok(rd) = std::fs::read_dir(&parent) {
            for e in rd.flatten() {
                let name = e.file_name().to_string_lossy().into_owned();
                if let Some(pid) = name.rsplit('-').next().and_then(|p| p.parse::<u32>().ok()) {
                    if !Path::new(&format!("/proc/{pid}")).exists() {
                        let _ = std::fs::remove_dir_all(e.path());
                    }
                }
            }
        }
        let base = parent.join(format!("s{}-{}", h.shard, std::process::id()));
        let _ = std::fs::remove_dir_all(&base);
        if let Err(e) = std::fs::create_dir_all(&base) {
            eprintln!("C19: cannot create sandbox {}: {e}", base.display());
            std::process::exit(2);
        }
        let base = std::fs::canonicalize(&base).unwrap_or(base);
        Self { base, shim, thorough: h.is_thorough(), counter: AtomicU64::new(0) }
    }

    /// A fresh, empty sandbox directory (the store root goes to `<sandbox>/store`).
    pub fn sandbox(&self) -> Sandbox {
        let n = self.counter.fetch_add(1, Ordering::Relaxed);
        let dir = self.base.join(format!("c{n}"));
        let _ = std::fs::remove_dir_all(&dir);
        std::fs::create_dir_all(&dir).expect("sandbox dir");
        Sandbox { root: dir.join("store"), dir }
    }

    pub fn cleanup(&self) {
        let _ = std::fs::remove_dir_all(&self.base);
    }

    pub fn max_payload(&self) -> u32 {
        if self.thorough { 8 << 20 } else { 256 << 10 }
    }
}

pub struct Sandbox {
    pub dir: PathBuf,
    pub root: PathBuf,
}

impl Drop for Sandbox {
    fn drop(&mut self) {
        let _ = std::fs::remove_dir_all(&self.dir);
    }
}

/// Compiles the embedded crashshim.c to `<work>/crashshim-<hash>.so` unless it is already there.
fn build_shim(work: &Path) -> PathBuf {
    let tag = format!("{:016x}", fnv(SHIM_SOURCE));
    let so = work.join(format!("crashshim-{tag}.so"));
    if so.exists() {
        return so;
    }
    let pid = std::process::id();
    let src = work.join(format!("crashshim-{tag}-{pid}.c"));
    let tmp = work.join(format!("crashshim-{tag}-{pid}.so.tmp"));
    if let Err(e) = std::fs::write(&src, SHIM_SOURCE) {
        eprintln!("C19: cannot write {}: {e}", src.display());
        std::process::exit(2);
    }
    let out = std::process::Command::new("clang")
        .args(["-shared", "-fPIC", "-O1", "-o"])
        .arg(&tmp)
        .arg(&src)
        .arg("-ldl")
        .output();
    let _ = std::fs::remove_file(&src);
    match out {
        Ok(o) if o.status.success() => {
            // atomic publish: concurrent shards may race here, the files are identical
            if let Err(e) = std::fs::rename(&tmp, &so) {
                eprintln!("C19: cannot publish {}: {e}", so.display());
                std::process::exit(2);
            }
            so
        }
        Ok(o) => {
            eprintln!("C19: clang failed building crashshim.so:\n{}", String::from_utf8_lossy(&o.stderr));
            std::process::exit(2);
        }
        Err(e) => {
            eprintln!("C19: cannot run clang: {e}");
            std::process::exit(2);
        }
    }
}

// ------------------------------------------------------------------------------------ the store

thread_local! {
    static RT: tokio::runtime::Runtime = tokio::runtime::Builder::new_current_thread()
        .build()
        .expect("tokio current-thread runtime");
}

pub fn block_on<F: std::future::Future>(f: F) -> F::Output {
    RT.with(|rt| rt.block_on(f))
}

/// A fresh store object over `root`, built the way the CLI builds it (`--local <path>`).
pub fn open_store(root: &Path) -> StorageFacade {
    build_storage(Some(root), &cbh_config::Config::default(), Path::new("/"), None).expect("local storage is always constructible")
}

#[derive(Debug, Clone, PartialEq, Eq)]
pub enum GetOutcome {
    Data(Vec<u8>),
    NotFound,
    Error(String),
}

pub fn describe(e: &StorageError) -> String {
    // ohno errors render a captured backtrace after the cause chain; keep the chain only
    let s = format!("{e}");
    let s = s.split("\n\nBacktrace").next().unwrap_or("").replace('\n', " | ");
    s.chars().take(300).collect()
}

pub struct Store(pub StorageFacade);

impl Store {
    pub fn open(root: &Path) -> Self {
        Self(open_store(root))
    }
    pub fn put(&self, key: &str, bytes: &[u8]) -> Result<(), StorageError> {
        block_on(self.0.put(key, bytes))
    }
    pub fn put_overwrite(&self, key: &str, bytes: &[u8]) -> Result<(), StorageError> {
        block_on(self.0.put_overwrite(key, bytes))
    }
    pub fn get(&self, key: &str) -> GetOutcome {
        match block_on(self.0.get(key)) {
            Ok(b) => GetOutcome::Data(b),
            Err(e) if e.is_not_found() => GetOutcome::NotFound,
            Err(e) => GetOutcome::Error(describe(&e)),
        }
    }
    pub fn get_raw(&self, key: &str) -> Result<Vec<u8>, StorageError> {
        block_on(self.0.get(key))
    }
    pub fn list(&self, prefix: &str) -> Result<Vec<String>, StorageError> {
        block_on(self.0.list(prefix))
    }
    pub fn delete(&self, key: &str) -> Result<(), StorageError> {
        block_on(self.0.delete(key))
    }
}

pub fn last_segment(key: &str) -> &str {
    key.rsplit('/').next().unwrap_or(key)
}

pub fn is_reserved_name(key: &str) -> bool {
    last_segment(key).starts_with(TEMP_PREFIX)
}

pub fn short(b: &[u8]) -> String {
    let head: Vec<String> = b.iter().take(12).map(|x| format!("{x:02x}")).collect();
    format!("{} bytes [{}{}]", b.len(), head.join(""), if b.len() > 12 { ".." } else { "" })
}

// ------------------------------------------------------------------------------------ snapshot

/// Everything below `dir` except the subtree `skip`: path -> None (directory) | Some(contents).
pub fn snapshot(dir: &Path, skip: &Path) -> BTreeMap<PathBuf, Option<Vec<u8>>> {
    let mut out = BTreeMap::new();
    let mut stack = vec![dir.to_path_buf()];
    while let Some(d) = stack.pop() {
        let Ok(rd) = std::fs::read_dir(&d) else { continue };
        for e in rd.flatten() {
            let p = e.path();
            if p == skip {
                continue;
            }
            match e.file_type() {
                Ok(t) if t.is_dir() => {
                    out.insert(p.clone(), None);
                    stack.push(p);
                }
                _ => {
                    out.insert(p.clone(), Some(std::fs::read(&p).unwrap_or_default()));
                }
            }
        }
    }
    out
}

// ------------------------------------------------------------------------------------ child writer

/// `c19 --crash-child <root> <put|put_overwrite> <payload-spec> <key>`: performs one write through
/// a fresh store object and prints `RESULT ok|exists|err ...`.  Runs under LD_PRELOAD=crashshim.so.
pub fn child_main(args: &[String]) -> ! {
    use std::io::Write;
    let (Some(root), Some(op), Some(spec), Some(key)) = (args.first(), args.get(1), args.get(2), args.get(3)) else {
        eprintln!("bad --crash-child arguments");
        std::process::exit(3);
    };
    let Some(payload) = Payload::from_arg(spec) else {
        eprintln!("bad payload spec");
        std::process::exit(3);
    };
    let bytes = payload.bytes();
    let store = Store::open(Path::new(root));
    let r = match op.as_str() {
        "put" => store.put(key, &bytes),
        "put_overwrite" => store.put_overwrite(key, &bytes),
        _ => {
            eprintln!("bad op");
            std::process::exit(3);
        }
    };
    let line = match r {
        Ok(()) => "RESULT ok".to_string(),
        Err(e) if e.already_existing_key().is_some() => "RESULT exists".to_string(),
        Err(e) => format!("RESULT err {}", describe(&e).replace('\n', " ")),
    };
    let mut so = std::io::stdout();
    let _ = writeln!(so, "{line}");
    let _ = so.flush();
    std::process::exit(0);
}
