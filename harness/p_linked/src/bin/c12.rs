//! C12 — linked objects: one family, one instance per thread, each confined to its thread.
//!
//! Section `statics` (child-process workers, real threads): a compile-time menu of 16 linked
//! statics (8 `instances!`, 4 `thread_local_rc!`, 4 `thread_local_arc!`) whose initialiser
//! expressions consult a per-case dependency matrix held in process globals (acyclic by index:
//! the initialiser of static i touches the statics j > i the matrix lists). A case is the matrix,
//! a per-static pause inside the initialiser and per-thread access orders for 1..8 threads
//! released together by a spin barrier. One worker process runs ONE case (static initialisation
//! happens once per process). The worker only reports observations; the oracle is in the parent.
//!
//! Section `per-thread` (in-process, real threads, deterministic scripts): histories over
//! `InstancePerThread<T>` / `InstancePerThreadSync<T>` and clones of the wrappers executed one
//! operation at a time on 2..4 threads; the linked object's constructor / destructor log into a
//! harness table which is compared with a reference model after every operation.

use std::cell::{Cell, RefCell};
use std::collections::{BTreeMap, BTreeSet, HashMap};
use std::panic::{AssertUnwindSafe, catch_unwind};
use std::sync::atomic::Ordering::{Acquire, Relaxed, Release, SeqCst};
use std::sync::atomic::{AtomicU8, AtomicU16, AtomicU32, AtomicUsize};
use std::sync::mpsc::{Receiver, RecvTimeoutError, Sender, channel};
use std::sync::{Arc, Mutex};
use std::time::Duration;

use linked::{InstancePerThread, InstancePerThreadSync, Ref, RefSync};
use proptest::prelude::*;
use serde::{Deserialize, Serialize};
use vcommon::worker::{Reply, Worker, serve, worker_role};
use vcommon::{Ctx, Failure, Harness, Verdict, ensure, fail, normalise, pick_index};

// =================================================================================================
// Part (a): statics — worker side
// =================================================================================================

const N: usize = 16;
const MAIN_T: u8 = 255;

/// Kind of static at menu index i: 'I' = `instances!`, 'R' = `thread_local_rc!`,
/// 'A' = `thread_local_arc!`. Interleaved so that every kind can depend on every kind.
fn kind_of(i: usize) -> char {
    match i % 4 {
        1 => 'R',
        3 => 'A',
        _ => 'I',
    }
}

fn kind_name(i: usize) -> &'static str {
    match kind_of(i) {
        'R' => "thread_local_rc",
        'A' => "thread_local_arc",
        _ => "instances",
    }
}

static DEPS: [AtomicU16; N] = [const { AtomicU16::new(0) }; N];
/// statics j > i that the *destructor* of the state captured by a family of static i touches
/// (it runs when a thread's candidate family loses the first-access race and is discarded)
static DROP_DEPS: [AtomicU16; N] = [const { AtomicU16::new(0) }; N];
static PAUSE: [AtomicU8; N] = [const { AtomicU8::new(0) }; N];
static INIT_RUNS: AtomicU32 = AtomicU32::new(0);
static NEXT_INST: AtomicU32 = AtomicU32::new(0);

thread_local! {
    static TIDX: Cell<u8> = const { Cell::new(MAIN_T) };
    static RECS: RefCell<Vec<Rec>> = const { RefCell::new(Vec::new()) };
}

fn tidx() -> u8 {
    TIDX.with(Cell::get)
}

/// One observation made by a worker thread.
#[derive(Debug, Clone, Serialize, Deserialize)]
enum Rec {
    /// An initialiser expression of static `idx` started on this thread; `run` is the unique tag
    /// its family state will carry.
    Init { idx: u8, run: u32 },
    /// A linked instance of static `idx` was obtained on this thread (`via` = -1 directly from the
    /// thread's access order, else from inside the initialiser of static `via`).
    Touch {
        idx: u8,
        via: i8,
        /// idx stored in the family state the instance carries
        fam_idx: u8,
        /// tag of the initialiser run that made the family state the instance carries
        run: u32,
        inst: u32,
        born_on: u8,
        /// value of the family's shared counter after this touch incremented it
        shared_after: u32,
        /// value of the instance-local counter after this touch incremented it
        local_after: u32,
    },
}

fn rec(r: Rec) {
    RECS.with(|l| l.borrow_mut().push(r));
}

struct FamState {
    idx: u8,
    run: u32,
    counter: AtomicU32,
}

impl Drop for FamState {
    fn drop(&mut self) {
        // only discarded candidate families ever get here (registered families live for ever)
        let idx = usize::from(self.idx);
        let deps = DROP_DEPS[idx].load(Relaxed);
        for j in idx + 1..N {
            if (deps >> j) & 1 == 1 {
                touch(j, idx as i8, 0);
            }
        }
    }
}

struct Probe {
    fam_idx: u8,
    run: u32,
    inst: u32,
    born_on: u8,
    shared_after: u32,
    local_after: u32,
}

fn pause(code: u8) {
    match code {
        1 => std::thread::yield_now(),
        2 => {
            for _ in 0..2_000 {
                std::hint::spin_loop();
            }
        }
        3 => std::thread::sleep(Duration::from_micros(150)),
        _ => {}
    }
}

/// Body of every initialiser expression: log the run, pause, touch the statics the case's matrix
/// lists for `idx`, pause again, make the family state.
fn init_prologue(idx: usize) -> Arc<FamState> {
    let run = INIT_RUNS.fetch_add(1, SeqCst) + 1;
    rec(Rec::Init { idx: idx as u8, run });
    let p = PAUSE[idx].load(Relaxed);
    pause(p & 3);
    let deps = DEPS[idx].load(Relaxed);
    for j in idx + 1..N {
        if (deps >> j) & 1 == 1 {
            touch(j, idx as i8, 0);
        }
    }
    pause((p >> 2) & 3);
    Arc::new(FamState {
        idx: idx as u8,
        run,
        counter: AtomicU32::new(0),
    })
}

/// `Send + Sync` linked object (used by `instances!` and `thread_local_arc!` statics).
#[linked::object]
struct SObj {
    st: Arc<FamState>,
    local: AtomicU32,
    inst: u32,
    born_on: u8,
}

impl SObj {
    fn new(idx: usize) -> Self {
        let st = init_prologue(idx);
        linked::new!(Self {
            st: Arc::clone(&st),
            local: AtomicU32::new(0),
            inst: NEXT_INST.fetch_add(1, Relaxed),
            born_on: tidx(),
        })
    }

    fn probe(&self) -> Probe {
        Probe {
            fam_idx: self.st.idx,
            run: self.st.run,
            inst: self.inst,
            born_on: self.born_on,
            shared_after: self.st.counter.fetch_add(1, SeqCst) + 1,
            local_after: self.local.fetch_add(1, Relaxed) + 1,
        }
    }
}

/// Single-threaded linked object (`Cell` inside; used by `instances!` and `thread_local_rc!`).
#[linked::object]
struct LObj {
    st: Arc<FamState>,
    local: Cell<u32>,
    inst: u32,
    born_on: u8,
}

impl LObj {
    fn new(idx: usize) -> Self {
        let st = init_prologue(idx);
        linked::new!(Self {
            st: Arc::clone(&st),
            local: Cell::new(0),
            inst: NEXT_INST.fetch_add(1, Relaxed),
            born_on: tidx(),
        })
    }

    fn probe(&self) -> Probe {
        self.local.set(self.local.get() + 1);
        Probe {
            fam_idx: self.st.idx,
            run: self.st.run,
            inst: self.inst,
            born_on: self.born_on,
            shared_after: self.st.counter.fetch_add(1, SeqCst) + 1,
            local_after: self.local.get(),
        }
    }
}

linked::instances! {
    static S0: SObj = SObj::new(0);
    static S2: LObj = LObj::new(2);
    static S4: SObj = SObj::new(4);
    static S6: LObj = LObj::new(6);
    static S8: SObj = SObj::new(8);
    static S10: LObj = LObj::new(10);
    static S12: SObj = SObj::new(12);
    static S14: LObj = LObj::new(14);
}

linked::thread_local_rc! {
    static S1: LObj = LObj::new(1);
    static S5: LObj = LObj::new(5);
    static S9: LObj = LObj::new(9);
    static S13: LObj = LObj::new(13);
}

linked::thread_local_arc! {
    static S3: SObj = SObj::new(3);
    static S7: SObj = SObj::new(7);
    static S11: SObj = SObj::new(11);
    static S15: SObj = SObj::new(15);
}

/// Obtains an instance of static `j` the way its kind offers (`how` bit 0: `with` / `to_rc|to_arc`)
/// and records what it carries.
fn touch(j: usize, via: i8, how: u8) {
    let alt = how & 1 == 1;
    let p = match j {
        0 => S0.get().probe(),
        2 => S2.get().probe(),
        4 => S4.get().probe(),
        6 => S6.get().probe(),
        8 => S8.get().probe(),
        10 => S10.get().probe(),
        12 => S12.get().probe(),
        14 => S14.get().probe(),
        1 => if alt { S1.to_rc().probe() } else { S1.with(|o| o.probe()) },
        5 => if alt { S5.to_rc().probe() } else { S5.with(|o| o.probe()) },
        9 => if alt { S9.to_rc().probe() } else { S9.with(|o| o.probe()) },
        13 => if alt { S13.to_rc().probe() } else { S13.with(|o| o.probe()) },
        3 => if alt { S3.to_arc().probe() } else { S3.with(|o| o.probe()) },
        7 => if alt { S7.to_arc().probe() } else { S7.with(|o| o.probe()) },
        11 => if alt { S11.to_arc().probe() } else { S11.with(|o| o.probe()) },
        _ => if alt { S15.to_arc().probe() } else { S15.with(|o| o.probe()) },
    };
    rec(Rec::Touch {
        idx: j as u8,
        via,
        fam_idx: p.fam_idx,
        run: p.run,
        inst: p.inst,
        born_on: p.born_on,
        shared_after: p.shared_after,
        local_after: p.local_after,
    });
}

#[derive(Debug, Clone, Serialize, Deserialize)]
struct Access {
    /// menu index 0..16
    s: u8,
    /// bit 0: `with` (0) or `to_rc`/`to_arc` (1) for the thread-local kinds
    how: u8,
}

#[derive(Debug, Clone, Serialize, Deserialize)]
struct SCase {
    /// deps[i] = bit set of statics j > i touched by the initialiser of static i
    deps: Vec<u16>,
    /// pause[i] = pause code before (bits 0-1) and after (bits 2-3) the dependency touches
    pause: Vec<u8>,
    /// access order of each thread
    threads: Vec<Vec<Access>>,
    /// drop_deps[i] = bit set of statics j > i touched by the destructor of the state a family of
    /// static i captured (runs for candidate families discarded after a lost first-access race)
    #[serde(default)]
    drop_deps: Vec<u16>,
}

#[derive(Debug, Clone, Serialize, Deserialize, Default)]
struct ThreadLog {
    t: u8,
    recs: Vec<Rec>,
    panic: Option<String>,
}

#[derive(Debug, Clone, Serialize, Deserialize, Default)]
struct SReply {
    error: Option<String>,
    logs: Vec<ThreadLog>,
}

fn worker_statics_case(req: &str) -> SReply {
    let case: SCase = match serde_json::from_str(req) {
        Ok(c) => c,
        Err(e) => {
            return SReply {
                error: Some(format!("bad request: {e}")),
                ..SReply::default()
            };
        }
    };
    for i in 0..N {
        DEPS[i].store(case.deps.get(i).copied().unwrap_or(0) & !((1u32 << (i + 1)) - 1) as u16, Relaxed);
        PAUSE[i].store(case.pause.get(i).copied().unwrap_or(0), Relaxed);
        DROP_DEPS[i].store(case.drop_deps.get(i).copied().unwrap_or(0) & !((1u32 << (i + 1)) - 1) as u16, Relaxed);
    }
    let n = case.threads.len();
    // released together: a blocking barrier until every thread exists, then a short spin barrier
    let arrived = Arc::new(AtomicUsize::new(0));
    let gate = Arc::new(std::sync::Barrier::new(n));
    let mut handles = Vec::new();
    for (t, order) in case.threads.iter().enumerate() {
        let order = order.clone();
        let arrived = Arc::clone(&arrived);
        let gate = Arc::clone(&gate);
        handles.push(std::thread::spawn(move || {
            TIDX.with(|c| c.set(t as u8));
            gate.wait();
            arrived.fetch_add(1, Release);
            // best effort: a woken thread waits briefly for the others to be running too
            let mut spins = 0u32;
            while arrived.load(Acquire) < n && spins < 20_000 {
                spins += 1;
                std::hint::spin_loop();
            }
            let r = catch_unwind(AssertUnwindSafe(|| {
                for a in &order {
                    touch(usize::from(a.s) % N, -1, a.how);
                }
            }));
            ThreadLog {
                t: t as u8,
                recs: RECS.with(|l| std::mem::take(&mut *l.borrow_mut())),
                panic: r.err().map(|p| vcommon::panic_message(&*p)),
            }
        }));
    }
    let mut logs = Vec::new();
    for h in handles {
        match h.join() {
            Ok(l) => logs.push(l),
            Err(p) => {
                return SReply {
                    error: Some(format!("thread wrapper panicked: {}", vcommon::panic_message(&*p))),
                    ..SReply::default()
                };
            }
        }
    }
    // Every thread has finished: the main thread obtains one more instance of every static that
    // anybody obtained and reads the family's shared counter through it.
    let mut seen = BTreeSet::new();
    for l in &logs {
        for r in &l.recs {
            if let Rec::Touch { idx, .. } = r {
                seen.insert(*idx);
            }
        }
    }
    let any_panic = logs.iter().any(|l| l.panic.is_some());
    if !any_panic {
        let r = catch_unwind(AssertUnwindSafe(|| {
            for idx in &seen {
                touch(usize::from(*idx), -1, 0);
            }
        }));
        logs.push(ThreadLog {
            t: MAIN_T,
            recs: RECS.with(|l| std::mem::take(&mut *l.borrow_mut())),
            panic: r.err().map(|p| vcommon::panic_message(&*p)),
        });
    }
    SReply { error: None, logs }
}

/// (every thread of `pid` is sleeping, processor seconds consumed by `pid`) from /proc.
fn child_state(pid: libc::pid_t) -> Option<(bool, f64)> {
    let rd = std::fs::read_dir(format!("/proc/{pid}/task")).ok()?;
    let mut all_blocked = true;
    let mut ticks = 0u64;
    let mut n = 0;
    for e in rd.flatten() {
        let Ok(stat) = std::fs::read_to_string(e.path().join("stat")) else { continue };
        let Some(close) = stat.rfind(')') else { continue };
        let f: Vec<&str> = stat[close + 1..].split_whitespace().collect();
        if f.len() < 13 {
            continue;
        }
        n += 1;
        // S = interruptible sleep (futex wait, nanosleep); anything else may still make progress
        if f[0] != "S" {
            all_blocked = false;
        }
        ticks += f[11].parse::<u64>().unwrap_or(0) + f[12].parse::<u64>().unwrap_or(0);
    }
    if n == 0 {
        return None;
    }
    // SAFETY: sysconf has no preconditions.
    let hz = unsafe { libc::sysconf(libc::_SC_CLK_TCK) }.max(1) as f64;
    Some((all_blocked, ticks as f64 / hz))
}

/// Zygote side of one request `"<deadline ms> <case json>"`: fork, let the child run the case and
/// write its reply into a pipe, kill the child at the deadline.
fn zygote_request(req: &str) -> String {
    let Some((ms, json)) = req.split_once(' ') else {
        return r#"{"error":"bad request","logs":[]}"#.to_string();
    };
    let deadline = Duration::from_millis(ms.parse().unwrap_or(4000));
    let mut fds = [0 as libc::c_int; 2];
    // SAFETY: plain POSIX calls on file descriptors / pids this function owns; the process is
    // single-threaded at the time of fork().
    unsafe {
        if libc::pipe(fds.as_mut_ptr()) != 0 {
            return r#"{"error":"pipe failed","logs":[]}"#.to_string();
        }
        let pid = libc::fork();
        if pid < 0 {
            libc::close(fds[0]);
            libc::close(fds[1]);
            return r#"{"error":"fork failed","logs":[]}"#.to_string();
        }
        if pid == 0 {
            libc::close(fds[0]);
            let reply = worker_statics_case(json);
            let text = serde_json::to_string(&reply).unwrap_or_else(|_| r#"{"error":"serialise","logs":[]}"#.into());
            let bytes = text.as_bytes();
            let mut off = 0;
            while off < bytes.len() {
                let n = libc::write(fds[1], bytes[off..].as_ptr().cast(), bytes.len() - off);
                if n <= 0 {
                    break;
                }
                off += n as usize;
            }
            libc::_exit(0);
        }
        libc::close(fds[1]);
        let start = std::time::Instant::now();
        let mut out: Vec<u8> = Vec::new();
        let mut verdict: Option<&'static str> = None;
        let mut wait_until = deadline;
        loop {
            let left = wait_until.saturating_sub(start.elapsed());
            let mut pfd = libc::pollfd { fd: fds[0], events: libc::POLLIN, revents: 0 };
            let r = libc::poll(&mut pfd, 1, if left.is_zero() { 0 } else { left.as_millis().min(60_000) as libc::c_int + 1 });
            if r > 0 {
                let mut buf = [0u8; 8192];
                let n = libc::read(fds[0], buf.as_mut_ptr().cast(), buf.len());
                if n <= 0 {
                    break; // end of the reply (or the child is gone)
                }
                out.extend_from_slice(&buf[..n as usize]);
                continue;
            }
            if !wait_until.saturating_sub(start.elapsed()).is_zero() {
                continue; // EINTR or early wake-up
            }
            // Past the deadline with nothing to read. A machine that is merely overloaded must not
            // look like a hang: the case is called hung only if every thread of the child is
            // blocked and the child consumed no processor time across two looks 60 ms apart, or
            // if it has burnt >= 8 s of processor time (normal: a few ms) without finishing.
            let a = child_state(pid);
            std::thread::sleep(Duration::from_millis(60));
            let b = child_state(pid);
            if let (Some((blocked_a, cpu_a)), Some((blocked_b, cpu_b))) = (a, b) {
                let mut again = libc::pollfd { fd: fds[0], events: libc::POLLIN, revents: 0 };
                let readable = libc::poll(&mut again, 1, 0) > 0;
                if !readable && ((blocked_a && blocked_b && cpu_a == cpu_b) || cpu_b >= 8.0) {
                    verdict = Some("TIMEOUT");
                    break;
                }
            }
            if start.elapsed() > Duration::from_secs(300) {
                verdict = Some("STARVED");
                break;
            }
            wait_until = start.elapsed() + Duration::from_millis(250);
        }
        libc::close(fds[0]);
        if verdict.is_some() {
            libc::kill(pid, libc::SIGKILL);
        }
        let mut status = 0;
        libc::waitpid(pid, &mut status, 0);
        if let Some(v) = verdict {
            return v.to_string();
        }
        if out.is_empty() {
            return format!(r#"{{"error":"case process ended without a reply (wait status {status})","logs":[]}}"#);
        }
        String::from_utf8_lossy(&out).into_owned()
    }
}

// =================================================================================================
// Part (a): statics — parent side (generator, driver, oracle)
// =================================================================================================

fn scase_strategy() -> impl Strategy<Value = SCase> {
    // density of the dependency matrix, access-order shape
    (
        prop_oneof![1 => Just(0u8), 3 => Just(1u8), 2 => Just(2u8), 2 => Just(3u8), 1 => Just(4u8), 1 => Just(5u8)],
        prop_oneof![1 => Just(1usize), 6 => 2usize..=3, 3 => 4usize..=5, 2 => 6usize..=8],
        2usize..=6,
        any::<bool>(),
    )
        .prop_flat_map(|(density, nthreads, nfocus, same_first)| {
        (
            prop::collection::vec(any::<u16>(), N),
            prop::collection::vec(any::<u16>(), N),
            prop::collection::vec(prop_oneof![4 => Just(0u8), 2 => 0u8..16, 1 => Just(3u8), 1 => Just(12u8)], N),
            prop::sample::subsequence((0u8..N as u8).collect::<Vec<_>>(), nfocus),
            prop::collection::vec(prop::collection::vec((any::<u16>(), 0u8..2), 1..=6), nthreads),
            Just(density),
            Just(same_first),
        )
            .prop_map(|(m1, m2, pause, focus, orders, density, same_first)| {
                let mut deps = vec![0u16; N];
                for i in 0..N {
                    let above: u16 = if i + 1 >= 16 { 0 } else { !((1u32 << (i + 1)) - 1) as u16 };
                    let raw = match density {
                        0 => 0,                                  // no edges
                        1 => m1[i] & m2[i] & m2[(i + 1) % N],    // ~1/8
                        2 => m1[i] & m2[i],                      // ~1/4
                        3 => {
                            // chain i -> i+1 (+ a few)
                            (if i + 1 < N { 1u16 << (i + 1) } else { 0 }) | (m1[i] & m2[i] & m2[(i + 3) % N])
                        }
                        4 => m1[i],                              // ~1/2
                        _ => m1[i] | m2[i],                      // ~3/4
                    };
                    deps[i] = raw & above;
                }
                // half of the cases: destructors of captured family state touch later statics too
                let mut drop_deps = vec![0u16; N];
                if m1[0] & 1 == 1 {
                    for i in 0..N {
                        let above: u16 = if i + 1 >= 16 { 0 } else { !((1u32 << (i + 1)) - 1) as u16 };
                        drop_deps[i] = m1[(i + 5) % N] & m2[(i + 9) % N] & above;
                    }
                }
                let threads = orders
                    .into_iter()
                    .map(|o| {
                        o.into_iter()
                            .enumerate()
                            .map(|(k, (raw, how))| Access {
                                s: if same_first && k == 0 { focus[0] } else { focus[pick_index(raw, focus.len())] },
                                how,
                            })
                            .collect()
                    })
                    .collect();
                SCase { deps, pause, threads, drop_deps }
            })
        })
}

/// Statics reachable from the access orders through the matrix, and the edges among them.
fn reachable(case: &SCase) -> (BTreeSet<usize>, usize, usize) {
    let mut reach = BTreeSet::new();
    for o in &case.threads {
        for a in o {
            reach.insert(usize::from(a.s) % N);
        }
    }
    // indices only grow along edges: one ascending pass closes the set
    for i in 0..N {
        if reach.contains(&i) {
            for j in i + 1..N {
                if (case.deps[i] >> j) & 1 == 1 {
                    reach.insert(j);
                }
            }
        }
    }
    let mut edges = 0;
    let mut depth = [0usize; N];
    for i in (0..N).rev() {
        if !reach.contains(&i) {
            continue;
        }
        for j in i + 1..N {
            if (case.deps[i] >> j) & 1 == 1 {
                edges += 1;
                depth[i] = depth[i].max(depth[j] + 1);
            }
        }
    }
    let maxd = reach.iter().map(|i| depth[*i]).max().unwrap_or(0);
    (reach, edges, maxd)
}

struct StaticsDriver {
    zygote: Option<Worker>,
    infra: Vec<String>,
    /// full deadline; once a generated case has been confirmed to hang, the re-runs made while
    /// shrinking it use `short`, and after `hang_budget` further hang verdicts shrinking is cut
    /// short (a budget may end a search, it never decides the verdict of a counted case)
    full: Duration,
    short: Duration,
    hang_confirmed: bool,
    hang_budget: u32,
    flaky_timeouts: u64,
    runs: u64,
    /// serialised cases of committed replay files: always judged with the full deadline
    replay_cases: BTreeSet<String>,
}

enum Outcome {
    Reply(SReply),
    Hang,
    FlakyTimeout,
    Skipped,
    Infra,
}

impl StaticsDriver {
    fn new(replay_cases: BTreeSet<String>) -> Self {
        Self {
            zygote: None,
            infra: Vec::new(),
            full: Duration::from_secs(4),
            short: Duration::from_millis(400),
            hang_confirmed: false,
            hang_budget: 60,
            flaky_timeouts: 0,
            runs: 0,
            replay_cases,
        }
    }

    /// One run of the case in a fresh (forked) process.
    fn once(&mut self, req: &str, deadline: Duration) -> Reply {
        let w = self.zygote.get_or_insert_with(|| Worker::spawn("statics"));
        self.runs += 1;
        w.call(&format!("{} {req}", deadline.as_millis()), deadline + Duration::from_secs(400))
    }

    fn run(&mut self, case: &SCase) -> Outcome {
        let req = serde_json::to_string(case).expect("serialise");
        let is_replay = self.replay_cases.contains(&req);
        let shrinking = self.hang_confirmed && !is_replay;
        if shrinking && self.hang_budget == 0 {
            return Outcome::Skipped;
        }
        let deadline = if shrinking { self.short } else { self.full };
        for attempt in 0..2 {
            match self.once(&req, deadline) {
                Reply::Line(l) if l == "STARVED" => {
                    self.infra.push("a case neither finished nor blocked within 300 s (machine overloaded?)".into());
                    return Outcome::Infra;
                }
                Reply::Line(l) if l == "TIMEOUT" => {
                    if attempt == 1 {
                        if shrinking {
                            self.hang_budget -= 1;
                        }
                        if !is_replay {
                            self.hang_confirmed = true;
                        }
                        return Outcome::Hang;
                    }
                }
                Reply::Line(l) => match serde_json::from_str::<SReply>(&l) {
                    Ok(r) => {
                        if attempt == 1 {
                            self.flaky_timeouts += 1;
                            return Outcome::FlakyTimeout;
                        }
                        return Outcome::Reply(r);
                    }
                    Err(e) => {
                        self.infra.push(format!("bad reply: {e}"));
                        return Outcome::Infra;
                    }
                },
                Reply::Timeout => {
                    self.infra.push("zygote did not answer".into());
                    return Outcome::Infra;
                }
                Reply::Died(s) => {
                    self.infra.push(format!("zygote died: {s}"));
                    return Outcome::Infra;
                }
            }
        }
        Outcome::Infra
    }
}

fn check_statics(case: &SCase, ctx: &mut Ctx, drv: &mut StaticsDriver) -> Verdict {
    ensure!(
        case.deps.len() == N && case.pause.len() == N && !case.threads.is_empty() && case.threads.len() <= 8 && case.threads.iter().all(|o| !o.is_empty()),
        "C12/statics/harness/bad-case",
        "malformed case"
    );
    let nthreads = case.threads.len();
    let (reach, edges, depth) = reachable(case);
    ctx.classify(match nthreads {
        1 => "threads:1",
        2..=3 => "threads:2-3",
        _ => "threads:4-8",
    });
    ctx.classify(match edges {
        0 => "reachable-edges:0",
        1..=3 => "reachable-edges:1-3",
        _ => "reachable-edges:4+",
    });
    if reach.iter().any(|i| case.drop_deps.get(*i).copied().unwrap_or(0) != 0) {
        ctx.classify("destructor-of-captured-family-state-touches-later-statics");
    }
    ctx.classify(match depth {
        0 => "nesting-depth:0",
        1 => "nesting-depth:1",
        2 => "nesting-depth:2",
        _ => "nesting-depth:3+",
    });
    for i in &reach {
        for j in i + 1..N {
            if (case.deps[*i] >> j) & 1 == 1 {
                ctx.classify(&format!("edge:{}->{}", kind_name(*i), kind_name(j)));
            }
        }
    }
    let mut first_of: BTreeMap<usize, usize> = BTreeMap::new();
    for o in &case.threads {
        *first_of.entry(usize::from(o[0].s) % N).or_insert(0) += 1;
    }
    if first_of.values().any(|c| *c >= 2) {
        ctx.classify("same-first-static-on->=2-threads");
    }
    if edges >= 1 && nthreads >= 2 {
        ctx.nontrivial();
    }

    let reply = match drv.run(case) {
        Outcome::Reply(r) => r,
        Outcome::Hang => {
            let sig = if edges >= 1 { "C12/statics/nested-initialiser/hang" } else { "C12/statics/first-access/hang" };
            fail!(
                sig,
                "first access did not terminate (worker killed after the deadline, reproduced in a fresh worker): {} thread(s), {} reachable dependency edge(s), nesting depth {}",
                nthreads,
                edges,
                depth
            );
        }
        Outcome::FlakyTimeout => {
            ctx.classify("timeout-unreproduced(ignored)");
            return Ok(());
        }
        Outcome::Skipped | Outcome::Infra => return Ok(()),
    };
    if let Some(e) = reply.error {
        drv.infra.push(e);
        return Ok(());
    }

    for l in &reply.logs {
        if let Some(p) = &l.panic {
            fail!(
                format!("C12/statics/access-panicked/{}", normalise(p)),
                "thread {} panicked while obtaining an instance: {}",
                l.t,
                p
            );
        }
    }
    if reply.logs.len() != nthreads + 1 {
        drv.infra.push(format!("{} logs for {} threads", reply.logs.len(), nthreads));
        return Ok(());
    }

    // --- collect
    struct T {
        t: u8,
        via: i8,
        fam_idx: u8,
        run: u32,
        inst: u32,
        born_on: u8,
        shared_after: u32,
        local_after: u32,
    }
    let mut touches: BTreeMap<usize, Vec<T>> = BTreeMap::new();
    let mut inits: BTreeMap<usize, Vec<(u32, u8)>> = BTreeMap::new();
    for l in &reply.logs {
        let mut direct = 0;
        for r in &l.recs {
            match r {
                Rec::Init { idx, run } => inits.entry(usize::from(*idx)).or_default().push((*run, l.t)),
                Rec::Touch { idx, via, fam_idx, run, inst, born_on, shared_after, local_after } => {
                    if *via < 0 {
                        direct += 1;
                    }
                    touches.entry(usize::from(*idx)).or_default().push(T {
                        t: l.t,
                        via: *via,
                        fam_idx: *fam_idx,
                        run: *run,
                        inst: *inst,
                        born_on: *born_on,
                        shared_after: *shared_after,
                        local_after: *local_after,
                    });
                }
            }
        }
        if l.t != MAIN_T {
            let want = case.threads[usize::from(l.t)].len();
            if direct != want {
                drv.infra.push(format!("thread {} logged {direct} direct touches, order has {want}", l.t));
                return Ok(());
            }
        }
    }
    let touched: BTreeSet<usize> = touches.keys().copied().collect();
    // statics that destructors of discarded candidate families may additionally reach (whether a
    // candidate is discarded depends on who wins a first-access race, so these are optional)
    let mut reach_max = reach.clone();
    for i in 0..N {
        if reach_max.contains(&i) {
            let d = case.deps[i] | case.drop_deps.get(i).copied().unwrap_or(0);
            for j in i + 1..N {
                if (d >> j) & 1 == 1 {
                    reach_max.insert(j);
                }
            }
        }
    }
    if !reach.is_subset(&touched) || !touched.is_subset(&reach_max) {
        drv.infra.push(format!("touched {touched:?} but model reaches {reach:?} (at most {reach_max:?})"));
        return Ok(());
    }

    let mut multi_init = false;
    for (idx, ts) in &touches {
        let k = kind_name(*idx);
        let runs = inits.get(idx).cloned().unwrap_or_default();
        if runs.len() > 1 {
            multi_init = true;
        }
        // (1) one family: every instance carries the state made by one and the same initialiser run
        let tag = ts[0].run;
        for x in ts {
            ensure!(
                usize::from(x.fam_idx) == *idx,
                format!("C12/statics/{k}/instance-of-another-static"),
                "static S{idx}: instance obtained on thread {} belongs to the family of S{}",
                x.t,
                x.fam_idx
            );
            ensure!(
                x.run == tag,
                format!("C12/statics/{k}/two-initial-instances-exposed"),
                "static S{idx}: thread {} (via {}) obtained an instance of the family made by initialiser run #{}, thread {} one of run #{}; initialiser runs (tag, thread): {:?}",
                ts[0].t,
                ts[0].via,
                tag,
                x.t,
                x.run,
                runs
            );
        }
        ensure!(
            runs.iter().any(|(r, _)| *r == tag),
            format!("C12/statics/{k}/family-without-initialiser-run"),
            "static S{idx}: family tag #{tag} was made by no logged initialiser run {:?}",
            runs
        );
        // (2) shared family state: every increment made through any instance is seen through the
        // instance obtained last (after every thread finished)
        let last = ts.iter().rfind(|x| x.t == MAIN_T).expect("main touched every seen static");
        ensure!(
            last.shared_after as usize == ts.len(),
            format!("C12/statics/{k}/family-state-not-shared"),
            "static S{idx}: {} instances each incremented the family counter once, the final instance reads {}",
            ts.len(),
            last.shared_after
        );
        // (3) the thread-local kinds keep one instance per thread, made on that thread
        if kind_of(*idx) != 'I' {
            let mut per_thread: BTreeMap<u8, (u32, u32)> = BTreeMap::new();
            for x in ts {
                let e = per_thread.entry(x.t).or_insert((x.inst, 0));
                e.1 += 1;
                ensure!(
                    x.inst == e.0 && x.local_after == e.1,
                    format!("C12/statics/{k}/not-one-instance-per-thread"),
                    "static S{idx}: thread {} touch #{} reached instance {} (local count {}), its first touch reached instance {}",
                    x.t,
                    e.1,
                    x.inst,
                    x.local_after,
                    e.0
                );
                ensure!(
                    x.born_on == x.t,
                    format!("C12/statics/{k}/instance-made-on-another-thread"),
                    "static S{idx}: thread {} uses an instance created on thread {}",
                    x.t,
                    x.born_on
                );
            }
        }
    }
    for idx in inits.keys() {
        if !reach_max.contains(idx) {
            drv.infra.push(format!("initialiser of unreachable static {idx} ran"));
        }
    }
    if multi_init {
        ctx.classify("initialiser-ran-more-than-once(race observed)");
    }
    Ok(())
}

// =================================================================================================
// Part (b): per-thread wrappers
// =================================================================================================

const DRIVER_T: u8 = 200;
const TOLERATED: &str = "C12/per-thread/harness/stopped-at-tolerated-known-finding";

#[derive(Debug, Clone, Copy, PartialEq, Eq)]
enum EvKind {
    Created,
    Dropped,
}

#[derive(Debug, Clone, Copy)]
struct Ev {
    kind: EvKind,
    inst: u32,
    fam: u8,
    thread: u8,
}

/// The harness table the linked object's constructor / destructor write to.
#[derive(Default)]
struct PLog {
    events: Mutex<Vec<Ev>>,
    next: AtomicU32,
}

impl PLog {
    fn created(&self, fam: u8) -> u32 {
        let inst = self.next.fetch_add(1, SeqCst);
        self.events.lock().unwrap_or_else(|e| e.into_inner()).push(Ev {
            kind: EvKind::Created,
            inst,
            fam,
            thread: tidx(),
        });
        inst
    }

    fn dropped(&self, inst: u32, fam: u8) {
        self.events.lock().unwrap_or_else(|e| e.into_inner()).push(Ev {
            kind: EvKind::Dropped,
            inst,
            fam,
            thread: tidx(),
        });
    }

    fn since(&self, from: usize) -> Vec<Ev> {
        self.events.lock().unwrap_or_else(|e| e.into_inner())[from..].to_vec()
    }
}

#[linked::object]
struct PSync {
    fam: u8,
    inst: u32,
    born_on: u8,
    uses: AtomicU32,
    log: Arc<PLog>,
}

impl PSync {
    fn new(fam: u8, log: Arc<PLog>) -> Self {
        linked::new!(Self {
            fam,
            inst: log.created(fam),
            born_on: tidx(),
            uses: AtomicU32::new(0),
            log: Arc::clone(&log),
        })
    }
}

impl Drop for PSync {
    fn drop(&mut self) {
        self.log.dropped(self.inst, self.fam);
    }
}

#[linked::object]
struct PLocal {
    fam: u8,
    inst: u32,
    born_on: u8,
    uses: Cell<u32>,
    log: Arc<PLog>,
}

impl PLocal {
    fn new(fam: u8, log: Arc<PLog>) -> Self {
        linked::new!(Self {
            fam,
            inst: log.created(fam),
            born_on: tidx(),
            uses: Cell::new(0),
            log: Arc::clone(&log),
        })
    }
}

impl Drop for PLocal {
    fn drop(&mut self) {
        self.log.dropped(self.inst, self.fam);
    }
}

enum AnyWrap {
    L(InstancePerThread<PLocal>),
    S(InstancePerThreadSync<PSync>),
}

enum AnyRef {
    L(Ref<PLocal>),
    S(RefSync<PSync>),
}

#[derive(Debug, Clone, Copy)]
struct PProbe {
    fam: u8,
    inst: u32,
    born_on: u8,
    uses: u32,
}

impl AnyRef {
    fn probe(&self, bump: bool) -> PProbe {
        match self {
            AnyRef::L(r) => {
                if bump {
                    r.uses.set(r.uses.get() + 1);
                }
                PProbe { fam: r.fam, inst: r.inst, born_on: r.born_on, uses: r.uses.get() }
            }
            AnyRef::S(r) => {
                if bump {
                    r.uses.fetch_add(1, SeqCst);
                }
                PProbe { fam: r.fam, inst: r.inst, born_on: r.born_on, uses: r.uses.load(SeqCst) }
            }
        }
    }
}

enum Cmd {
    NewWrapper { w: u32, fam: u8, sync: bool, log: Arc<PLog> },
    Acquire { w: u32, r: u32 },
    CloneRef { r: u32, nr: u32 },
    UseRef { r: u32 },
    DropRef { r: u32 },
    TakeRef { r: u32 },
    GiveRef { r: u32, x: RefSync<PSync> },
    CloneWrapOut { w: u32 },
    GiveWrap { w: u32, x: AnyWrap },
    DropWrap { w: u32 },
    /// leak whatever is left (failure path: nothing of the code under test runs any more)
    Forget,
    /// the model says this thread holds nothing: confirm
    CheckEmpty,
}

enum Done {
    Ok,
    Probe(PProbe),
    Ref(RefSync<PSync>),
    Wrap(AnyWrap),
    Panic(String),
    Bad(&'static str),
}

fn pthread_main(t: u8, rx: Receiver<Cmd>, tx: Sender<Done>) {
    TIDX.with(|c| c.set(t));
    let mut refs: HashMap<u32, AnyRef> = HashMap::new();
    let mut wraps: HashMap<u32, AnyWrap> = HashMap::new();
    loop {
        let Ok(cmd) = rx.recv() else {
            std::mem::forget(refs);
            std::mem::forget(wraps);
            return;
        };
        let exit = matches!(cmd, Cmd::Forget);
        let res = catch_unwind(AssertUnwindSafe(|| -> Done {
            match cmd {
                Cmd::NewWrapper { w, fam, sync, log } => {
                    let x = if sync {
                        AnyWrap::S(InstancePerThreadSync::new(PSync::new(fam, log)))
                    } else {
                        AnyWrap::L(InstancePerThread::new(PLocal::new(fam, log)))
                    };
                    wraps.insert(w, x);
                    Done::Ok
                }
                Cmd::Acquire { w, r } => {
                    let Some(x) = wraps.get(&w) else { return Done::Bad("no such wrapper") };
                    let nr = match x {
                        AnyWrap::L(x) => AnyRef::L(x.acquire()),
                        AnyWrap::S(x) => AnyRef::S(x.acquire()),
                    };
                    let p = nr.probe(false);
                    refs.insert(r, nr);
                    Done::Probe(p)
                }
                Cmd::CloneRef { r, nr } => {
                    let Some(x) = refs.get(&r) else { return Done::Bad("no such ref") };
                    let c = match x {
                        AnyRef::L(x) => AnyRef::L(x.clone()),
                        AnyRef::S(x) => AnyRef::S(x.clone()),
                    };
                    let p = c.probe(false);
                    refs.insert(nr, c);
                    Done::Probe(p)
                }
                Cmd::UseRef { r } => {
                    let Some(x) = refs.get(&r) else { return Done::Bad("no such ref") };
                    Done::Probe(x.probe(true))
                }
                Cmd::DropRef { r } => {
                    let Some(x) = refs.remove(&r) else { return Done::Bad("no such ref") };
                    drop(x);
                    Done::Ok
                }
                Cmd::TakeRef { r } => match refs.remove(&r) {
                    Some(AnyRef::S(x)) => Done::Ref(x),
                    Some(other) => {
                        refs.insert(r, other);
                        Done::Bad("Ref<T> is not Send")
                    }
                    None => Done::Bad("no such ref"),
                },
                Cmd::GiveRef { r, x } => {
                    refs.insert(r, AnyRef::S(x));
                    Done::Ok
                }
                Cmd::CloneWrapOut { w } => {
                    let Some(x) = wraps.get(&w) else { return Done::Bad("no such wrapper") };
                    Done::Wrap(match x {
                        AnyWrap::L(x) => AnyWrap::L(x.clone()),
                        AnyWrap::S(x) => AnyWrap::S(x.clone()),
                    })
                }
                Cmd::GiveWrap { w, x } => {
                    wraps.insert(w, x);
                    Done::Ok
                }
                Cmd::DropWrap { w } => {
                    let Some(x) = wraps.remove(&w) else { return Done::Bad("no such wrapper") };
                    drop(x);
                    Done::Ok
                }
                Cmd::Forget => Done::Ok,
                Cmd::CheckEmpty => {
                    if refs.is_empty() && wraps.is_empty() { Done::Ok } else { Done::Bad("live objects left on a thread at the end") }
                }
            }
        }));
        let done = match res {
            Ok(d) => d,
            Err(p) => Done::Panic(vcommon::panic_message(&*p)),
        };
        let _ = tx.send(done);
        if exit {
            std::mem::forget(refs);
            std::mem::forget(wraps);
            return;
        }
    }
}

#[derive(Debug, Clone, Serialize, Deserialize)]
enum POp {
    /// acquire through wrapper `w` (on the thread that holds it)
    Acquire { w: u16 },
    CloneRef { r: u16 },
    /// move a reference to thread `to` (RefSync only; a no-op `UseRef` for `Ref`)
    MoveRef { r: u16, to: u8 },
    UseRef { r: u16 },
    DropRef { r: u16 },
    /// clone wrapper `w` on its thread and hand the clone to thread `to`
    CloneWrap { w: u16, to: u8 },
    DropWrap { w: u16 },
}

#[derive(Debug, Clone, Serialize, Deserialize)]
struct PCase {
    sync: bool,
    threads: u8,
    families: u8,
    /// thread that makes the first wrapper of each family
    creator: u8,
    /// hand a clone of every family's wrapper to every thread before the script starts
    spread: bool,
    ops: Vec<POp>,
    /// final clean-up: drop remaining wrappers before (true) or after the remaining references
    wrappers_first: bool,
    /// final clean-up: drop remaining references newest first
    newest_first: bool,
}

fn pcase_strategy() -> impl Strategy<Value = PCase> {
    let op = prop_oneof![
        6 => any::<u16>().prop_map(|w| POp::Acquire { w }),
        2 => any::<u16>().prop_map(|r| POp::CloneRef { r }),
        4 => (any::<u16>(), 0u8..4).prop_map(|(r, to)| POp::MoveRef { r, to }),
        1 => any::<u16>().prop_map(|r| POp::UseRef { r }),
        5 => any::<u16>().prop_map(|r| POp::DropRef { r }),
        1 => (any::<u16>(), 0u8..4).prop_map(|(w, to)| POp::CloneWrap { w, to }),
        1 => any::<u16>().prop_map(|w| POp::DropWrap { w }),
    ];
    (
        prop::bool::weighted(0.7),
        2u8..=4,
        1u8..=2,
        0u8..4,
        prop::bool::weighted(0.75),
        prop::collection::vec(op, 1..40),
        any::<bool>(),
        any::<bool>(),
    )
        .prop_map(|(sync, threads, families, creator, spread, ops, wrappers_first, newest_first)| PCase {
            sync,
            threads,
            families,
            creator,
            spread,
            ops,
            wrappers_first,
            newest_first,
        })
}

struct MRef {
    id: u32,
    fam: u8,
    origin: u8,
    holder: u8,
}

struct MWrap {
    id: u32,
    fam: u8,
    holder: u8,
}

struct MInst {
    inst: u32,
    refs: u32,
    uses: u32,
}

struct Rig {
    txs: Vec<Sender<Cmd>>,
    rxs: Vec<Receiver<Done>>,
    handles: Vec<Option<std::thread::JoinHandle<()>>>,
    stuck: bool,
}

impl Rig {
    fn new(n: u8) -> Self {
        let mut txs = Vec::new();
        let mut rxs = Vec::new();
        let mut handles = Vec::new();
        for t in 0..n {
            let (ctx_, crx) = channel();
            let (dtx, drx) = channel();
            handles.push(Some(std::thread::spawn(move || pthread_main(t, crx, dtx))));
            txs.push(ctx_);
            rxs.push(drx);
        }
        Self { txs, rxs, handles, stuck: false }
    }

    fn call(&mut self, t: u8, cmd: Cmd) -> Result<Done, Failure> {
        let t = usize::from(t);
        if self.txs[t].send(cmd).is_err() {
            return Err(Failure::new("C12/per-thread/harness/thread-gone", "script thread is gone"));
        }
        match self.rxs[t].recv_timeout(Duration::from_secs(20)) {
            Ok(d) => Ok(d),
            Err(RecvTimeoutError::Timeout) => {
                self.stuck = true;
                Err(Failure::new("C12/per-thread/operation/hang", format!("an operation on thread {t} did not return within 20 s")))
            }
            Err(RecvTimeoutError::Disconnected) => Err(Failure::new("C12/per-thread/harness/thread-gone", "script thread is gone")),
        }
    }

    /// After a case the model says ended with nothing alive: every thread confirms its tables are
    /// empty; the threads stay for the next case.
    fn confirm_empty(&mut self) -> Result<(), Failure> {
        for t in 0..self.txs.len() {
            match self.call(t as u8, Cmd::CheckEmpty)? {
                Done::Ok => {}
                Done::Bad(m) => return Err(Failure::new("C12/per-thread/harness/model-out-of-step", m)),
                _ => return Err(Failure::new("C12/per-thread/harness/model-out-of-step", "unexpected reply")),
            }
        }
        Ok(())
    }

    /// Failure path: the threads leak whatever they hold and end.
    fn abandon(mut self) {
        for t in 0..self.txs.len() {
            if self.stuck {
                // leak the threads: one of them sits inside the code under test
                self.handles[t] = None;
                continue;
            }
            if self.txs[t].send(Cmd::Forget).is_ok() {
                let _ = self.rxs[t].recv_timeout(Duration::from_secs(20));
            }
            if let Some(h) = self.handles[t].take() {
                let _ = h.join();
            }
        }
    }
}

fn check_per_thread(case: &PCase, ctx: &mut Ctx, pool: &mut Option<Rig>) -> Verdict {
    let variant = if case.sync { "per-thread-sync" } else { "per-thread" };
    let nt = case.threads.clamp(2, 4);
    let nf = case.families.clamp(1, 2);
    TIDX.with(|c| c.set(DRIVER_T));
    let log = Arc::new(PLog::default());
    // the script threads are reused from case to case as long as every case ends clean
    let mut rig = pool.take().unwrap_or_else(|| Rig::new(4));
    let mut run = Script {
        variant,
        sync: case.sync,
        log: Arc::clone(&log),
        seen: 0,
        refs: Vec::new(),
        wraps: Vec::new(),
        insts: BTreeMap::new(),
        initial: BTreeSet::new(),
        next_id: 0,
        off_thread_drops: 0,
        off_thread_last_drops: 0,
        reacquired: 0,
        wrapper_dropped_with_live_refs: 0,
        all_wrappers_gone_with_live_refs: false,
        ever_dropped: BTreeSet::new(),
    };
    let r = run.play(case, nt, nf, &mut rig, ctx).and_then(|()| rig.confirm_empty());
    match r {
        Ok(()) => *pool = Some(rig),
        Err(f) => {
            rig.abandon();
            if f.signature == TOLERATED {
                ctx.classify("stopped-at-open-known-finding");
                return Ok(());
            }
            return Err(f);
        }
    }
    // nothing leaked: every instance ever created was dropped, and nothing holds the family's
    // factory (which holds the log) any more
    let evs = log.since(0);
    let mut live: BTreeMap<u32, Ev> = BTreeMap::new();
    for e in &evs {
        match e.kind {
            EvKind::Created => {
                live.insert(e.inst, *e);
            }
            EvKind::Dropped => {
                ensure!(
                    live.remove(&e.inst).is_some(),
                    format!("C12/{variant}/end/instance-dropped-twice"),
                    "instance {} dropped twice",
                    e.inst
                );
            }
        }
    }
    ensure!(
        live.is_empty(),
        format!("C12/{variant}/end/leaked-instance"),
        "every wrapper and reference is gone, still alive: {:?}",
        live.values().collect::<Vec<_>>()
    );
    ensure!(
        Arc::strong_count(&log) == 2,
        format!("C12/{variant}/end/leaked-family-state"),
        "every wrapper, reference and instance is gone but {} extra holder(s) of the family's factory state remain",
        Arc::strong_count(&log) - 2
    );
    ctx.classify(variant);
    ctx.classify(&format!("threads:{nt}"));
    if run.off_thread_drops > 0 {
        ctx.classify("ref-dropped-on-other-thread");
        ctx.nontrivial();
    }
    if run.off_thread_last_drops > 0 {
        ctx.classify("LAST-ref-dropped-on-other-thread(instance dies there)");
    }
    if run.reacquired > 0 {
        ctx.classify("re-acquired-after-instance-death");
    }
    if run.wrapper_dropped_with_live_refs > 0 {
        ctx.classify("wrapper-dropped-while-refs-live");
    }
    if run.all_wrappers_gone_with_live_refs {
        ctx.classify("ALL-wrappers-dropped-while-refs-live");
    }
    Ok(())
}

struct Script {
    variant: &'static str,
    sync: bool,
    log: Arc<PLog>,
    seen: usize,
    refs: Vec<MRef>,
    wraps: Vec<MWrap>,
    insts: BTreeMap<(u8, u8), MInst>,
    initial: BTreeSet<u32>,
    next_id: u32,
    off_thread_drops: u32,
    off_thread_last_drops: u32,
    reacquired: u32,
    wrapper_dropped_with_live_refs: u32,
    all_wrappers_gone_with_live_refs: bool,
    ever_dropped: BTreeSet<(u8, u8)>,
}

impl Script {
    fn fresh(&mut self) -> u32 {
        self.next_id += 1;
        self.next_id
    }

    /// New events of the per-thread instances since the last look (the initial instance handed to
    /// `new()` is not a per-thread instance: only its eventual destruction matters, at the end).
    fn news(&mut self) -> Vec<Ev> {
        let all = self.log.since(self.seen);
        self.seen += all.len();
        all.into_iter().filter(|e| !self.initial.contains(&e.inst)).collect()
    }

    fn done(&self, d: Done, what: &str) -> Result<Done, Failure> {
        match d {
            Done::Panic(m) => Err(Failure::new(format!("C12/{}/{what}/panic", self.variant), format!("{what} panicked: {m}"))),
            Done::Bad(m) => Err(Failure::new("C12/per-thread/harness/model-out-of-step", format!("{what}: {m}"))),
            d => Ok(d),
        }
    }

    fn no_events(&mut self, what: &str) -> Verdict {
        let n = self.news();
        ensure!(
            n.is_empty(),
            format!("C12/{}/{what}/instance-created-or-dropped", self.variant),
            "{what} must neither create nor drop an instance, saw {:?}",
            n
        );
        Ok(())
    }

    fn new_family(&mut self, fam: u8, creator: u8, rig: &mut Rig) -> Verdict {
        let w = self.fresh();
        let before = self.log.since(0).len();
        let d = rig.call(creator, Cmd::NewWrapper { w, fam, sync: self.sync, log: Arc::clone(&self.log) })?;
        self.done(d, "new")?;
        // the instance made by the harness and handed to new() is the family's initial instance
        let evs = self.log.since(before);
        let Some(first) = evs.first().filter(|e| e.kind == EvKind::Created && e.thread == creator) else {
            fail!("C12/per-thread/harness/no-initial-instance", "constructing the initial instance logged {:?}", evs);
        };
        self.initial.insert(first.inst);
        self.wraps.push(MWrap { id: w, fam, holder: creator });
        self.no_events("new")
    }

    fn clone_wrap(&mut self, wi: usize, to: u8, rig: &mut Rig) -> Verdict {
        let (id, fam, holder) = (self.wraps[wi].id, self.wraps[wi].fam, self.wraps[wi].holder);
        let d = rig.call(holder, Cmd::CloneWrapOut { w: id })?;
        let Done::Wrap(x) = self.done(d, "clone-wrapper")? else {
            fail!("C12/per-thread/harness/model-out-of-step", "clone-wrapper: unexpected reply");
        };
        let nw = self.fresh();
        let d = rig.call(to, Cmd::GiveWrap { w: nw, x })?;
        self.done(d, "move-wrapper")?;
        self.wraps.push(MWrap { id: nw, fam, holder: to });
        self.no_events("clone-wrapper")
    }

    fn check_probe(&self, p: PProbe, fam: u8, origin: u8, what: &str) -> Verdict {
        let m = self.insts.get(&(fam, origin)).expect("model instance");
        ensure!(
            p.fam == fam && p.inst == m.inst,
            format!("C12/{}/{what}/wrong-instance", self.variant),
            "{what}: a reference aligned to thread {origin} of family {fam} reaches instance {} (family {}, created on thread {}), thread {origin}'s instance is {}",
            p.inst,
            p.fam,
            p.born_on,
            m.inst
        );
        ensure!(
            p.born_on == origin,
            format!("C12/{}/{what}/instance-created-on-another-thread", self.variant),
            "{what}: instance {} serving thread {origin} was created on thread {}",
            p.inst,
            p.born_on
        );
        ensure!(
            p.uses == m.uses,
            format!("C12/{}/{what}/instance-used-through-foreign-reference", self.variant),
            "{what}: instance {} of thread {origin} counts {} uses, references aligned to thread {origin} made {}",
            p.inst,
            p.uses,
            m.uses
        );
        Ok(())
    }

    fn acquire(&mut self, wi: usize, rig: &mut Rig) -> Verdict {
        let (w, fam, t) = (self.wraps[wi].id, self.wraps[wi].fam, self.wraps[wi].holder);
        let r = self.fresh();
        let d = rig.call(t, Cmd::Acquire { w, r })?;
        let Done::Probe(p) = self.done(d, "acquire")? else {
            fail!("C12/per-thread/harness/model-out-of-step", "acquire: unexpected reply");
        };
        let evs = self.news();
        let v = self.variant;
        if let Some(m) = self.insts.get_mut(&(fam, t)) {
            ensure!(
                evs.is_empty(),
                format!("C12/{v}/acquire/second-live-instance"),
                "acquire on thread {t} (family {fam}) while instance {} serving that thread is alive ({} reference(s)): {:?}",
                m.inst,
                m.refs,
                evs
            );
            m.refs += 1;
        } else {
            let created: Vec<&Ev> = evs.iter().filter(|e| e.kind == EvKind::Created).collect();
            ensure!(
                created.len() == 1 && evs.len() == 1,
                format!("C12/{v}/acquire/not-exactly-one-instance-created"),
                "first acquire on thread {t} (family {fam}) must create exactly one instance: {:?}",
                evs
            );
            ensure!(
                created[0].thread == t && created[0].fam == fam,
                format!("C12/{v}/acquire/instance-created-on-another-thread"),
                "instance {} for thread {t} family {fam} was created on thread {} family {}",
                created[0].inst,
                created[0].thread,
                created[0].fam
            );
            if self.ever_dropped.contains(&(fam, t)) {
                self.reacquired += 1;
            }
            self.insts.insert((fam, t), MInst { inst: created[0].inst, refs: 1, uses: 0 });
        }
        self.refs.push(MRef { id: r, fam, origin: t, holder: t });
        self.check_probe(p, fam, t, "acquire")
    }

    fn clone_ref(&mut self, ri: usize, rig: &mut Rig) -> Verdict {
        let (id, fam, origin, holder) = (self.refs[ri].id, self.refs[ri].fam, self.refs[ri].origin, self.refs[ri].holder);
        let nr = self.fresh();
        let d = rig.call(holder, Cmd::CloneRef { r: id, nr })?;
        let Done::Probe(p) = self.done(d, "clone-ref")? else {
            fail!("C12/per-thread/harness/model-out-of-step", "clone-ref: unexpected reply");
        };
        self.no_events("clone-ref")?;
        self.insts.get_mut(&(fam, origin)).expect("model instance").refs += 1;
        self.refs.push(MRef { id: nr, fam, origin, holder });
        self.check_probe(p, fam, origin, "clone-ref")
    }

    fn use_ref(&mut self, ri: usize, rig: &mut Rig) -> Verdict {
        let (id, fam, origin, holder) = (self.refs[ri].id, self.refs[ri].fam, self.refs[ri].origin, self.refs[ri].holder);
        let d = rig.call(holder, Cmd::UseRef { r: id })?;
        let Done::Probe(p) = self.done(d, "use")? else {
            fail!("C12/per-thread/harness/model-out-of-step", "use: unexpected reply");
        };
        self.no_events("use")?;
        self.insts.get_mut(&(fam, origin)).expect("model instance").uses += 1;
        self.check_probe(p, fam, origin, "use")
    }

    fn move_ref(&mut self, ri: usize, to: u8, rig: &mut Rig) -> Verdict {
        let (id, holder) = (self.refs[ri].id, self.refs[ri].holder);
        if to == holder {
            return Ok(());
        }
        let d = rig.call(holder, Cmd::TakeRef { r: id })?;
        let Done::Ref(x) = self.done(d, "move-ref")? else {
            fail!("C12/per-thread/harness/model-out-of-step", "move-ref: unexpected reply");
        };
        let d = rig.call(to, Cmd::GiveRef { r: id, x })?;
        self.done(d, "move-ref")?;
        self.refs[ri].holder = to;
        self.no_events("move-ref")
    }

    fn drop_ref(&mut self, ri: usize, rig: &mut Rig, ctx: &mut Ctx) -> Verdict {
        let MRef { id, fam, origin, holder } = self.refs.remove(ri);
        let off = holder != origin;
        let place = if off { "ref-dropped-on-other-thread" } else { "ref-dropped-on-own-thread" };
        let v = self.variant;
        let d = rig.call(holder, Cmd::DropRef { r: id })?;
        self.done(d, place)?;
        let evs = self.news();
        let m = self.insts.get_mut(&(fam, origin)).expect("model instance");
        m.refs -= 1;
        if off {
            self.off_thread_drops += 1;
        }
        if m.refs == 0 {
            let inst = m.inst;
            if off {
                self.off_thread_last_drops += 1;
            }
            let ok = evs.len() == 1 && evs[0].kind == EvKind::Dropped && evs[0].inst == inst;
            if !ok {
                let sig = if evs.is_empty() {
                    format!("C12/{v}/{place}/instance-not-dropped")
                } else {
                    format!("C12/{v}/{place}/wrong-instance-events")
                };
                if ctx.tolerate(&sig) {
                    // an open known finding: the model cannot follow the history any further
                    return Err(Failure::new(TOLERATED, "stop"));
                }
                fail!(
                    sig,
                    "the last reference aligned to thread {origin} (family {fam}) was dropped on thread {holder}: instance {inst} must be dropped exactly now, saw {:?}",
                    evs
                );
            }
            self.insts.remove(&(fam, origin));
            self.ever_dropped.insert((fam, origin));
        } else {
            ensure!(
                evs.is_empty(),
                format!("C12/{v}/{place}/instance-dropped-before-last-reference"),
                "a reference aligned to thread {origin} (family {fam}) was dropped on thread {holder} while {} more exist: {:?}",
                m.refs,
                evs
            );
        }
        Ok(())
    }

    fn drop_wrap(&mut self, wi: usize, rig: &mut Rig) -> Verdict {
        let MWrap { id, fam, holder } = self.wraps.remove(wi);
        let d = rig.call(holder, Cmd::DropWrap { w: id })?;
        self.done(d, "drop-wrapper")?;
        if self.refs.iter().any(|r| r.fam == fam) {
            self.wrapper_dropped_with_live_refs += 1;
            if !self.wraps.iter().any(|w| w.fam == fam) {
                self.all_wrappers_gone_with_live_refs = true;
            }
        }
        self.no_events("drop-wrapper")
    }

    fn play(&mut self, case: &PCase, nt: u8, nf: u8, rig: &mut Rig, ctx: &mut Ctx) -> Verdict {
        for fam in 0..nf {
            self.new_family(fam, case.creator % nt, rig)?;
            if case.spread {
                for t in 0..nt {
                    if t != case.creator % nt {
                        let wi = self.wraps.iter().position(|w| w.fam == fam).expect("wrapper");
                        self.clone_wrap(wi, t, rig)?;
                    }
                }
            }
        }
        for op in &case.ops {
            match op {
                POp::Acquire { w } => {
                    if !self.wraps.is_empty() {
                        let wi = pick_index(*w, self.wraps.len());
                        self.acquire(wi, rig)?;
                    }
                }
                POp::CloneRef { r } => {
                    if !self.refs.is_empty() {
                        let ri = pick_index(*r, self.refs.len());
                        self.clone_ref(ri, rig)?;
                    }
                }
                POp::MoveRef { r, to } => {
                    if !self.refs.is_empty() {
                        let ri = pick_index(*r, self.refs.len());
                        if self.sync {
                            self.move_ref(ri, *to % nt, rig)?;
                        } else {
                            self.use_ref(ri, rig)?;
                        }
                    }
                }
                POp::UseRef { r } => {
                    if !self.refs.is_empty() {
                        let ri = pick_index(*r, self.refs.len());
                        self.use_ref(ri, rig)?;
                    }
                }
                POp::DropRef { r } => {
                    if !self.refs.is_empty() {
                        let ri = pick_index(*r, self.refs.len());
                        self.drop_ref(ri, rig, ctx)?;
                    }
                }
                POp::CloneWrap { w, to } => {
                    if !self.wraps.is_empty() {
                        let wi = pick_index(*w, self.wraps.len());
                        self.clone_wrap(wi, *to % nt, rig)?;
                    }
                }
                POp::DropWrap { w } => {
                    if !self.wraps.is_empty() {
                        let wi = pick_index(*w, self.wraps.len());
                        self.drop_wrap(wi, rig)?;
                    }
                }
            }
        }
        // clean-up: everything that is left is dropped, one operation at a time, same oracle
        if case.wrappers_first {
            while !self.wraps.is_empty() {
                self.drop_wrap(0, rig)?;
            }
        }
        while !self.refs.is_empty() {
            let ri = if case.newest_first { self.refs.len() - 1 } else { 0 };
            self.drop_ref(ri, rig, ctx)?;
        }
        while !self.wraps.is_empty() {
            self.drop_wrap(0, rig)?;
        }
        Ok(())
    }
}

// =================================================================================================

/// Serialised cases of the committed `statics` replay files (these are always run with the full
/// deadline and never switch the driver into its shrinking mode).
fn committed_statics_replays() -> BTreeSet<String> {
    let root = std::env::var("VERIF_ROOT").unwrap_or_else(|_| "/verif".to_string());
    let mut out = BTreeSet::new();
    let mut paths: Vec<std::path::PathBuf> = std::fs::read_dir(std::path::Path::new(&root).join("replays").join("C12"))
        .map(|rd| rd.filter_map(|e| e.ok().map(|e| e.path())).collect())
        .unwrap_or_default();
    let args: Vec<String> = std::env::args().collect();
    if let Some(i) = args.iter().position(|a| a == "--replay") {
        if let Some(p) = args.get(i + 1) {
            paths.push(p.into());
        }
    }
    for p in paths {
        let Ok(text) = std::fs::read_to_string(&p) else { continue };
        let Ok(v) = serde_json::from_str::<serde_json::Value>(&text) else { continue };
        if v.get("section").and_then(serde_json::Value::as_str) != Some("statics") {
            continue;
        }
        if let Some(c) = v.get("case").and_then(|c| serde_json::from_value::<SCase>(c.clone()).ok()) {
            out.insert(serde_json::to_string(&c).expect("serialise"));
        }
    }
    out
}

fn main() {
    if let Some(role) = worker_role() {
        std::panic::set_hook(Box::new(|_| {}));
        assert_eq!(role, "statics");
        // The zygote never touches a linked static and never starts a thread: every case runs in
        // a forked child, i.e. in a process whose linked statics have never been accessed.
        serve(zygote_request);
    }
    let mut h = Harness::from_args("C12");

    // the in-process section first: it is quick even on a busy machine, the process-per-case
    // section then has the rest of an optional --budget-s
    let cases = h.cases(40_000, 2_000_000);
    let mut pool: Option<Rig> = None;
    h.section(
        "per-thread",
        "in-process deterministic scripts on 2..4 real threads over InstancePerThread (30%) / InstancePerThreadSync (70%), 1..2 families, wrapper clones handed to threads, 1..39 operations (acquire, clone ref, move ref to another thread [Sync only], use, drop ref, clone wrapper to a thread, drop wrapper) then everything left is dropped in a generated order; constructor/destructor table compared with a reference model after every operation; non-trivial = a reference dropped on a thread other than the one it is aligned to; distinct by serialised case",
        cases,
        pcase_strategy(),
        |case, ctx| check_per_thread(case, ctx, &mut pool),
    );
    if let Some(rig) = pool.take() {
        rig.abandon();
    }

    let mut drv = StaticsDriver::new(committed_statics_replays());
    let cases = h.cases(2_400, 160_000);
    h.section(
        "statics",
        "one child process per case: 16 linked statics (8 instances!, 4 thread_local_rc!, 4 thread_local_arc!) whose initialiser expressions touch the statics j > i listed by the case's dependency matrix (6 densities from empty to 3/4, weighted to sparse, pauses inside initialisers), 1..8 threads released together, each obtaining instances of 1..6 statics drawn from a shared focus set of 2..6 (optionally all starting with the same static); a run that is past a 4 s deadline with every thread blocked and no processor time consumed (or >= 8 s of processor time burnt), twice (fresh process), is a hang, once is ignored and counted; non-trivial = >= 2 threads and >= 1 dependency edge among the statics the case reaches; distinct by serialised case",
        cases,
        scase_strategy(),
        |case, ctx| check_statics(case, ctx, &mut drv),
    );
    drop(drv.zygote.take());
    h.note("statics.worker_runs", serde_json::json!(drv.runs));
    h.note("statics.flaky_timeouts_ignored", serde_json::json!(drv.flaky_timeouts));

    if !drv.infra.is_empty() {
        eprintln!("C12 statics worker problems ({}): {:?}", drv.infra.len(), &drv.infra[..drv.infra.len().min(3)]);
        std::process::exit(2);
    }
    h.finish()
}
