//! C12 (extra section) — references aligned to one thread dropped *concurrently* on several
//! threads: the instance must be destroyed exactly once, at the last drop, and nothing may be
//! left in the wrapper's per-thread state. The schedule is the operating system's (repeated
//! rounds per case); a failure is a real failure, a pass covers only the interleavings that
//! happened.

use std::sync::atomic::{AtomicU32, Ordering};
use std::sync::{Arc, Barrier};

use linked::InstancePerThreadSync;
use proptest::prelude::*;
use serde::{Deserialize, Serialize};
use vcommon::{Ctx, Failure, Harness, Verdict};

#[derive(Default)]
struct Log {
    created: AtomicU32,
    dropped: AtomicU32,
}

#[linked::object]
struct Obj {
    log: Arc<Log>,
}

impl Obj {
    fn new(log: Arc<Log>) -> Self {
        // the expression below is what builds every instance of the family (the first one and
        // each per-thread one), so creation is counted inside it
        linked::new!(Self { log: counted(&log) })
    }
}

fn counted(log: &Arc<Log>) -> Arc<Log> {
    log.created.fetch_add(1, Ordering::SeqCst);
    Arc::clone(log)
}

impl Drop for Obj {
    fn drop(&mut self) {
        self.log.dropped.fetch_add(1, Ordering::SeqCst);
    }
}

#[derive(Debug, Clone, Serialize, Deserialize)]
struct Case {
    /// number of dropper threads
    droppers: u8,
    /// references (all aligned to the origin thread) handed to each dropper
    refs_per_dropper: Vec<u8>,
    /// the origin thread also drops one reference concurrently
    origin_drops_too: bool,
    rounds: u16,
}

fn case_strategy() -> impl Strategy<Value = Case> {
    (2u8..5, prop::collection::vec(1u8..4, 4), any::<bool>(), 20u16..120).prop_map(|(droppers, refs_per_dropper, origin_drops_too, rounds)| Case {
        droppers,
        refs_per_dropper,
        origin_drops_too,
        rounds,
    })
}

fn check(case: &Case, ctx: &mut Ctx) -> Verdict {
    ctx.nontrivial();
    ctx.classify(&format!("droppers:{}", case.droppers));
    for round in 0..case.rounds {
        let log = Arc::new(Log::default());
        // the seed instance created here is the family's first instance
        let wrapper = InstancePerThreadSync::new(Obj::new(Arc::clone(&log)));
        // instances alive before any per-thread instance exists (the seed may be kept or consumed)
        let live0 = log.created.load(Ordering::SeqCst) - log.dropped.load(Ordering::SeqCst);
        let n = usize::from(case.droppers);
        let barrier = Arc::new(Barrier::new(n + 1));
        // origin thread: acquires, clones, hands out, optionally drops one concurrently
        let w2 = wrapper.clone();
        let b2 = Arc::clone(&barrier);
        let per = case.refs_per_dropper.clone();
        let origin_too = case.origin_drops_too;
        let (tx, rx) = std::sync::mpsc::channel();
        let origin = std::thread::spawn(move || {
            let first = w2.acquire();
            let mut batches = Vec::new();
            for d in 0..n {
                let k = usize::from(per[d % per.len()]);
                batches.push((0..k).map(|_| first.clone()).collect::<Vec<_>>());
            }
            tx.send(batches).expect("send");
            let keep = origin_too.then(|| first.clone());
            drop(first);
            b2.wait();
            drop(keep);
            drop(w2);
        });
        let batches: Vec<Vec<linked::RefSync<Obj>>> = rx.recv().expect("recv");
        let mut handles = Vec::new();
        for batch in batches {
            let b = Arc::clone(&barrier);
            handles.push(std::thread::spawn(move || {
                b.wait();
                drop(batch);
            }));
        }
        origin.join().map_err(|_| Failure::new("C12/per-thread-sync/concurrent-drop/panic", "origin thread panicked".to_string()))?;
        for h in handles {
            h.join().map_err(|_| Failure::new("C12/per-thread-sync/concurrent-drop/panic", "a dropper thread panicked".to_string()))?;
        }
        // every reference is gone: the origin thread's instance must have been destroyed (once);
        // only the seed instance held by the wrapper family may remain
        let created = log.created.load(Ordering::SeqCst);
        let dropped = log.dropped.load(Ordering::SeqCst);
        if created != dropped + live0 {
            return Err(Failure::new(
                "C12/per-thread-sync/concurrent-drop/instance-not-dropped-at-last-ref",
                format!("round {round}: {created} instances created, {dropped} destroyed after every reference aligned to the origin thread was dropped (concurrently on {n} threads); only what existed before the acquire ({live0}) should remain"),
            ));
        }
        let r = vcommon::catch(move || drop(wrapper));
        if let Err(m) = r {
            return Err(Failure::new("C12/per-thread-sync/concurrent-drop/wrapper-drop-panicked", format!("round {round}: dropping the wrapper panicked: {m}")));
        }
        if log.created.load(Ordering::SeqCst) != log.dropped.load(Ordering::SeqCst) {
            return Err(Failure::new("C12/per-thread-sync/concurrent-drop/leak", format!("round {round}: instances leaked after the wrapper was dropped")));
        }
    }
    Ok(())
}

// ------------------------------------------------------------------------------------------------
// forced interleavings through the cfg(folo_verif) yield point in RefSync::drop

use std::cell::Cell;
use std::sync::{Condvar, Mutex};

thread_local! {
    static PAUSE_HERE: Cell<bool> = const { Cell::new(false) };
}

struct Gate {
    state: Mutex<(u32, bool)>, // (threads parked at the point, released)
    cv: Condvar,
}

static GATE: Gate = Gate {
    state: Mutex::new((0, false)),
    cv: Condvar::new(),
};

fn point_hook(name: &'static str) {
    if name != "ref_sync/drop/after-last-ref-check" || !PAUSE_HERE.with(Cell::get) {
        return;
    }
    let mut g = GATE.state.lock().unwrap();
    g.0 += 1;
    GATE.cv.notify_all();
    while !g.1 {
        g = GATE.cv.wait(g).unwrap();
    }
}

#[derive(Debug, Clone, Serialize, Deserialize)]
struct FCase {
    /// per reference (dropped on its own thread, in this order): park inside drop right after the
    /// last-reference check until every later drop has completed?
    park: Vec<bool>,
}

fn fcase_strategy() -> impl Strategy<Value = FCase> {
    prop::collection::vec(prop::bool::weighted(0.5), 2..5).prop_map(|park| FCase { park })
}

fn check_forced(case: &FCase, ctx: &mut Ctx) -> Verdict {
    let log = Arc::new(Log::default());
    let wrapper = InstancePerThreadSync::new(Obj::new(Arc::clone(&log)));
    let live0 = log.created.load(Ordering::SeqCst) - log.dropped.load(Ordering::SeqCst);
    *GATE.state.lock().unwrap() = (0, false);
    // origin thread acquires and hands out the references, then exits
    let w2 = wrapper.clone();
    let k = case.park.len();
    let refs: Vec<linked::RefSync<Obj>> = std::thread::spawn(move || {
        let first = w2.acquire();
        let v: Vec<_> = (0..k).map(|_| first.clone()).collect();
        drop(first);
        v
    })
    .join()
    .map_err(|_| Failure::new("C12/per-thread-sync/concurrent-drop/panic", "origin thread panicked".to_string()))?;
    let mut parked = 0u32;
    let mut handles = Vec::new();
    for (r, park) in refs.into_iter().zip(case.park.iter().copied()) {
        let h = std::thread::spawn(move || {
            PAUSE_HERE.with(|p| p.set(park));
            drop(r);
        });
        if park {
            parked += 1;
            // wait until this dropper sits at the yield point
            let mut g = GATE.state.lock().unwrap();
            while g.0 < parked {
                g = GATE.cv.wait(g).unwrap();
            }
            handles.push(h);
        } else {
            h.join().map_err(|_| Failure::new("C12/per-thread-sync/concurrent-drop/panic", "a dropper thread panicked".to_string()))?;
        }
    }
    {
        let mut g = GATE.state.lock().unwrap();
        g.1 = true;
        GATE.cv.notify_all();
    }
    for h in handles {
        h.join().map_err(|_| Failure::new("C12/per-thread-sync/concurrent-drop/panic", "a parked dropper thread panicked".to_string()))?;
    }
    if parked > 0 {
        ctx.classify("drop-parked-after-count-check");
        ctx.nontrivial();
    }
    let created = log.created.load(Ordering::SeqCst);
    let dropped = log.dropped.load(Ordering::SeqCst);
    if created != dropped + live0 {
        return Err(Failure::new(
            "C12/per-thread-sync/concurrent-drop/instance-not-dropped-at-last-ref",
            format!("{created} instances created, {dropped} destroyed after every reference aligned to the origin thread was dropped (park pattern {:?}); only what existed before the acquire ({live0}) should remain", case.park),
        ));
    }
    if let Err(m) = vcommon::catch(move || drop(wrapper)) {
        return Err(Failure::new("C12/per-thread-sync/concurrent-drop/wrapper-drop-panicked", format!("dropping the wrapper panicked: {m}")));
    }
    Ok(())
}

fn main() {
    linked::__verif::install_point_hook(Some(point_hook));
    let mut h = Harness::from_args("C12");
    let cases = h.cases(400, 20_000);
    h.section(
        "concurrent-drop",
        "real threads, operating-system schedule: an origin thread acquires a RefSync, clones 1..3 references per dropper thread (2..4 droppers), all released together by a barrier and dropped concurrently (optionally one more on the origin thread), 20..119 rounds per case; oracle: after the drops exactly the family's seed instance remains (the origin thread's instance was destroyed once, at the last drop), dropping the wrapper does not panic, nothing leaks. Every case is non-trivial; schedules are not controlled, so a pass covers only the interleavings that happened",
        cases,
        case_strategy(),
        check,
    );
    let all: Vec<FCase> = (2usize..5)
        .flat_map(|k| (0u32..(1 << k)).map(move |m| FCase { park: (0..k).map(|i| m >> i & 1 == 1).collect() }))
        .collect();
    let _ = fcase_strategy;
    h.enumerate(
        "concurrent-drop-forced",
        "complete enumeration: 2..4 references aligned to one origin thread, each dropped on its own thread in order; every subset of them parks inside RefSync::drop right after the last-reference check (cfg(folo_verif) yield point) until all other drops have completed - i.e. every way the checks of concurrent drops can overlap; oracle as in concurrent-drop. Non-trivial = at least one parked drop",
        all,
        check_forced,
    );
    h.finish()
}
