//! C12 (extra section) — references aligned to one thread dropped *concurrently* on several
//! threads: the instance must be destroyed exactly once, at the last drop, and nothing may be
//! left in the wrapper's per-thread state. The schedule is the operating system's (repeated
//! rounds per case); a failure is a real failure, a pass covers only the interleavings that
//! happened.

use std::sync::atomic::{AtomicU32, Ordering};
use std::sync::{Arc, Barrier};

use linked::InstancePerThreadSync;
use proptest::prelude::*;
use serde::{Deserialize, Serialize};
use vcommon::{Ctx, Failure, Harness, Verdict};

#[derive(Default)]
struct Log {
    created: AtomicU32,
    dropped: AtomicU32,
}

#[linked::object]
struct Obj {
    log: Arc<Log>,
}

impl Obj {
    fn new(log: Arc<Log>) -> Self {
        // the expression below is what builds every instance of the family (the first one and
        // each per-thread one), so creation is counted inside it
        linked::new!(Self { log: counted(&log) })
    }
}

fn counted(log: &Arc<Log>) -> Arc<Log> {
    log.created.fetch_add(1, Ordering::SeqCst);
    Arc::clone(log)
}

impl Drop for Obj {
    fn drop(&mut self) {
        self.log.dropped.fetch_add(1, Ordering::SeqCst);
    }
}

#[derive(Debug, Clone, Serialize, Deserialize)]
struct Case {
    /// number of dropper threads
    droppers: u8,
    /// references (all aligned to the origin thread) handed to each dropper
    refs_per_dropper: Vec<u8>,
    /// the origin thread also drops one reference concurrently
    origin_drops_too: bool,
    rounds: u16,
}

fn case_strategy() -> impl Strategy<Value = Case> {
    (2u8..5, prop::collection::vec(1u8..4, 4), any::<bool>(), 20u16..120).prop_map(|(droppers, refs_per_dropper, origin_drops_too, rounds)| Case {
        droppers,
        refs_per_dropper,
        origin_drops_too,
        rounds,
    })
}

fn check(case: &Case, ctx: &mut Ctx) -> Verdict {
    ctx.nontrivial();
    ctx.classify(&format!("droppers:{}", case.droppers));
    for round in 0..case.rounds {
        let log = Arc::new(Log::default());
        // the seed instance created here is the family's first instance
        let wrapper = InstancePerThreadSync::new(Obj::new(Arc::clone(&log)));
        // instances alive before any per-thread instance exists (the seed may be kept or consumed)
        let live0 = log.created.load(Ordering::SeqCst) - log.dropped.load(Ordering::SeqCst);
        let n = usize::from(case.droppers);
        let barrier = Arc::new(Barrier::new(n + 1));
        // origin thread: acquires, clones, hands out, optionally drops one concurrently
        let w2 = wrapper.clone();
        let b2 = Arc::clone(&barrier);
        let per = case.refs_per_dropper.clone();
        let origin_too = case.origin_drops_too;
        let (tx, rx) = std::sync::mpsc::channel();
        let origin = std::thread::spawn(move || {
            let first = w2.acquire();
            let mut batches = Vec::new();
            for d in 0..n {
                let k = usize::from(per[d % per.len()]);
                batches.push((0..k).map(|_| first.clone()).collect::<Vec<_>>());
            }
            tx.send(batches).expect("send");
            let keep = origin_too.then(|| first.clone());
            drop(first);
            b2.wait();
            drop(keep);
            drop(w2);
        });
        let batches: Vec<Vec<linked::RefSync<Obj>>> = rx.recv().expect("recv");
        let mut handles = Vec::new();
        for batch in batches {
            let b = Arc::clone(&barrier);
            handles.push(std::thread::spawn(move || {
                b.wait();
                drop(batch);
            }));
        }
        origin.join().map_err(|_| Failure::new("C12/per-thread-sync/concurrent-drop/panic", "origin thread panicked".to_string()))?;
        for h in handles {
            h.join().map_err(|_| Failure::new("C12/per-thread-sync/concurrent-drop/panic", "a dropper thread panicked".to_string()))?;
        }
        // every reference is gone: the origin thread's instance must have been destroyed (once);
        // only the seed instance held by the wrapper family may remain
        let created = log.created.load(Ordering::SeqCst);
        let dropped = log.dropped.load(Ordering::SeqCst);
        if created != dropped + live0 {
            return Err(Failure::new(
                "C12/per-thread-sync/concurrent-drop/instance-not-dropped-at-last-ref",
                format!("round {round}: {created} instances created, {dropped} destroyed after every reference aligned to the origin thread was dropped (concurrently on {n} threads); only what existed before the acquire ({live0}) should remain"),
            ));
        }
        let r = vcommon::catch(move || drop(wrapper));
        if let Err(m) = r {
            return Err(Failure::new("C12/per-thread-sync/concurrent-drop/wrapper-drop-panicked", format!("round {round}: dropping the wrapper panicked: {m}")));
        }
        if log.created.load(Ordering::SeqCst) != log.dropped.load(Ordering::SeqCst) {
            return Err(Failure::new("C12/per-thread-sync/concurrent-drop/leak", format!("round {round}: instances leaked after the wrapper was dropped")));
        }
    }
    Ok(())
}

// ------------------------------------------------------------------------------------------------
// forced interleavings through the cfg(folo_verif) points in linked: the named point in
// RefSync::drop and every acquisition / release of the per-thread map lock ("sync/*")

use std::cell::Cell;
use std::sync::{Condvar, Mutex};

thread_local! {
    /// (dropper index, park at this many points passed) for the current dropper thread
    static PARK_AT: Cell<Option<(usize, u32)>> = const { Cell::new(None) };
    static POINTS_PASSED: Cell<u32> = const { Cell::new(0) };
}

#[derive(Clone, Copy, PartialEq, Eq, Debug)]
enum DState {
    Running,
    Parked,
    Released,
    Done,
}

struct Gate {
    state: Mutex<Vec<DState>>,
    cv: Condvar,
}

static GATE: Gate = Gate { state: Mutex::new(Vec::new()), cv: Condvar::new() };

fn point_hook(_name: &'static str) {
    let Some((me, at)) = PARK_AT.with(Cell::get) else { return };
    let n = POINTS_PASSED.with(|c| {
        let v = c.get();
        c.set(v + 1);
        v
    });
    if n != at {
        return;
    }
    let mut g = GATE.state.lock().unwrap();
    g[me] = DState::Parked;
    GATE.cv.notify_all();
    while g[me] != DState::Released {
        g = GATE.cv.wait(g).unwrap();
    }
}

/// How many points a drop can pass at most (lock acquisition, release, named point, and room for
/// more if the code changes); a dropper that passes fewer simply never parks.
const MAX_POINTS: u32 = 5;

#[derive(Debug, Clone, Serialize, Deserialize)]
struct FCase {
    /// per reference (dropped on its own thread, started in this order): `None` = runs to
    /// completion at once; `Some(j)` = parks inside `drop` just before its (j+1)-th point - lock
    /// acquisition, lock release or the named point after the last-reference check - until every
    /// later dropper has completed or parked
    park: Vec<Option<u32>>,
    /// parked droppers are resumed (each to completion) in reverse instead of start order
    reverse: bool,
}

fn check_forced(case: &FCase, ctx: &mut Ctx) -> Verdict {
    let log = Arc::new(Log::default());
    let wrapper = InstancePerThreadSync::new(Obj::new(Arc::clone(&log)));
    let live0 = log.created.load(Ordering::SeqCst) - log.dropped.load(Ordering::SeqCst);
    let k = case.park.len();
    *GATE.state.lock().unwrap() = vec![DState::Running; k];
    // origin thread acquires and hands out the references, then exits
    let w2 = wrapper.clone();
    let refs: Vec<linked::RefSync<Obj>> = std::thread::spawn(move || {
        let first = w2.acquire();
        let v: Vec<_> = (0..k).map(|_| first.clone()).collect();
        drop(first);
        v
    })
    .join()
    .map_err(|_| Failure::new("C12/per-thread-sync/concurrent-drop/panic", "origin thread panicked".to_string()))?;
    let mut handles: Vec<Option<std::thread::JoinHandle<()>>> = Vec::new();
    let mut parked = Vec::new();
    for (i, (r, park)) in refs.into_iter().zip(case.park.iter().copied()).enumerate() {
        let h = std::thread::spawn(move || {
            PARK_AT.with(|p| p.set(park.map(|j| (i, j))));
            POINTS_PASSED.with(|c| c.set(0));
            drop(r);
            PARK_AT.with(|p| p.set(None));
            let mut g = GATE.state.lock().unwrap();
            g[i] = DState::Done;
            GATE.cv.notify_all();
        });
        // wait until this dropper is parked or has finished (a panic in drop also ends the wait)
        let mut g = GATE.state.lock().unwrap();
        while g[i] == DState::Running && !h.is_finished() {
            g = GATE.cv.wait_timeout(g, std::time::Duration::from_millis(20)).unwrap().0;
        }
        if g[i] == DState::Parked {
            parked.push(i);
        }
        drop(g);
        handles.push(Some(h));
    }
    if !parked.is_empty() {
        ctx.classify("drop-parked-inside-RefSync::drop");
        ctx.classify(&format!("parked-droppers:{}", parked.len()));
        ctx.nontrivial();
    }
    if case.reverse {
        parked.reverse();
    }
    let fail_panic = || Failure::new("C12/per-thread-sync/concurrent-drop/panic", "a dropper thread panicked".to_string());
    // resume the parked droppers one at a time, each to completion
    for i in parked {
        {
            let mut g = GATE.state.lock().unwrap();
            g[i] = DState::Released;
            GATE.cv.notify_all();
        }
        handles[i].take().expect("joined once").join().map_err(|_| fail_panic())?;
    }
    for h in handles.into_iter().flatten() {
        h.join().map_err(|_| fail_panic())?;
    }
    let created = log.created.load(Ordering::SeqCst);
    let dropped = log.dropped.load(Ordering::SeqCst);
    if created != dropped + live0 {
        return Err(Failure::new(
            "C12/per-thread-sync/concurrent-drop/instance-not-dropped-at-last-ref",
            format!("{created} instances created, {dropped} destroyed after every reference aligned to the origin thread was dropped (park pattern {:?}, reverse resume {}); only what existed before the acquire ({live0}) should remain", case.park, case.reverse),
        ));
    }
    if let Err(m) = vcommon::catch(move || drop(wrapper)) {
        return Err(Failure::new("C12/per-thread-sync/concurrent-drop/wrapper-drop-panicked", format!("dropping the wrapper panicked: {m}")));
    }
    if log.created.load(Ordering::SeqCst) != log.dropped.load(Ordering::SeqCst) {
        return Err(Failure::new("C12/per-thread-sync/concurrent-drop/leak", "instances leaked after the wrapper was dropped".to_string()));
    }
    Ok(())
}


// ------------------------------------------------------------------------------------------------
// re-entrant acquire: the expression that builds a thread's instance acquires from the very same
// wrapper (and may keep that reference) - one thread, no schedule involved

use linked::InstancePerThread;

thread_local! {
    /// run once by the next instance construction on this thread
    static REENTER: std::cell::RefCell<Option<Box<dyn FnOnce()>>> = const { std::cell::RefCell::new(None) };
}

#[derive(Default)]
struct RLog {
    next: AtomicU32,
    created: Mutex<Vec<u32>>,
    dropped: Mutex<Vec<u32>>,
}

#[linked::object]
struct RObj {
    id: u32,
    log: Arc<RLog>,
}

fn r_make_id(log: &Arc<RLog>) -> u32 {
    let id = log.next.fetch_add(1, Ordering::SeqCst);
    log.created.lock().unwrap().push(id);
    // user code running while this thread's instance is being built
    let f = REENTER.with(|r| r.borrow_mut().take());
    if let Some(f) = f {
        f();
    }
    id
}

impl RObj {
    fn new(log: Arc<RLog>) -> Self {
        linked::new!(Self { id: r_make_id(&log), log: Arc::clone(&log) })
    }
}

impl Drop for RObj {
    fn drop(&mut self) {
        self.log.dropped.lock().unwrap().push(self.id);
    }
}

#[derive(Debug, Clone, Serialize, Deserialize)]
enum ROp {
    /// acquire; the instance construction (if one happens) re-enters `depth` levels deep, each
    /// level acquiring from the same wrapper and keeping (or at once dropping) what it got
    Acquire { depth: u8, keep: bool },
    Clone(u16),
    Drop(u16),
}

#[derive(Debug, Clone, Serialize, Deserialize)]
struct RCase {
    sync: bool,
    ops: Vec<ROp>,
}

fn rcase_strategy() -> impl Strategy<Value = RCase> {
    let op = prop_oneof![
        4 => (0u8..=2, any::<bool>()).prop_map(|(depth, keep)| ROp::Acquire { depth, keep }),
        2 => any::<u16>().prop_map(ROp::Clone),
        4 => any::<u16>().prop_map(ROp::Drop),
    ];
    (any::<bool>(), prop::collection::vec(op, 1..10)).prop_map(|(sync, ops)| RCase { sync, ops })
}

macro_rules! reentrant_runner {
    ($fname:ident, $wrapper:ident, $refty:ty) => {
        fn $fname(case: &RCase, ctx: &mut Ctx) -> Verdict {
            let kind = stringify!($wrapper);
            let fl = |k: &str, msg: String| Failure::new(format!("C12/reentrant-acquire/{kind}/{k}"), format!("{msg}; ops={:?}", case.ops));
            let log = Arc::new(RLog::default());
            let wrapper = $wrapper::new(RObj::new(Arc::clone(&log)));
            let live = |log: &RLog| log.created.lock().unwrap().len() as i64 - log.dropped.lock().unwrap().len() as i64;
            let live0 = live(&log);
            // every reference this thread holds (those handed out by acquire and those kept by
            // re-entrant acquires)
            let refs: std::rc::Rc<std::cell::RefCell<Vec<$refty>>> = std::rc::Rc::new(std::cell::RefCell::new(Vec::new()));
            let mut reentered = false;
            for (step, op) in case.ops.iter().enumerate() {
                match op {
                    ROp::Acquire { depth, keep } => {
                        fn arm<W: Clone + 'static>(w: W, depth: u8, keep: bool, refs: std::rc::Rc<std::cell::RefCell<Vec<$refty>>>, acquire: fn(&W) -> $refty) {
                            if depth == 0 {
                                return;
                            }
                            REENTER.with(|r| {
                                *r.borrow_mut() = Some(Box::new(move || {
                                    arm(w.clone(), depth - 1, keep, std::rc::Rc::clone(&refs), acquire);
                                    let inner = acquire(&w);
                                    if keep {
                                        refs.borrow_mut().push(inner);
                                    }
                                }));
                            });
                        }
                        let had = !refs.borrow().is_empty();
                        arm(wrapper.clone(), *depth, *keep, std::rc::Rc::clone(&refs), |w| w.acquire());
                        let r = vcommon::catch(std::panic::AssertUnwindSafe(|| wrapper.acquire()));
                        let armed_left = REENTER.with(|r| r.borrow_mut().take()).is_some();
                        match r {
                            Ok(r) => refs.borrow_mut().push(r),
                            Err(m) => return Err(fl("acquire-panicked", format!("step {step}: acquire panicked: {m}"))),
                        }
                        if *depth > 0 && !had && !armed_left {
                            reentered = true;
                        }
                    }
                    ROp::Clone(i) => {
                        let n = refs.borrow().len();
                        if n > 0 {
                            let c = refs.borrow()[vcommon::pick_index(*i, n)].clone();
                            refs.borrow_mut().push(c);
                        }
                    }
                    ROp::Drop(i) => {
                        let n = refs.borrow().len();
                        if n > 0 {
                            let r = refs.borrow_mut().swap_remove(vcommon::pick_index(*i, n));
                            drop(r);
                        }
                    }
                }
                // one instance per thread: every reference this thread holds is to the same instance
                let ids: std::collections::BTreeSet<u32> = refs.borrow().iter().map(|r| r.id).collect();
                if ids.len() > 1 {
                    return Err(fl("two-instances-on-one-thread", format!("step {step}: the references held by one thread point to different instances {ids:?}")));
                }
                // and exactly that one instance is alive (besides what existed before the first acquire)
                let expect = live0 + i64::from(!refs.borrow().is_empty());
                let now = live(&log);
                if now != expect {
                    return Err(fl("live-instance-count", format!("step {step}: {now} instances alive, expected {expect} ({} references held, {live0} before the first acquire)", refs.borrow().len())));
                }
            }
            refs.borrow_mut().clear();
            if live(&log) != live0 {
                return Err(fl("instance-outlives-its-last-reference", format!("{} instances alive after every reference was dropped, {live0} before the first acquire", live(&log))));
            }
            if let Err(m) = vcommon::catch(move || drop(wrapper)) {
                return Err(fl("wrapper-drop-panicked", format!("dropping the wrapper panicked: {m}")));
            }
            let dropped = log.dropped.lock().unwrap().clone();
            let mut d = dropped.clone();
            d.sort_unstable();
            d.dedup();
            if d.len() != dropped.len() {
                return Err(fl("instance-dropped-twice", format!("destructor log {dropped:?}")));
            }
            ctx.classify(kind);
            if reentered {
                ctx.classify("instance-construction-re-entered-acquire");
                ctx.nontrivial();
            }
            Ok(())
        }
    };
}

reentrant_runner!(run_reentrant_local, InstancePerThread, linked::Ref<RObj>);
reentrant_runner!(run_reentrant_sync, InstancePerThreadSync, linked::RefSync<RObj>);

fn check_reentrant(case: &RCase, ctx: &mut Ctx) -> Verdict {
    if case.sync { run_reentrant_sync(case, ctx) } else { run_reentrant_local(case, ctx) }
}

fn main() {
    linked::__verif::install_point_hook(Some(point_hook));
    let mut h = Harness::from_args("C12");
    let cases = h.cases(400, 20_000);
    h.section(
        "concurrent-drop",
        "real threads, operating-system schedule: an origin thread acquires a RefSync, clones 1..3 references per dropper thread (2..4 droppers), all released together by a barrier and dropped concurrently (optionally one more on the origin thread), 20..119 rounds per case; oracle: after the drops exactly the family's seed instance remains (the origin thread's instance was destroyed once, at the last drop), dropping the wrapper does not panic, nothing leaks. Every case is non-trivial; schedules are not controlled, so a pass covers only the interleavings that happened",
        cases,
        case_strategy(),
        check,
    );
    let mut all: Vec<FCase> = Vec::new();
    for k in 2usize..=3 {
        let choices = MAX_POINTS + 1; // None, Some(0..MAX_POINTS)
        for code in 0..choices.pow(k as u32) {
            let mut c = code;
            let park: Vec<Option<u32>> = (0..k)
                .map(|_| {
                    let d = c % choices;
                    c /= choices;
                    d.checked_sub(1)
                })
                .collect();
            for reverse in [false, true] {
                all.push(FCase { park: park.clone(), reverse });
            }
        }
    }
    h.enumerate(
        "concurrent-drop-forced",
        "complete enumeration: 2..3 references aligned to one origin thread, each dropped on its own thread, started in order; each dropper either runs to completion at once or parks inside RefSync::drop just before its j-th point, j = 0..4, where the points are every acquisition and every release of the per-thread map lock (cfg(folo_verif) lock wrapper) and the named point after the last-reference check; the parked droppers are then resumed one at a time, in start order or in reverse - i.e. every way in which a prefix of one drop can overlap the whole of the others; oracle as in concurrent-drop. Non-trivial = at least one parked drop",
        all,
        check_forced,
    );
    let rcases = h.cases(20_000, 400_000);
    h.section(
        "reentrant-acquire",
        "one thread, generated sequences of 1..9 operations on InstancePerThread / InstancePerThreadSync: acquire (the expression that builds the thread's instance re-enters acquire on the same wrapper 0..2 levels deep and keeps or at once drops what it got), clone a held reference, drop a held reference; after every operation all references held by the thread must point to one instance and exactly that instance must be alive; after the last drop nothing extra is alive, dropping the wrapper does not panic, no instance is destroyed twice. non-trivial = an instance construction that really re-entered acquire; distinct by serialised case",
        rcases,
        rcase_strategy(),
        check_reentrant,
    );
    h.finish()
}
