//! C11 — Linux hardware inventory equals what the kernel's text interfaces describe.
//!
//! Sections:
//! * `codec-sets`     id sets over the whole u32 range -> `emit` -> `parse` == sorted dedup set
//! * `codec-strings`  generated well-formed cpulist strings (singles, ranges, strides) vs. an
//!                    independent interpretation; `emit(parse(s))` re-parses to the same set
//! * `codec-fuzz`     arbitrary text -> `parse` is `Ok` or `Err`, never a panic
//! * `inventory`      generated machine description -> kernel file set -> the REAL Linux PAL
//!                    (hook H5) -> compared with an independent interpretation of the description
//! * `mask`           id sets x widths on the platform's affinity mask type (hook H5)

use std::collections::{BTreeMap, BTreeSet};
use std::fmt::Write as _;
use std::num::NonZero;
use std::sync::Arc;

use many_cpus_impl::__verif::{FakeAffinity, MemoryFilesystem, VerifCpuMask, linux_hardware};
use proptest::prelude::*;
use serde::{Deserialize, Serialize};
use vcommon::{Ctx, Harness, Verdict, catch, ensure, fail, normalise, pick_index};

// =================================================================================================
// codec: sets
// =================================================================================================

#[derive(Debug, Clone, Serialize, Deserialize)]
struct Piece {
    start: u32,
    len: u16,
}

#[derive(Debug, Clone, Serialize, Deserialize)]
struct SetCase {
    pieces: Vec<Piece>,
    /// 0 = generated order, 1 = ascending, 2 = descending, 3 = permuted by `perm_seed`
    order: u8,
    perm_seed: u32,
    /// indices (monotone-mapped) of items repeated at pseudo-random positions
    dups: Vec<u16>,
}

const MAX_CARD: usize = 4096;

fn piece_strategy() -> impl Strategy<Value = Piece> {
    prop_oneof![
        // singleton / short run anywhere
        3 => (any::<u32>(), 1u16..=4).prop_map(|(start, len)| Piece { start, len }),
        // run ending exactly at u32::MAX
        3 => (1u16..=300).prop_map(|len| Piece { start: u32::MAX - (u32::from(len) - 1), len }),
        // the top one or two ids on their own
        2 => (1u16..=2).prop_map(|len| Piece { start: u32::MAX - (u32::from(len) - 1), len }),
        // run near the top (may be clipped at u32::MAX)
        2 => (0u32..600, 1u16..=300).prop_map(|(d, len)| Piece { start: u32::MAX - d, len }),
        // run at the bottom
        2 => (0u32..64, 1u16..=40).prop_map(|(start, len)| Piece { start, len }),
        // small domain: pieces overlap, touch and merge
        4 => (0u32..200, 1u16..=12).prop_map(|(start, len)| Piece { start, len }),
        // the same just below the top
        2 => (0u32..200, 1u16..=12).prop_map(|(d, len)| Piece { start: u32::MAX - 220 + d, len }),
        // long dense run
        1 => (any::<u32>(), 300u16..=3000).prop_map(|(start, len)| Piece { start, len }),
    ]
}

fn set_case_strategy() -> impl Strategy<Value = SetCase> {
    (
        prop::collection::vec(piece_strategy(), 0..12),
        0u8..4,
        any::<u32>(),
        prop_oneof![2 => Just(vec![]), 3 => prop::collection::vec(any::<u16>(), 0..12)],
    )
        .prop_map(|(pieces, order, perm_seed, dups)| SetCase { pieces, order, perm_seed, dups })
}

fn expand_pieces(pieces: &[Piece]) -> Vec<u32> {
    let mut out = Vec::new();
    'outer: for p in pieces {
        let end = (u64::from(p.start) + u64::from(p.len.max(1)) - 1).min(u64::from(u32::MAX));
        for v in u64::from(p.start)..=end {
            if out.len() >= MAX_CARD {
                break 'outer;
            }
            out.push(v as u32);
        }
    }
    out
}

/// Deterministic Fisher-Yates from a generated seed (a pure function of the case).
fn permute<T>(items: &mut [T], seed: u32) {
    let mut s = u64::from(seed) | 1 << 40;
    for i in (1..items.len()).rev() {
        s = s.wrapping_mul(6364136223846793005).wrapping_add(1442695040888963407);
        let j = ((s >> 33) as usize) % (i + 1);
        items.swap(i, j);
    }
}

/// Maximal runs (start, len) of an ascending duplicate-free list.
fn runs_of(sorted: &[u32]) -> Vec<(u32, usize)> {
    let mut runs: Vec<(u32, usize)> = Vec::new();
    for &v in sorted {
        match runs.last_mut() {
            Some((s, l)) if u64::from(*s) + *l as u64 == u64::from(v) => *l += 1,
            _ => runs.push((v, 1)),
        }
    }
    runs
}

fn is_cpulist_alphabet(s: &str) -> bool {
    s.bytes().all(|b| b.is_ascii_digit() || b == b',' || b == b'-' || b == b':')
}

fn check_set(case: &SetCase, ctx: &mut Ctx) -> Verdict {
    let mut items = expand_pieces(&case.pieces);
    let want: Vec<u32> = items.iter().copied().collect::<BTreeSet<u32>>().into_iter().collect();
    match case.order {
        0 => {}
        1 => items.sort_unstable(),
        2 => {
            items.sort_unstable();
            items.reverse();
        }
        _ => permute(&mut items, case.perm_seed),
    }
    if !items.is_empty() {
        for (k, raw) in case.dups.iter().enumerate() {
            let v = items[pick_index(*raw, items.len())];
            let at = (usize::from(*raw) * 31 + k * 7) % (items.len() + 1);
            items.insert(at, v);
        }
    }
    let has_dups = items.len() != want.len();
    let unsorted = items.windows(2).any(|w| w[0] > w[1]);
    let runs = runs_of(&want);
    let touches_max = want.last() == Some(&u32::MAX);
    let top_run_len = if touches_max { runs.last().map_or(0, |r| r.1) } else { 0 };

    ctx.classify(match want.len() {
        0 => "card:0",
        1 => "card:1",
        2..=16 => "card:2-16",
        17..=512 => "card:17-512",
        _ => "card:513-4096",
    });
    if touches_max {
        ctx.classify(match top_run_len {
            1 => "top-run:len1",
            2 => "top-run:len2",
            _ => "top-run:len>=3",
        });
    }
    if has_dups {
        ctx.classify("input:duplicates");
    }
    if unsorted {
        ctx.classify("input:unsorted");
    }
    if runs.iter().any(|r| r.1 == 2) {
        ctx.classify("has-run-of-2");
    }
    if runs.iter().any(|r| r.1 >= 3) {
        ctx.classify("has-run>=3");
    }

    let emitted = match catch(|| cpulist::emit(items.iter().copied())) {
        Ok(s) => s,
        Err(msg) => fail!(
            "C11/cpulist/emit/panic",
            "emit panicked ({msg}) for the set with runs {:?} (input {} items{})",
            runs.iter().rev().take(4).collect::<Vec<_>>(),
            items.len(),
            if touches_max { ", touches u32::MAX" } else { "" }
        ),
    };
    ensure!(
        is_cpulist_alphabet(&emitted),
        "C11/cpulist/emit/not-a-cpulist",
        "emit produced characters outside the cpulist alphabet: {:?}",
        emitted
    );
    ensure!(
        !want.is_empty() || emitted.is_empty(),
        "C11/cpulist/emit/empty-set-not-empty-string",
        "emit of the empty set produced {:?}",
        emitted
    );
    let parsed = match catch(|| cpulist::parse(&emitted)) {
        Ok(Ok(v)) => v,
        Ok(Err(e)) => fail!("C11/cpulist/roundtrip/emitted-list-rejected", "parse rejected emitted list {:?}: {e}", emitted),
        Err(msg) => fail!("C11/cpulist/parse/panic", "parse panicked ({msg}) on emitted list {:?}", emitted),
    };
    ensure!(
        parsed == want,
        "C11/cpulist/roundtrip/set-mismatch",
        "parse(emit(S)) != sorted dedup S: emitted {:?}; got {} items, want {} items; first difference at index {:?}",
        emitted.chars().take(200).collect::<String>(),
        parsed.len(),
        want.len(),
        parsed.iter().zip(&want).position(|(a, b)| a != b)
    );

    // non-trivial: at least two maximal runs one of which has >= 3 members, handed over unsorted
    // or with duplicates
    if runs.len() >= 2 && runs.iter().any(|r| r.1 >= 3) && (unsorted || has_dups) {
        ctx.nontrivial();
    }
    Ok(())
}

// =================================================================================================
// codec: well-formed strings
// =================================================================================================

#[derive(Debug, Clone, Serialize, Deserialize)]
enum Part {
    Single(u32),
    /// `start-end`, end = start + span clipped at u32::MAX
    Range { start: u32, span: u16 },
    /// `start-end:stride`
    Stride { start: u32, span: u16, stride: u32 },
}

#[derive(Debug, Clone, Serialize, Deserialize)]
struct StrCase {
    parts: Vec<Part>,
}

fn start_strategy() -> impl Strategy<Value = u32> {
    prop_oneof![
        3 => 0u32..300,
        3 => (0u32..3000).prop_map(|d| u32::MAX - d),
        2 => any::<u32>(),
    ]
}

fn part_strategy() -> impl Strategy<Value = Part> {
    prop_oneof![
        3 => start_strategy().prop_map(Part::Single),
        4 => (start_strategy(), 0u16..=600).prop_map(|(start, span)| Part::Range { start, span }),
        1 => (start_strategy(), 600u16..=3000).prop_map(|(start, span)| Part::Range { start, span }),
        3 => (start_strategy(), 0u16..=3000, prop_oneof![4 => 1u32..=9, 2 => 10u32..=4000, 1 => any::<u32>().prop_map(|s| s.max(1)), 1 => Just(u32::MAX)])
            .prop_map(|(start, span, stride)| Part::Stride { start, span, stride }),
    ]
}

fn end_of(start: u32, span: u16) -> u32 {
    (u64::from(start) + u64::from(span)).min(u64::from(u32::MAX)) as u32
}

fn check_string(case: &StrCase, ctx: &mut Ctx) -> Verdict {
    let mut text = String::new();
    let mut want: BTreeSet<u32> = BTreeSet::new();
    let mut kinds = [false; 3];
    let mut touches_max = false;
    for (i, p) in case.parts.iter().enumerate() {
        if i > 0 {
            text.push(',');
        }
        match *p {
            Part::Single(v) => {
                kinds[0] = true;
                let _ = write!(text, "{v}");
                want.insert(v);
            }
            Part::Range { start, span } => {
                kinds[1] = true;
                let end = end_of(start, span);
                let _ = write!(text, "{start}-{end}");
                want.extend(start..=end);
            }
            Part::Stride { start, span, stride } => {
                kinds[2] = true;
                let end = end_of(start, span);
                let _ = write!(text, "{start}-{end}:{stride}");
                let mut v = u64::from(start);
                while v <= u64::from(end) {
                    want.insert(v as u32);
                    v += u64::from(stride);
                }
            }
        }
    }
    if want.contains(&u32::MAX) {
        touches_max = true;
        ctx.classify("contains-u32::MAX");
    }
    for (k, label) in ["has-single", "has-range", "has-stride"].iter().enumerate() {
        if kinds[k] {
            ctx.classify(label);
        }
    }
    if case.parts.is_empty() {
        ctx.classify("empty-string");
    }
    let want: Vec<u32> = want.into_iter().collect();

    let parsed = match catch(|| cpulist::parse(&text)) {
        Ok(Ok(v)) => v,
        Ok(Err(e)) => fail!("C11/cpulist/parse/well-formed-rejected", "parse rejected well-formed {:?}: {e}", text),
        Err(msg) => fail!("C11/cpulist/parse/panic", "parse panicked ({msg}) on {:?}", text),
    };
    ensure!(
        parsed == want,
        "C11/cpulist/parse/set-mismatch",
        "parse({:?}) returned {} items, the list denotes {} items; first difference at index {:?}",
        text,
        parsed.len(),
        want.len(),
        parsed.iter().zip(&want).position(|(a, b)| a != b)
    );
    let emitted = match catch(|| cpulist::emit(parsed.iter().copied())) {
        Ok(s) => s,
        Err(msg) => fail!(
            "C11/cpulist/emit/panic",
            "emit panicked ({msg}) on parse({:?}){}",
            text,
            if touches_max { " (set contains u32::MAX)" } else { "" }
        ),
    };
    let reparsed = match catch(|| cpulist::parse(&emitted)) {
        Ok(Ok(v)) => v,
        Ok(Err(e)) => fail!("C11/cpulist/roundtrip/emitted-list-rejected", "parse rejected emitted list {:?}: {e}", emitted),
        Err(msg) => fail!("C11/cpulist/parse/panic", "parse panicked ({msg}) on emitted list {:?}", emitted),
    };
    ensure!(
        reparsed == want,
        "C11/cpulist/roundtrip/set-mismatch",
        "parse(emit(parse({:?}))) differs: {} items vs {} items",
        text,
        reparsed.len(),
        want.len()
    );
    // non-trivial: at least two parts, one of them a stride or a range
    if case.parts.len() >= 2 && (kinds[1] || kinds[2]) {
        ctx.nontrivial();
    }
    Ok(())
}

// =================================================================================================
// codec: fuzz (never panics)
// =================================================================================================

#[derive(Debug, Clone, Serialize, Deserialize)]
struct FuzzCase {
    text: String,
}

const JUNK: [&str; 22] = [
    " ", "\t", "\n", "+", "x", "a", "--", "\u{2212}", "\u{663}", "0x10", "1e3", "\0", "\u{e9}", ",,", "-", ":", "::", "-1", "+5",
    "4294967296", "99999999999999999999", "00000000000000000007",
];

fn fuzz_strategy() -> impl Strategy<Value = FuzzCase> {
    let tokens = (
        prop_oneof![Just(0u32), Just(u32::MAX - 5000), any::<u32>()],
        prop::collection::vec(
            prop_oneof![
                6 => (0u32..=5000).prop_map(|o| (0u8, o)),
                3 => Just((1u8, 0)), // ,
                3 => Just((2u8, 0)), // -
                2 => Just((3u8, 0)), // :
                2 => (0u32..JUNK.len() as u32).prop_map(|j| (4u8, j)),
            ],
            0..24,
        ),
    )
        .prop_map(|(base, toks)| {
            let mut s = String::new();
            for (k, v) in toks {
                match k {
                    0 => {
                        let _ = write!(s, "{}", base.saturating_add(v));
                    }
                    1 => s.push(','),
                    2 => s.push('-'),
                    3 => s.push(':'),
                    _ => s.push_str(JUNK[v as usize]),
                }
            }
            s
        });
    let chars = prop::collection::vec(any::<char>(), 0..12).prop_map(|v| v.into_iter().collect::<String>());
    let bytes = prop::collection::vec(
        prop_oneof![4 => prop::sample::select(b"0123456789,-: +".to_vec()), 1 => any::<u8>()],
        0..24,
    )
    .prop_map(|b| String::from_utf8_lossy(&b).into_owned());
    prop_oneof![5 => tokens, 1 => chars, 3 => bytes].prop_map(|text| FuzzCase { text })
}

/// Resource guard only (not an oracle): true when some part of the text denotes a range that
/// would make `parse` materialise more than 2^21 items.
fn denotes_huge_range(text: &str) -> bool {
    text.split(',').any(|part| {
        let Some((a, rest)) = part.split_once('-') else { return false };
        let (b, s) = rest.split_once(':').unwrap_or((rest, "1"));
        match (a.parse::<u32>(), b.parse::<u32>(), s.parse::<u32>()) {
            (Ok(a), Ok(b), Ok(s)) if s >= 1 && b >= a => u64::from(b - a) / u64::from(s) > (1 << 21),
            _ => false,
        }
    })
}

fn check_fuzz(case: &FuzzCase, ctx: &mut Ctx) -> Verdict {
    if denotes_huge_range(&case.text) {
        ctx.classify("skipped:huge-range");
        return Ok(());
    }
    match catch(|| cpulist::parse(&case.text)) {
        Err(msg) => fail!("C11/cpulist/parse/panic", "parse panicked ({msg}) on {:?}", case.text),
        Ok(Ok(v)) => {
            ctx.classify("parse:ok");
            ensure!(
                v.windows(2).all(|w| w[0] < w[1]),
                "C11/cpulist/parse/not-ascending-dedup",
                "parse({:?}) returned a list that is not strictly ascending: {:?}",
                case.text,
                v.iter().take(20).collect::<Vec<_>>()
            );
            if v.len() >= 2 && !is_cpulist_alphabet(&case.text) {
                ctx.classify("ok-despite-foreign-chars");
            }
            if v.len() >= 2 {
                ctx.nontrivial();
            }
        }
        Ok(Err(e)) => {
            ctx.classify("parse:err");
            // the error value is usable, not a time bomb
            let shown = catch(|| format!("{e} / {:?} / {}", e.invalid_value(), e.problem()));
            ensure!(shown.is_ok(), "C11/cpulist/parse/error-display-panic", "formatting the error for {:?} panicked", case.text);
            if case.text.len() >= 3 {
                ctx.nontrivial();
            }
        }
    }
    Ok(())
}

// =================================================================================================
// inventory
// =================================================================================================

#[derive(Debug, Clone, Serialize, Deserialize)]
struct Cpu {
    id: u32,
    online: bool,
    /// in Cpus_allowed_list
    allowed: bool,
    /// an offline processor that this kernel nevertheless lists in /proc/cpuinfo
    listed_while_offline: bool,
    /// /sys/devices/system/cpu/cpuN/online exists
    online_file: bool,
    /// index into `Nodes::dirs` of the node whose cpulist names it, if any
    node: Option<u8>,
    /// a second node that also names it (overlap; not something a kernel produces, the oracle
    /// then accepts either)
    node2: Option<u8>,
    /// per-processor variation bits (key casing, bogomips choice)
    bits: u8,
}

#[derive(Debug, Clone, Serialize, Deserialize)]
struct Nodes {
    /// content of /sys/devices/system/node/possible
    possible: Vec<u32>,
    /// nodes that have a directory with a cpulist file
    dirs: Vec<u32>,
    /// node cpulists also name offline processors
    list_offline: bool,
}

#[derive(Debug, Clone, Serialize, Deserialize)]
struct CpuinfoStyle {
    /// 0 = x86, 1 = arm64 (no model name), 2 = arm32 (model name + identity fields)
    arch: u8,
    /// 0 = native, 1 = lower, 2 = UPPER, 3 = Title, 4 = per processor
    key_case: u8,
    /// 0 = absent, 1 = equal, 2 = mixed, 3 = absent on some processors
    bogomips: u8,
    /// machine-level block without a processor key at the end
    hardware_block: bool,
    /// extra blank lines at the end of the file
    trailing_blank: u8,
    leading_blank: bool,
    /// two blank lines between blocks, one of them made of spaces
    wide_gaps: bool,
    /// keys padded with spaces instead of tabs
    space_padding: bool,
}

#[derive(Debug, Clone, Serialize, Deserialize)]
struct Cgroup {
    /// 0 = /proc/self/cgroup absent, 1 = has the `0::` line, 2 = v1 controller lines only
    proc_file: u8,
    name: u8,
    /// 0 = no cpu files, 1 = v2 "max P", 2 = v2 "Q P", 3 = v1 Q + P, 4 = v1 -1 + P
    kind: u8,
    quota: u32,
    period: u32,
}

#[derive(Debug, Clone, Serialize, Deserialize)]
struct Machine {
    cpus: Vec<Cpu>,
    possible_file: bool,
    online_file: bool,
    nodes: Option<Nodes>,
    cpuinfo: CpuinfoStyle,
    cgroup: Cgroup,
}

const CGROUP_NAMES: [&str; 11] = [
    "/",
    "/foo/bar",
    "/docker/6a74f501e3b4c9d93ad440a7b73149cf2b5d56073c109a8d774c0793f7fe267f",
    "/user.slice/user-1000.slice/session-3.scope",
    "/kubepods.slice/kubepods-burstable.slice/kubepods-burstable-pod1234.slice/cri-containerd-abcd.scope",
    "/system.slice/c11.service",
    // names with characters that are separators elsewhere in /proc/self/cgroup: everything after
    // the second colon of a line is the path
    "/machine.slice/vm:17",
    "/a:b:c/d",
    "/machine.slice/machine-qemu\\x2d1\\x2dvm.scope/0::fake",
    "/name=weird/cpu,cpuacct",
    "/with space/x y/\u{fc}n\u{ef}c\u{f6}d\u{e9}",
];

#[derive(Debug, Clone)]
struct Knobs {
    n: usize,
    start: u32,
    gap_rate: u8,
    offline_rate: u8,
    disallow_rate: u8,
    listed_offline_rate: u8,
    /// 0 mainstream (none for cpu0), 1 none at all, 2 all, 3 partial
    online_files: u8,
    nnodes: usize,
    sparse_nodes: bool,
    missing_dirs: u8,
    /// 0 blocks, 1 round robin, 2 random
    membership: u8,
    unlisted_rate: u8,
    overlap: bool,
}

fn knobs_strategy() -> impl Strategy<Value = Knobs> {
    (
        (
            prop_oneof![4 => 1usize..=16, 4 => 17usize..=128, 2 => 129usize..=1024],
            prop_oneof![9 => Just(0u32), 1 => 1u32..64],
            prop_oneof![6 => Just(0u8), 3 => Just(8u8), 1 => Just(60u8)],
            prop_oneof![3 => Just(0u8), 4 => Just(20u8), 2 => Just(110u8)],
            prop_oneof![3 => Just(0u8), 4 => Just(30u8), 2 => Just(140u8)],
            prop_oneof![7 => Just(0u8), 3 => Just(120u8)],
        ),
        (
            prop_oneof![5 => Just(0u8), 2 => Just(1u8), 2 => Just(2u8), 2 => Just(3u8)],
            prop_oneof![2 => Just(0usize), 2 => Just(1usize), 4 => 2usize..=4, 2 => 5usize..=8],
            prop::bool::weighted(0.25),
            prop_oneof![5 => Just(0u8), 3 => Just(1u8), 2 => Just(2u8)],
            0u8..3,
            prop_oneof![7 => Just(0u8), 3 => Just(25u8)],
            prop::bool::weighted(0.04),
        ),
    )
        .prop_map(
            |((n, start, gap_rate, offline_rate, disallow_rate, listed_offline_rate), (online_files, nnodes, sparse_nodes, missing_dirs, membership, unlisted_rate, overlap))| Knobs {
                n,
                start,
                gap_rate,
                offline_rate,
                disallow_rate,
                listed_offline_rate,
                online_files,
                nnodes,
                sparse_nodes,
                missing_dirs,
                membership,
                unlisted_rate,
                overlap,
            },
        )
}

fn style_strategy() -> impl Strategy<Value = CpuinfoStyle> {
    (0u8..3, 0u8..5, 0u8..4, any::<bool>(), 0u8..3, prop::bool::weighted(0.15), prop::bool::weighted(0.25), prop::bool::weighted(0.25)).prop_map(
        |(arch, key_case, bogomips, hardware_block, trailing_blank, leading_blank, wide_gaps, space_padding)| CpuinfoStyle {
            arch,
            key_case,
            bogomips,
            hardware_block,
            trailing_blank,
            leading_blank,
            wide_gaps,
            space_padding,
        },
    )
}

fn cgroup_strategy(n: usize) -> impl Strategy<Value = Cgroup> {
    let n = n as u32;
    (
        prop_oneof![1 => Just(0u8), 7 => Just(1u8), 2 => Just(2u8)],
        0u8..CGROUP_NAMES.len() as u8,
        prop_oneof![2 => Just(0u8), 2 => Just(1u8), 6 => Just(2u8), 5 => Just(3u8), 2 => Just(4u8)],
        // quota/period in processors: from a hundredth of one to more than the machine has
        prop_oneof![
            3 => (1u32..=400).prop_map(|c| (c, 100u32)),          // 0.01 .. 4.00 of a period of 100
            3 => (1u32..=64).prop_map(|c| (c * 100, 100u32)),     // whole processors
            2 => (1u32..=200_000).prop_map(|c| (c, 1000u32)),     // fine grained
            1 => (1000u32..=2000).prop_map(|c| (c * 100, 100u32)), // more than any machine here
            6 => (10u32..=1500).prop_map(move |permille| (permille * n, 1000u32)), // relative to the machine
        ],
        prop_oneof![3 => Just(100_000u32), 1 => Just(1000u32), 1 => Just(1_000_000u32), 1 => Just(50_000u32)],
    )
        .prop_map(|(proc_file, name, kind, (num, den), period)| {
            // quota = period * num / den, at least the kernel's minimum of 1000us
            let quota = (u64::from(period) * u64::from(num) / u64::from(den)).clamp(1000, u64::from(u32::MAX)) as u32;
            let mut kind = kind;
            // the root cgroup carries no cpu.max and its v1 quota is always unlimited
            if name == 0 && (kind == 1 || kind == 2 || kind == 3) {
                kind = if kind == 3 { 4 } else { 0 };
            }
            // a v1-only host has no cpu.max files
            if proc_file == 2 {
                kind = match kind {
                    1 => 4,
                    2 => 3,
                    k => k,
                };
                if name == 0 && kind == 3 {
                    kind = 4;
                }
            }
            Cgroup { proc_file, name, kind, quota, period }
        })
}

fn machine_strategy() -> impl Strategy<Value = Machine> {
    knobs_strategy().prop_flat_map(|k| {
        let n = k.n;
        (
            Just(k),
            prop::collection::vec(any::<u64>(), n),
            any::<u16>(), // the processor this process is running on
            style_strategy(),
            cgroup_strategy(n),
            prop::bool::weighted(0.88),
            prop::bool::weighted(0.88),
            any::<u32>(),
        )
            .prop_map(|(k, rolls, current, cpuinfo, cgroup, possible_file, online_file, node_seed)| build_machine(&k, &rolls, current, cpuinfo, cgroup, possible_file, online_file, node_seed))
    })
}

fn build_machine(k: &Knobs, rolls: &[u64], current: u16, cpuinfo: CpuinfoStyle, cgroup: Cgroup, possible_file: bool, online_file: bool, node_seed: u32) -> Machine {
    let byte = |r: u64, i: u32| ((r >> (8 * i)) & 0xff) as u8;

    // --- nodes
    let nodes = if k.nnodes == 0 {
        None
    } else {
        let possible: Vec<u32> = if k.sparse_nodes {
            // ascending ids with holes, e.g. 0,2,3,8
            let mut id = node_seed % 3;
            (0..k.nnodes)
                .map(|i| {
                    let v = id;
                    id += 1 + ((node_seed >> (3 + 2 * i)) & 3);
                    v
                })
                .collect()
        } else {
            (0..k.nnodes as u32).collect()
        };
        let mut dirs: Vec<u32> = possible
            .iter()
            .enumerate()
            .filter(|(i, _)| match k.missing_dirs {
                0 => true,
                1 => *i + 1 != possible.len() || possible.len() == 1, // the last node is not online
                _ => (node_seed >> (16 + i)) & 1 == 1,
            })
            .map(|(_, id)| *id)
            .collect();
        if dirs.is_empty() {
            dirs.push(possible[(node_seed as usize >> 8) % possible.len()]);
        }
        Some(Nodes { possible, dirs, list_offline: (node_seed >> 30) & 1 == 1 })
    };
    let ndirs = nodes.as_ref().map_or(0, |n| n.dirs.len());

    // --- processors
    let mut cpus = Vec::with_capacity(rolls.len());
    let mut id = k.start;
    for (i, &r) in rolls.iter().enumerate() {
        if i > 0 {
            id += 1;
            if byte(r, 0) < k.gap_rate {
                id += 1 + u32::from(byte(r, 7) % 37);
            }
        }
        let online = byte(r, 1) >= k.offline_rate;
        let allowed = byte(r, 2) >= k.disallow_rate;
        let listed_while_offline = !online && byte(r, 3) < k.listed_offline_rate;
        let node = if ndirs == 0 || byte(r, 4) < k.unlisted_rate {
            None
        } else {
            Some(match k.membership {
                0 => (i * ndirs / rolls.len()) as u8,
                1 => (i % ndirs) as u8,
                _ => byte(r, 5) % ndirs as u8,
            })
        };
        let node2 = match node {
            Some(a) if k.overlap && ndirs >= 2 && byte(r, 6) < 40 => Some((a + 1) % ndirs as u8),
            _ => None,
        };
        cpus.push(Cpu { id, online, allowed, listed_while_offline, online_file: false, node, node2, bits: byte(r, 6) });
    }
    // the process runs on some processor: it is online, allowed and listed
    let cur = pick_index(current, cpus.len());
    cpus[cur].online = true;
    cpus[cur].allowed = true;
    cpus[cur].listed_while_offline = false;

    // --- per-processor online files. An absent file means "online", so a kernel that lists an
    // offline processor in cpuinfo always has the file for it.
    for c in &mut cpus {
        c.online_file = match k.online_files {
            0 => c.id != 0,
            1 => false,
            2 => true,
            _ => c.bits & 1 == 1,
        } || c.listed_while_offline;
    }

    Machine { cpus, possible_file, online_file, nodes, cpuinfo, cgroup }
}

/// The kernel's own list rendering (`%*pbl`): ascending, `a-b` for every run of two or more.
fn kernel_list(ids: impl IntoIterator<Item = u32>) -> String {
    let sorted: Vec<u32> = ids.into_iter().collect::<BTreeSet<u32>>().into_iter().collect();
    let mut out = String::new();
    for (start, len) in runs_of(&sorted) {
        if !out.is_empty() {
            out.push(',');
        }
        if len == 1 {
            let _ = write!(out, "{start}");
        } else {
            let _ = write!(out, "{start}-{}", u64::from(start) + len as u64 - 1);
        }
    }
    out
}

fn hex_mask(ids: impl IntoIterator<Item = u32>) -> String {
    let ids: Vec<u32> = ids.into_iter().collect();
    let top = ids.iter().copied().max().unwrap_or(0);
    let groups = top as usize / 32 + 1;
    let mut words = vec![0u32; groups];
    for i in ids {
        words[i as usize / 32] |= 1 << (i % 32);
    }
    words.iter().rev().map(|w| format!("{w:08x}")).collect::<Vec<_>>().join(",")
}

fn cased(key: &str, mode: u8, bits: u8) -> String {
    let mode = if mode == 4 { bits % 4 } else { mode };
    match mode {
        0 => key.to_string(),
        1 => key.to_ascii_lowercase(),
        2 => key.to_ascii_uppercase(),
        _ => {
            let mut out = String::new();
            let mut up = true;
            for ch in key.chars() {
                out.push(if up { ch.to_ascii_uppercase() } else { ch.to_ascii_lowercase() });
                up = ch == ' ';
            }
            out
        }
    }
}

fn render_cpuinfo(m: &Machine) -> String {
    let st = &m.cpuinfo;
    let mut out = String::new();
    if st.leading_blank {
        out.push('\n');
    }
    let line = |out: &mut String, key: &str, value: &str| {
        if st.space_padding {
            let _ = writeln!(out, "{key:<16}: {value}");
        } else {
            let tabs = if key.len() < 8 { "\t\t" } else { "\t" };
            if value.is_empty() {
                let _ = writeln!(out, "{key}{tabs}:");
            } else {
                let _ = writeln!(out, "{key}{tabs}: {value}");
            }
        }
    };
    for c in m.cpus.iter().filter(|c| c.online || c.listed_while_offline) {
        let k = |native: &str| cased(native, st.key_case, c.bits >> 2);
        let bogo: Option<&str> = match st.bogomips {
            0 => None,
            1 => Some(if st.arch == 0 { "4890.85" } else { "50.00" }),
            2 => Some(if c.bits & 0x10 == 0 { "5586.87" } else { "3400.12" }),
            _ => (c.bits & 0x20 == 0).then_some("38.40"),
        };
        line(&mut out, &k("processor"), &c.id.to_string());
        match st.arch {
            0 => {
                line(&mut out, "vendor_id", "GenuineIntel");
                line(&mut out, "cpu family", "6");
                line(&mut out, "model", "85");
                line(&mut out, &k("model name"), "Intel(R) Xeon(R) Platinum 8370C CPU @ 2.80GHz");
                line(&mut out, "cpu MHz", "2793.438");
                line(&mut out, "core id", &(c.id / 2).to_string());
                line(&mut out, "flags", "fpu vme de pse tsc msr pae mce");
                if let Some(b) = bogo {
                    line(&mut out, &k("bogomips"), b);
                }
                line(&mut out, "address sizes", "46 bits physical, 48 bits virtual");
                let _ = writeln!(out, "power management:");
            }
            arch => {
                if arch == 2 {
                    line(&mut out, &k("model name"), "ARMv7 Processor rev 4 (v7l)");
                }
                if let Some(b) = bogo {
                    line(&mut out, &k("BogoMIPS"), b);
                }
                line(&mut out, "Features", "fp asimd evtstrm aes pmull sha1 sha2 crc32");
                line(&mut out, &k("CPU implementer"), "0x41");
                line(&mut out, "CPU architecture", "8");
                line(&mut out, "CPU variant", "0x3");
                line(&mut out, &k("CPU part"), if c.bits & 0x40 == 0 { "0xd0c" } else { "0xd03" });
                line(&mut out, "CPU revision", "1");
            }
        }
        out.push('\n');
        if st.wide_gaps {
            out.push_str("   \n");
        }
    }
    if st.hardware_block {
        line(&mut out, "Hardware", "BCM2835");
        line(&mut out, "Revision", "a02082");
        line(&mut out, "Serial", "00000000a3f1c2d4");
        line(&mut out, "Model", "Raspberry Pi 3 Model B Rev 1.2");
        if st.trailing_blank > 0 {
            out.push('\n');
        }
    }
    for _ in 0..st.trailing_blank {
        out.push('\n');
    }
    out
}

fn render_status(m: &Machine) -> String {
    let allowed: Vec<u32> = m.cpus.iter().filter(|c| c.allowed).map(|c| c.id).collect();
    let mut s = String::new();
    s.push_str("Name:\tc11\nUmask:\t0022\nState:\tR (running)\nTgid:\t4242\nNgid:\t0\nPid:\t4242\nPPid:\t1\nTracerPid:\t0\n");
    s.push_str("Uid:\t1000\t1000\t1000\t1000\nGid:\t1000\t1000\t1000\t1000\nFDSize:\t64\nGroups:\t4 24 27 1000 \n");
    s.push_str("VmPeak:\t    8508 kB\nVmSize:\t    8508 kB\nThreads:\t1\nSigQ:\t0/63432\nSigPnd:\t0000000000000000\n");
    s.push_str("CapEff:\t0000000000000000\nNoNewPrivs:\t0\nSeccomp:\t0\nSeccomp_filters:\t0\n");
    s.push_str("Speculation_Store_Bypass:\tthread vulnerable\nSpeculationIndirectBranch:\tconditional enabled\n");
    let _ = writeln!(s, "Cpus_allowed:\t{}", hex_mask(allowed.iter().copied()));
    let _ = writeln!(s, "Cpus_allowed_list:\t{}", kernel_list(allowed.iter().copied()));
    s.push_str("Mems_allowed:\t00000000,00000001\nMems_allowed_list:\t0\nvoluntary_ctxt_switches:\t3\nnonvoluntary_ctxt_switches:\t0\n");
    s
}

fn render(m: &Machine) -> Vec<(String, String)> {
    let mut files: Vec<(String, String)> = Vec::new();
    files.push(("/proc/cpuinfo".into(), render_cpuinfo(m)));
    files.push(("/proc/self/status".into(), render_status(m)));
    if m.possible_file {
        files.push(("/sys/devices/system/cpu/possible".into(), format!("{}\n", kernel_list(m.cpus.iter().map(|c| c.id)))));
    }
    if m.online_file {
        files.push(("/sys/devices/system/cpu/online".into(), format!("{}\n", kernel_list(m.cpus.iter().filter(|c| c.online).map(|c| c.id)))));
    }
    for c in &m.cpus {
        if c.online_file {
            files.push((format!("/sys/devices/system/cpu/cpu{}/online", c.id), if c.online { "1\n".into() } else { "0\n".into() }));
        }
    }
    if let Some(n) = &m.nodes {
        files.push(("/sys/devices/system/node/possible".into(), format!("{}\n", kernel_list(n.possible.iter().copied()))));
        for (di, node_id) in n.dirs.iter().enumerate() {
            let members = m
                .cpus
                .iter()
                .filter(|c| c.online || n.list_offline)
                .filter(|c| c.node == Some(di as u8) || c.node2 == Some(di as u8))
                .map(|c| c.id);
            files.push((format!("/sys/devices/system/node/node{node_id}/cpulist"), format!("{}\n", kernel_list(members))));
        }
    }
    let cg = &m.cgroup;
    let name = CGROUP_NAMES[cg.name as usize];
    match cg.proc_file {
        0 => {}
        1 => {
            let v1 = matches!(cg.kind, 3 | 4);
            let mut s = String::new();
            if v1 {
                // hybrid hierarchy: v1 controllers plus the unified line
                let _ = write!(s, "12:cpuset:{name}\n11:cpu,cpuacct:{name}\n10:memory:{name}\n1:name=systemd:{name}\n");
            }
            let _ = writeln!(s, "0::{name}");
            files.push(("/proc/self/cgroup".into(), s));
        }
        _ => {
            files.push(("/proc/self/cgroup".into(), format!("12:cpuset:{name}\n11:cpu,cpuacct:{name}\n10:memory:{name}\n1:name=systemd:{name}\n")));
        }
    }
    // the cgroup tree exists whether or not this process can name its own cgroup
    match cg.kind {
        1 => files.push((format!("/sys/fs/cgroup/{name}/cpu.max"), format!("max {}\n", cg.period))),
        2 => files.push((format!("/sys/fs/cgroup/{name}/cpu.max"), format!("{} {}\n", cg.quota, cg.period))),
        3 => {
            files.push((format!("/sys/fs/cgroup/cpu/{name}/cpu.cfs_quota_us"), format!("{}\n", cg.quota)));
            files.push((format!("/sys/fs/cgroup/cpu/{name}/cpu.cfs_period_us"), format!("{}\n", cg.period)));
        }
        4 => {
            files.push((format!("/sys/fs/cgroup/cpu/{name}/cpu.cfs_quota_us"), "-1\n".into()));
            files.push((format!("/sys/fs/cgroup/cpu/{name}/cpu.cfs_period_us"), format!("{}\n", cg.period)));
        }
        _ => {}
    }
    files
}

struct Expected {
    /// processor id -> the nodes that list it (empty = no node lists it -> region 0)
    processors: BTreeMap<u32, BTreeSet<u32>>,
    /// quota / period when a quota applies to this process
    quota: Option<f64>,
}

/// Independent interpretation of the description (never looks at the rendered text).
fn interpret(m: &Machine) -> Expected {
    let mut processors = BTreeMap::new();
    for c in &m.cpus {
        let listed = c.online || c.listed_while_offline;
        // the per-processor file says 1, or is absent (absent means online)
        let online = !c.online_file || c.online;
        if listed && online && c.allowed {
            let mut listing = BTreeSet::new();
            if let Some(n) = &m.nodes {
                if c.online || n.list_offline {
                    for idx in [c.node, c.node2].into_iter().flatten() {
                        listing.insert(n.dirs[idx as usize]);
                    }
                }
            }
            processors.insert(c.id, listing);
        }
    }
    let cg = &m.cgroup;
    // The process learns the name of its cgroup from the unified (`0::`) line only; the package
    // documents (and pins by a unit test) that v1-only hosts are not supported, so without that
    // line no quota is discoverable.
    // A v1-only host (no `0::` line) with a v1 quota is a layout real kernels produce; the quota
    // applies to the process there too (the package documents that it does not support such
    // hosts - judged below under its own signature).
    let quota = if (cg.proc_file == 1 && matches!(cg.kind, 2 | 3)) || (cg.proc_file == 2 && cg.kind == 3) { Some(f64::from(cg.quota) / f64::from(cg.period)) } else { None };
    Expected { processors, quota }
}

fn check_machine(m: &Machine, ctx: &mut Ctx) -> Verdict {
    let want = interpret(m);
    let files = render(m);

    // --- classification
    let n_off = m.cpus.iter().filter(|c| !c.online).count();
    let n_disallowed = m.cpus.iter().filter(|c| !c.allowed).count();
    let ndirs = m.nodes.as_ref().map_or(0, |n| n.dirs.len());
    ctx.classify(match m.cpus.len() {
        1 => "cpus:1",
        2..=16 => "cpus:2-16",
        17..=128 => "cpus:17-128",
        _ => "cpus:129-1024",
    });
    if m.cpus.windows(2).any(|w| w[1].id != w[0].id + 1) || m.cpus[0].id != 0 {
        ctx.classify("sparse-possible-ids");
    }
    if m.cpus.last().is_some_and(|c| c.id >= 1024) {
        ctx.classify("ids-beyond-cpu_set_t");
    }
    if n_off > 0 {
        ctx.classify("has-offline");
    }
    if n_disallowed > 0 {
        ctx.classify("has-disallowed");
    }
    if m.cpus.iter().any(|c| c.allowed && !c.online) {
        ctx.classify("allowed-names-offline-ids");
    }
    if m.cpus.iter().any(|c| c.listed_while_offline) {
        ctx.classify("cpuinfo-lists-offline");
    }
    if m.cpus.iter().any(|c| c.online && !c.online_file) {
        ctx.classify("online-file-absent-for-online-cpu");
    }
    if !m.possible_file {
        ctx.classify("no-possible-mask");
    }
    if !m.online_file {
        ctx.classify("no-online-mask");
    }
    ctx.classify(match &m.nodes {
        None => "nodes:none",
        Some(_) if ndirs == 1 => "nodes:1-dir",
        Some(_) => "nodes:>=2-dirs",
    });
    if let Some(n) = &m.nodes {
        if n.dirs.len() < n.possible.len() {
            ctx.classify("node-dir-missing");
        }
        if n.possible.windows(2).any(|w| w[1] != w[0] + 1) || n.possible[0] != 0 {
            ctx.classify("sparse-node-ids");
        }
    }
    if want.processors.values().any(|l| l.is_empty()) && m.nodes.is_some() {
        ctx.classify("processor-no-node-lists");
    }
    if want.processors.values().any(|l| l.len() > 1) {
        ctx.classify("overlapping-node-lists(not kernel-like)");
    }
    ctx.classify(match (m.cgroup.proc_file, m.cgroup.kind) {
        (0, _) => "cgroup:no-proc-file",
        (2, 3) => "cgroup:v1-only-host-with-quota(unsupported)",
        (2, _) => "cgroup:v1-only-host",
        (_, 0) => "cgroup:no-cpu-files",
        (_, 1) => "cgroup:v2-max",
        (_, 2) => "cgroup:v2-quota",
        (_, 3) => "cgroup:v1-quota",
        _ => "cgroup:v1-unlimited",
    });
    ctx.classify(match m.cpuinfo.arch {
        0 => "cpuinfo:x86",
        1 => "cpuinfo:arm64",
        _ => "cpuinfo:arm32",
    });
    if m.cpuinfo.key_case != 0 {
        ctx.classify("cpuinfo:recased-keys");
    }
    if m.cpuinfo.bogomips == 0 || m.cpuinfo.bogomips == 3 {
        ctx.classify("cpuinfo:bogomips-missing");
    }
    if m.cpuinfo.hardware_block {
        ctx.classify("cpuinfo:block-without-processor-key");
    }
    let count = want.processors.len();
    let quota_below = want.quota.is_some_and(|q| q < count as f64);
    if quota_below {
        ctx.classify("quota-below-count");
    } else if want.quota.is_some() {
        ctx.classify("quota-at-or-above-count");
    }

    // --- run the real PAL
    struct Seen {
        procs: Vec<(u32, u32)>,
        set_len: usize,
        max_pid: u32,
        max_rid: u32,
        time: f64,
    }
    let ran = catch(|| {
        let mut fs = MemoryFilesystem::new();
        for (path, contents) in &files {
            fs.insert(path, contents.clone());
        }
        let first_allowed = m.cpus.iter().find(|c| c.allowed && c.online).map_or(0, |c| c.id);
        let bindings = Arc::new(FakeAffinity::new(1, vec![1], first_allowed as i32));
        let hw = linux_hardware(fs, bindings);
        let all = hw.all_processors();
        Seen {
            procs: all.processors().iter().map(|p| (p.id(), p.memory_region_id())).collect(),
            set_len: all.len(),
            max_pid: hw.max_processor_id(),
            max_rid: hw.max_memory_region_id(),
            time: hw.resource_quota().max_processor_time(),
        }
    });
    let seen = match ran {
        Ok(s) => s,
        Err(msg) => fail!(format!("C11/inventory/panic/{}", normalise(&msg)), "the platform panicked on a well-formed description: {msg}"),
    };

    // --- processors = listed ∩ online ∩ allowed
    let got_ids: BTreeSet<u32> = seen.procs.iter().map(|p| p.0).collect();
    ensure!(got_ids.len() == seen.procs.len() && seen.set_len == seen.procs.len(), "C11/inventory/processors/duplicates", "duplicate processors reported: {:?}", seen.procs);
    let want_ids: BTreeSet<u32> = want.processors.keys().copied().collect();
    if got_ids != want_ids {
        let extra: Vec<u32> = got_ids.difference(&want_ids).copied().take(8).collect();
        let missing: Vec<u32> = want_ids.difference(&got_ids).copied().take(8).collect();
        let why = |id: u32| {
            m.cpus
                .iter()
                .find(|c| c.id == id)
                .map(|c| format!("{id}(online={} allowed={} cpuinfo={} online_file={})", c.online, c.allowed, c.online || c.listed_while_offline, c.online_file))
                .unwrap_or_else(|| format!("{id}(not possible)"))
        };
        if !extra.is_empty() {
            fail!("C11/inventory/processors/extra", "reported processors that are not listed+online+allowed: {:?}", extra.into_iter().map(why).collect::<Vec<_>>());
        }
        fail!("C11/inventory/processors/missing", "listed+online+allowed processors not reported: {:?}", missing.into_iter().map(why).collect::<Vec<_>>());
    }

    // --- region = the node that lists it, else 0
    for (id, region) in &seen.procs {
        let listing = &want.processors[id];
        if listing.is_empty() {
            ensure!(*region == 0, "C11/inventory/region/unlisted-not-zero", "processor {id} is listed by no node but reported in region {region}");
        } else {
            ensure!(listing.contains(region), "C11/inventory/region/wrong-node", "processor {id} is listed by node(s) {:?} but reported in region {region}", listing);
        }
    }

    // --- ids and regions within the reported maxima
    if let Some((id, _)) = seen.procs.iter().find(|p| p.0 > seen.max_pid) {
        fail!("C11/inventory/maxima/processor-id-above-max", "processor {id} > max_processor_id {}", seen.max_pid);
    }
    if let Some((id, region)) = seen.procs.iter().find(|p| p.1 > seen.max_rid) {
        fail!("C11/inventory/maxima/region-id-above-max", "processor {id} region {region} > max_memory_region_id {}", seen.max_rid);
    }

    // --- max_processor_time = min(count, quota/period)
    let want_time = want.quota.map_or(count as f64, |q| q.min(count as f64));
    let v1_only_quota = m.cgroup.proc_file == 2 && m.cgroup.kind == 3;
    if v1_only_quota && (seen.time - want_time).abs() > 1e-9 * want_time.max(1.0) && (seen.time - count as f64).abs() <= 1e-9 * (count as f64) {
        // documented limitation: the cgroup name is only read from the unified line
        let sig = "C11/inventory/quota/v1-only-host-quota-ignored";
        if !ctx.tolerate(sig) {
            fail!(sig, "pure cgroup-v1 host (no 0:: line in /proc/self/cgroup): cpu.cfs_quota_us={} cpu.cfs_period_us={} with {count} processors should give max_processor_time {want_time}, reported {}", m.cgroup.quota, m.cgroup.period, seen.time);
        }
    } else {
    ensure!(
        (seen.time - want_time).abs() <= 1e-9 * want_time.max(1.0),
        "C11/inventory/quota/wrong-processor-time",
        "max_processor_time {} but {} processors and cgroup quota {:?} (layout proc_file={} kind={} quota={} period={})",
        seen.time,
        count,
        want.quota,
        m.cgroup.proc_file,
        m.cgroup.kind,
        m.cgroup.quota,
        m.cgroup.period
    );
    }

    // non-trivial: >= 2 nodes, >= 1 offline or disallowed processor, quota below the count
    if ndirs >= 2 && (n_off > 0 || n_disallowed > 0) && quota_below {
        ctx.nontrivial();
        // distinctness by the facts the oracle depends on, not by cosmetic rendering
    }
    Ok(())
}

// =================================================================================================
// mask
// =================================================================================================

#[derive(Debug, Clone, Serialize, Deserialize)]
struct MaskCase {
    ids: Vec<u32>,
    width_a: u16,
    width_b: u16,
    perm_seed: u32,
    /// an id to probe inequality with
    other: u32,
}

/// `domain`: 0 = first words only, 1 = within cpu_set_t, 2 = up to 4500, 3 = up to 200000
fn mask_id_strategy(domain: u8) -> BoxedStrategy<u32> {
    match domain {
        0 => prop_oneof![3 => 0u32..130, 1 => (0u32..3, 0u32..3).prop_map(|(w, d)| w * 64 + 62 + d)].boxed(),
        1 => prop_oneof![3 => 0u32..1024, 2 => 1000u32..1024, 2 => (0u32..16, 0u32..3).prop_map(|(w, d)| (w * 64 + 62 + d).min(1023))].boxed(),
        2 => prop_oneof![3 => 0u32..130, 3 => 1000u32..1100, 3 => 0u32..4096, 3 => (0u32..70, 0u32..3).prop_map(|(w, d)| w * 64 + 62 + d)].boxed(),
        _ => prop_oneof![3 => 0u32..4096, 2 => 4096u32..200_000, 1 => (0u32..3000, 0u32..3).prop_map(|(w, d)| w * 64 + 62 + d)].boxed(),
    }
}

fn mask_case_strategy() -> impl Strategy<Value = MaskCase> {
    let width = || prop_oneof![3 => 1u16..=3, 3 => 15u16..=17, 3 => 1u16..=64, 1 => 65u16..=4000];
    let ids = prop_oneof![
        3 => prop::collection::vec(mask_id_strategy(0), 0..40),
        3 => prop::collection::vec(mask_id_strategy(1), 0..40),
        3 => prop::collection::vec(mask_id_strategy(2), 0..40),
        1 => prop::collection::vec(mask_id_strategy(3), 0..40),
    ];
    (ids, width(), width(), any::<u32>(), mask_id_strategy(2)).prop_map(|(ids, width_a, width_b, perm_seed, other)| MaskCase { ids, width_a, width_b, perm_seed, other })
}

fn decode_words(words: &[libc::c_ulong]) -> Vec<u32> {
    let bits = libc::c_ulong::BITS as usize;
    let mut out = Vec::new();
    for (wi, w) in words.iter().enumerate() {
        if *w == 0 {
            continue;
        }
        for b in 0..bits {
            if (w >> b) & 1 == 1 {
                out.push((wi * bits + b) as u32);
            }
        }
    }
    out
}

fn check_mask(case: &MaskCase, ctx: &mut Ctx) -> Verdict {
    let word_bytes = size_of::<libc::c_ulong>();
    let word_bits = libc::c_ulong::BITS;
    let want: Vec<u32> = case.ids.iter().copied().collect::<BTreeSet<u32>>().into_iter().collect();
    let needed_words = want.last().map_or(0, |m| (*m / word_bits) as usize + 1);
    let wa = usize::from(case.width_a);
    let wb = usize::from(case.width_b);

    ctx.classify(match want.len() {
        0 => "ids:0",
        1 => "ids:1",
        _ => "ids:>=2",
    });
    if needed_words > wa.min(wb) {
        ctx.classify("widening-needed");
    }
    if needed_words > 16 {
        ctx.classify("beyond-cpu_set_t");
    }
    if wa != wb {
        ctx.classify("different-widths");
    }
    if case.ids.len() != want.len() {
        ctx.classify("duplicate-inserts");
    }

    let res = catch(|| -> Verdict {
        // A: width_a, insertion in generated order
        let mut a = VerifCpuMask::with_words(NonZero::new(wa).expect("width >= 1"));
        ensure!(a.processor_ids().is_empty(), "C11/mask/new-not-empty", "fresh mask of {wa} words is not empty: {:?}", a.processor_ids());
        ensure!(a.len_bytes() == wa * word_bytes, "C11/mask/with_words-width", "with_words({wa}) is {} bytes", a.len_bytes());
        let mut so_far = BTreeSet::new();
        for id in &case.ids {
            a.insert(*id);
            so_far.insert(*id);
            // spot check after every insert for small cases, at the end for all
            if case.ids.len() <= 8 {
                let now = a.processor_ids();
                ensure!(now == so_far.iter().copied().collect::<Vec<_>>(), "C11/mask/insert/iteration-mismatch", "after inserting {:?} into a {wa}-word mask iteration gives {:?}", so_far, now);
            }
        }
        let ids_a = a.processor_ids();
        ensure!(ids_a == want, "C11/mask/insert/iteration-mismatch", "inserted {:?} into a {wa}-word mask, iteration gives {:?}", want, ids_a);
        // what the operating system would see
        let raw_a = a.raw_words();
        ensure!(raw_a.len() * word_bytes == a.len_bytes(), "C11/mask/raw/length", "len_bytes {} vs {} words", a.len_bytes(), raw_a.len());
        ensure!(decode_words(&raw_a) == want, "C11/mask/raw/bit-position", "inserted {:?}; the words handed to the OS decode to {:?}", want, decode_words(&raw_a));
        ensure!(raw_a.len() >= wa && raw_a.len() >= needed_words, "C11/mask/width/narrowed-or-too-narrow", "mask is {} words; created with {wa}, needs {needed_words}", raw_a.len());

        // B: width_b, another insertion order
        let mut order = case.ids.clone();
        permute(&mut order, case.perm_seed);
        let mut b = VerifCpuMask::with_words(NonZero::new(wb).expect("width >= 1"));
        for id in &order {
            b.insert(*id);
        }
        ensure!(b.processor_ids() == want, "C11/mask/insert/iteration-mismatch", "inserted {:?} into a {wb}-word mask, iteration gives {:?}", want, b.processor_ids());
        ensure!(a == b && b == a, "C11/mask/eq/width-dependent", "masks of {wa} and {wb} words holding the same set {:?} compare unequal", want);

        // C: default width
        let mut c = VerifCpuMask::new();
        for id in &order {
            c.insert(*id);
        }
        ensure!(c.processor_ids() == want && c == a, "C11/mask/default-width/mismatch", "default-width mask holds {:?}, want {:?}", c.processor_ids(), want);

        // D: a mask the OS filled (raw words of another width) reads back as the same set
        let fill_words = needed_words.max(wb).max(1);
        let mut raw = vec![0 as libc::c_ulong; fill_words];
        for id in &want {
            raw[(*id / word_bits) as usize] |= 1 << (*id % word_bits);
        }
        let d = VerifCpuMask::from_raw_words(&raw);
        ensure!(d.processor_ids() == want, "C11/mask/os-filled/iteration-mismatch", "OS-filled {fill_words}-word mask for {:?} iterates {:?}", want, d.processor_ids());
        ensure!(d == a, "C11/mask/eq/width-dependent", "OS-filled mask and inserted mask of the same set {:?} compare unequal", want);

        // E: a different set is a different mask, whatever the widths
        let mut e = b.clone();
        if !want.contains(&case.other) {
            e.insert(case.other);
            ensure!(e != a && a != e, "C11/mask/eq/different-sets-equal", "masks {:?} and the same plus {} compare equal", want, case.other);
            let mut with_other = want.clone();
            with_other.push(case.other);
            with_other.sort_unstable();
            ensure!(e.processor_ids() == with_other, "C11/mask/insert/iteration-mismatch", "adding {} gives {:?}", case.other, e.processor_ids());
        } else {
            e.insert(case.other);
            ensure!(e == a, "C11/mask/insert/not-idempotent", "re-inserting {} changed the set", case.other);
        }
        Ok(())
    });
    match res {
        Ok(v) => v?,
        Err(msg) => fail!(format!("C11/mask/panic/{}", normalise(&msg)), "mask operation panicked: {msg} (ids {:?}, widths {wa}/{wb})", want),
    }

    // non-trivial: ids in >= 2 different words, two different widths, and at least one id beyond
    // the narrower width (forces widening)
    let words_used: BTreeSet<u32> = want.iter().map(|i| i / word_bits).collect();
    if words_used.len() >= 2 && wa != wb && needed_words > wa.min(wb) {
        ctx.nontrivial();
    }
    Ok(())
}

// =================================================================================================

fn main() {
    // Keep freed memory in the process: the cases allocate and free buffers of a few dozen KB in
    // quick succession, which otherwise makes glibc grow and trim the heap for every case.
    // SAFETY: mallopt only tunes the allocator; called before any other thread exists.
    unsafe {
        libc::mallopt(libc::M_TRIM_THRESHOLD, 1 << 28);
        libc::mallopt(libc::M_MMAP_THRESHOLD, 1 << 24);
    }
    let mut h = Harness::from_args("C11");

    let n = h.cases(120_000, 1_000_000);
    h.section(
        "codec-sets",
        "id sets built from runs over the whole u32 range (cardinality <= 4096; runs ending at / clipped by u32::MAX, bottom runs, merging neighbours, long dense runs), handed to emit in generated / ascending / descending / permuted order with duplicates; oracle parse(emit(S)) == sorted dedup S, emit output is a cpulist, no panic; non-trivial = >= 2 maximal runs, one of length >= 3, input unsorted or with duplicates",
        n,
        set_case_strategy(),
        check_set,
    );

    let n = h.cases(80_000, 1_000_000);
    h.section(
        "codec-strings",
        "well-formed cpulist strings of 0..10 parts (single, a-b, a-b:stride incl. stride > span and stride u32::MAX; values at the bottom, anywhere and at the top of u32; span <= 3000) vs. an independent interpretation of the grammar; then emit(parse(s)) re-parses to the same set; non-trivial = >= 2 parts with at least one range or stride",
        n,
        prop::collection::vec(part_strategy(), 0..10).prop_map(|parts| StrCase { parts }),
        check_string,
    );

    let n = h.cases(120_000, 1_500_000);
    h.section(
        "codec-fuzz",
        "arbitrary text (token soup of in-window numbers, separators and junk incl. signs, unicode digits, overflowing numbers; random chars; biased random bytes) -> parse returns Ok (strictly ascending) or Err (displayable), never panics; inputs denoting a range of more than 2^21 items are skipped as a resource guard (counted); non-trivial = Ok with >= 2 items, or Err on text of >= 3 bytes",
        n,
        fuzz_strategy(),
        check_fuzz,
    );

    let n = h.cases(60_000, 6_000_000);
    h.section(
        "inventory",
        "generated machine description (1..1024 possible cpus, dense or sparse ids up to ~2000; online subset; Cpus_allowed_list subset incl. offline ids; per-cpu online files mainstream/none/all/partial; kernels that list offline cpus in cpuinfo; possible/online masks present or absent; x86/arm64/arm32 cpuinfo with re-cased keys, optional/mixed bogomips, trailing block without processor key, extra blank lines; 0..8 NUMA nodes, sparse node ids, missing node dirs, block/round-robin/random membership, cpus no node lists; cgroup none / v2 max / v2 q p / v1 q+p / v1 -1, with, without the 0:: line or without /proc/self/cgroup) -> kernel file set -> real Linux PAL over hook H5 -> SystemHardware, compared with an independent interpretation: processors = listed ∩ online ∩ allowed, region = listing node else 0, ids/regions <= reported maxima, max_processor_time = min(count, quota/period), no panic; non-trivial = >= 2 node dirs, >= 1 offline or disallowed cpu, and a cgroup quota below the processor count",
        n,
        machine_strategy(),
        check_machine,
    );

    let n = h.cases(240_000, 1_500_000);
    h.section(
        "mask",
        "random id sets (word boundaries, ids beyond cpu_set_t, up to 200000) x two creation widths (1..4000 words) x insertion orders: iteration == sorted dedup set, raw words handed to the OS decode to the set, equality ignores width, OS-filled masks read back, a different set compares unequal; non-trivial = ids in >= 2 words, two different widths, and an id beyond the narrower width",
        n,
        mask_case_strategy(),
        check_mask,
    );

    h.finish()
}
