//! C05 / C06 — thread-safe one-shot event under generated schedules.
//!
//! Case = storage strategy x sender script x receiver script x schedule bytes. Sender and
//! receiver run as two tasks of the byte-driven scheduler (vsched); every atomic / fence / spin
//! of `events_once::core::sync` is a scheduling point and feeds the release/acquire model.
//! C05 oracle: outcome, payload hand-off exactly once, waker clone accounting, wake obligation.
//! C06 oracle: storage released exactly once, every access of the other endpoint happens-before
//! the release, no access after release, pools/lakes end empty.

#[global_allocator]
static ALLOC: p_events_once::PoisonOnFree = p_events_once::PoisonOnFree;

use std::future::Future;
use std::pin::Pin;
use std::sync::atomic::Ordering;
use std::sync::{Arc, Mutex};
use std::task::{Context, Poll};

use events_once::{
    BoxedReceiver, BoxedSender, Disconnected, EmbeddedEvent, Event, EventLake, EventPool, IntoValueError, PooledReceiver, PooledSender, RawEventLake, RawEventPool, RawPooledReceiver,
    RawPooledSender, RawReceiver, RawSender,
};
use p_events_once::{Ledger, Tracked, waker, waker_shared};
use proptest::prelude::*;
use serde::{Deserialize, Serialize};
use vcommon::{Ctx, Failure, Harness, Verdict};

#[derive(Debug, Clone, Copy, Serialize, Deserialize, PartialEq, Eq)]
enum RStep {
    /// poll with root waker number w (0..3)
    Poll(u8),
    IsReady,
    IntoValue,
    /// an explicit scheduling point between two operations
    Yield,
}

#[derive(Debug, Clone, Serialize, Deserialize)]
struct Case {
    /// 0 boxed, 1 embedded, 2 pooled, 3 raw-pooled, 4 lake, 5 raw-lake
    storage: u8,
    send: bool,
    sender_yields: u8,
    steps: Vec<RStep>,
    /// true: keep the receiver alive until both tasks are done (the harness then checks the wake
    /// obligation and the final outcome); false: drop it at the end of its script
    park: bool,
    /// wakers whose clones share one identity (will_wake true: "re-poll with the same waker")
    #[serde(default)]
    same_identity: bool,
    schedule: Vec<u8>,
}

fn case_strategy() -> impl Strategy<Value = Case> {
    let step = prop_oneof![
        6 => (0u8..3).prop_map(RStep::Poll),
        1 => Just(RStep::IsReady),
        2 => Just(RStep::IntoValue),
        1 => Just(RStep::Yield),
    ];
    let sched_byte = prop_oneof![5 => Just(0u8), 2 => 128u8..=255, 1 => 1u8..128];
    (0u8..6, prop::bool::weighted(0.65), 0u8..3, prop::collection::vec(step, 0..6), any::<bool>(), any::<bool>(), prop::collection::vec(sched_byte, 0..40)).prop_map(|(storage, send, sender_yields, steps, park, same_identity, schedule)| Case {
        storage,
        send,
        sender_yields,
        steps,
        park,
        same_identity,
        schedule,
    })
}

const STORAGE: [&str; 6] = ["boxed", "embedded", "pooled", "raw-pooled", "lake", "raw-lake"];

trait Snd: Send + 'static {
    fn send_value(self, v: Tracked);
}
trait Rcv: Future<Output = Result<Tracked, Disconnected>> + Unpin + Send + Sized + 'static {
    fn ready(&self) -> bool;
    fn value(self) -> Result<Tracked, IntoValueError<Self>>;
}

macro_rules! endpoints {
    ($s:ident, $r:ident) => {
        impl Snd for $s<Tracked> {
            fn send_value(self, v: Tracked) {
                self.send(v);
            }
        }
        impl Rcv for $r<Tracked> {
            fn ready(&self) -> bool {
                self.is_ready()
            }
            fn value(self) -> Result<Tracked, IntoValueError<Self>> {
                self.into_value()
            }
        }
    };
}
endpoints!(BoxedSender, BoxedReceiver);
endpoints!(RawSender, RawReceiver);
endpoints!(PooledSender, PooledReceiver);
endpoints!(RawPooledSender, RawPooledReceiver);

#[derive(Debug, Clone, PartialEq, Eq)]
enum Seen {
    Value(u64),
    /// the payload handed over was not alive any more
    DeadValue,
    Disconnected,
}

#[derive(Default)]
struct RecvLog {
    /// terminal outcome observed by the receiver task, if any
    outcome: Option<Seen>,
    /// waker id of the most recent poll that returned Pending (cleared by later non-pending)
    last_pending: Option<u8>,
    polls: u32,
    pending_polls: u32,
    repolls_new_waker: u32,
    repolls_same_waker: u32,
    into_value_pending: u32,
    is_ready_true_then_pending: bool,
    parked: bool,
}

const SENT: u64 = 0x5EED_CAFE;

fn observe(r: Result<Tracked, Disconnected>) -> Seen {
    match r {
        Ok(t) => match t.read() {
            Some(v) => Seen::Value(v),
            None => Seen::DeadValue,
        },
        Err(Disconnected) => Seen::Disconnected,
    }
}

struct ExecResult {
    out: vsched::Outcome,
    log: RecvLog,
    ledger: Arc<Ledger>,
    /// Some(len) for pool / lake storage after both endpoints are gone
    pool_len: Option<usize>,
    final_poll: Option<Seen>,
    final_poll_pending: bool,
}

/// Runs one case with concrete endpoint types. `keep` owns whatever backs the event storage and
/// reports the pool length at the end.
fn execute<S: Snd, R: Rcv>(case: &Case, make: impl FnOnce() -> (S, R, Box<dyn FnOnce() -> Option<usize> + Send>)) -> ExecResult {
    let ledger = Arc::new(Ledger::default());
    let log = Arc::new(Mutex::new(RecvLog::default()));
    let parked: Arc<Mutex<Option<R>>> = Arc::new(Mutex::new(None));
    let finish: Arc<Mutex<Option<Box<dyn FnOnce() -> Option<usize> + Send>>>> = Arc::new(Mutex::new(None));
    let cfg = vsched::Config::default();
    let final_state: Arc<Mutex<(Option<Seen>, bool, Option<usize>)>> = Arc::new(Mutex::new((None, false, None)));
    let out = {
        let ledger = Arc::clone(&ledger);
        let log = Arc::clone(&log);
        let parked = Arc::clone(&parked);
        let parked2 = Arc::clone(&parked);
        let finish = Arc::clone(&finish);
        let finish2 = Arc::clone(&finish);
        let final2 = Arc::clone(&final_state);
        let ledger_f = Arc::clone(&ledger);
        let case = case.clone();
        vsched::run_with_finale(
            &case.schedule.clone(),
            &cfg,
            move || {
                let (s, r, fin) = make();
                *finish.lock().unwrap() = Some(fin);
                let l1 = Arc::clone(&ledger);
                let c1 = case.clone();
                let sender: vsched::TaskFn = Box::new(move || {
                    for _ in 0..c1.sender_yields {
                        vsched::yield_point();
                    }
                    if c1.send {
                        let v = Tracked::new(SENT, &l1, true);
                        s.send_value(v);
                    } else {
                        drop(s);
                    }
                });
                let l2 = Arc::clone(&ledger);
                let receiver: vsched::TaskFn = Box::new(move || {
                    let lg = receiver_task(&case, r, &l2, &parked);
                    *log.lock().unwrap() = lg;
                });
                vec![sender, receiver]
            },
            move || {
                // quiescence: both tasks are joined; the main thread is ordered after everything
                let mut fs = (None, false, None);
                if let Some(mut rx) = parked2.lock().unwrap().take() {
                    let wk = waker(7, &ledger_f, false, None);
                    let mut cx = Context::from_waker(&wk);
                    match Pin::new(&mut rx).poll(&mut cx) {
                        Poll::Ready(res) => fs.0 = Some(observe(res)),
                        Poll::Pending => fs.1 = true,
                    }
                    drop(rx);
                }
                fs.2 = finish2.lock().unwrap().take().and_then(|f| f());
                *final2.lock().unwrap() = fs;
            },
        )
    };
    let log = std::mem::take(&mut *log.lock().unwrap());
    let (final_poll, final_poll_pending, pool_len) = std::mem::take(&mut *final_state.lock().unwrap());
    ExecResult {
        out,
        log,
        ledger,
        pool_len,
        final_poll,
        final_poll_pending,
    }
}

fn receiver_task<R: Rcv>(case: &Case, r: R, l2: &Arc<Ledger>, parked: &Arc<Mutex<Option<R>>>) -> RecvLog {
    let mut r = Some(r);
    let mut lg = RecvLog::default();
    let mut last_waker: Option<u8> = None;
    let mut saw_ready = false;
    // one root waker per id for the whole script: polling twice with id w is a re-poll with the
    // same waker (will_wake true in the shared-identity flavour)
    let mut roots: Vec<Option<std::task::Waker>> = vec![None, None, None];
    for st in &case.steps {
        let Some(rx) = r.as_mut() else { break };
        match st {
            RStep::Yield => vsched::yield_point(),
            RStep::IsReady => {
                if rx.ready() {
                    saw_ready = true;
                }
            }
            RStep::Poll(w) => {
                let slot = &mut roots[usize::from(*w) % 3];
                if slot.is_none() {
                    *slot = Some(if case.same_identity { waker_shared(usize::from(*w), l2, None) } else { waker(usize::from(*w), l2, true, None) });
                }
                let wk = slot.as_ref().expect("just set").clone();
                let mut cx = Context::from_waker(&wk);
                lg.polls += 1;
                if last_waker == Some(*w) && lg.last_pending.is_some() {
                    lg.repolls_same_waker += 1;
                }
                if last_waker.is_some() && last_waker != Some(*w) && lg.last_pending.is_some() {
                    lg.repolls_new_waker += 1;
                }
                last_waker = Some(*w);
                match Pin::new(rx).poll(&mut cx) {
                    Poll::Ready(res) => {
                        lg.outcome = Some(observe(res));
                        lg.last_pending = None;
                        r = None; // completed receivers must not be polled again
                    }
                    Poll::Pending => {
                        lg.pending_polls += 1;
                        lg.last_pending = Some(*w);
                        if saw_ready {
                            lg.is_ready_true_then_pending = true;
                        }
                    }
                }
            }
            RStep::IntoValue => {
                let rx = r.take().expect("present");
                match rx.value() {
                    Ok(t) => {
                        lg.outcome = Some(observe(Ok(t)));
                        lg.last_pending = None;
                    }
                    Err(IntoValueError::Disconnected) => {
                        lg.outcome = Some(Seen::Disconnected);
                        lg.last_pending = None;
                    }
                    Err(IntoValueError::Pending(back)) => {
                        lg.into_value_pending += 1;
                        if saw_ready {
                            lg.is_ready_true_then_pending = true;
                        }
                        r = Some(back);
                    }
                }
            }
        }
    }
    if let Some(rx) = r.take() {
        if case.park {
            lg.parked = true;
            *parked.lock().unwrap() = Some(rx);
        } else {
            lg.last_pending = None;
            drop(rx);
        }
    }
    lg
}

fn run_storage(case: &Case) -> ExecResult {
    match case.storage % 6 {
        0 => execute::<BoxedSender<Tracked>, BoxedReceiver<Tracked>>(case, || {
            let (s, r) = Event::<Tracked>::boxed();
            (s, r, Box::new(|| None))
        }),
        1 => execute::<RawSender<Tracked>, RawReceiver<Tracked>>(case, || {
            let mut place = Box::pin(EmbeddedEvent::<Tracked>::new());
            // SAFETY: `place` stays pinned and alive until both endpoints are gone (it is dropped
            // by the closure below, which runs after quiescence).
            let (s, r) = unsafe { Event::placed(place.as_mut()) };
            struct SendBox(Pin<Box<EmbeddedEvent<Tracked>>>);
            // SAFETY: only moved to the main thread and dropped there after both endpoints ended.
            unsafe impl Send for SendBox {}
            let keep = SendBox(place);
            (
                s,
                r,
                Box::new(move || {
                    drop(keep);
                    None
                }),
            )
        }),
        2 => execute::<PooledSender<Tracked>, PooledReceiver<Tracked>>(case, || {
            let pool = EventPool::<Tracked>::new();
            let (s, r) = pool.rent();
            (s, r, Box::new(move || Some(pool.len())))
        }),
        3 => execute::<RawPooledSender<Tracked>, RawPooledReceiver<Tracked>>(case, || {
            let pool = Box::pin(RawEventPool::<Tracked>::new());
            // SAFETY: the pool outlives both endpoints (dropped after quiescence).
            let (s, r) = unsafe { pool.as_ref().rent() };
            struct SendPool(Pin<Box<RawEventPool<Tracked>>>);
            // SAFETY: only moved to the main thread and used there after both endpoints ended.
            unsafe impl Send for SendPool {}
            let keep = SendPool(pool);
            (s, r, Box::new(move || Some(keep.0.len())))
        }),
        4 => execute::<PooledSender<Tracked>, PooledReceiver<Tracked>>(case, || {
            let lake = EventLake::new();
            let (s, r) = lake.rent::<Tracked>();
            (s, r, Box::new(move || Some(lake.len())))
        }),
        _ => execute::<RawPooledSender<Tracked>, RawPooledReceiver<Tracked>>(case, || {
            let lake = RawEventLake::new();
            // SAFETY: the lake outlives both endpoints (dropped after quiescence).
            let (s, r) = unsafe { lake.rent::<Tracked>() };
            struct SendLake(RawEventLake);
            // SAFETY: only moved to the main thread and used there after both endpoints ended.
            unsafe impl Send for SendLake {}
            let keep = SendLake(lake);
            (s, r, Box::new(move || Some(keep.0.len())))
        }),
    }
}

fn check(case: &Case, ctx: &mut Ctx, property: &str) -> Verdict {
    let storage = STORAGE[usize::from(case.storage % 6)];
    let res = run_storage(case);
    let out = &res.out;
    let lg = &res.log;
    let led = &res.ledger;
    let f = |p: &str, kind: &str, msg: String| Failure::new(format!("{p}/{storage}/{kind}"), format!("{msg}; case: send={} steps={:?} park={} schedule={:?}", case.send, case.steps, case.park, case.schedule));

    ctx.classify(&format!("storage:{storage}"));
    ctx.classify(if case.send { "sender:send" } else { "sender:drop" });
    if out.preemptions > 0 {
        ctx.classify("preempted");
    }
    if out.stale_taken > 0 {
        ctx.classify("stale-load-taken");
    }
    if lg.pending_polls > 0 {
        ctx.classify("poll-pending");
    }
    if lg.repolls_new_waker > 0 {
        ctx.classify("re-poll-new-waker");
    }
    if lg.repolls_same_waker > 0 {
        ctx.classify(if case.same_identity { "re-poll-same-waker(will_wake)" } else { "re-poll-same-id-distinct-clone" });
    }
    if lg.into_value_pending > 0 {
        ctx.classify("into_value-pending");
    }
    if lg.parked {
        ctx.classify("receiver-parked");
    }

    if out.hung {
        return Err(f(property, "hang", format!("execution exceeded {} scheduling points and did not finish when left running freely", out.steps)));
    }
    if out.step_bound_hit {
        ctx.classify("inconclusive-step-bound");
        return Ok(());
    }
    if let Some((t, msg)) = out.panics.first() {
        return Err(f(property, "panic", format!("task {t} ({}) panicked: {msg}", if *t == 0 { "sender" } else { "receiver" })));
    }

    // ---------------- C05: outcome
    let outcomes: Vec<&Seen> = lg.outcome.iter().chain(res.final_poll.iter()).collect();
    if outcomes.len() > 1 {
        return Err(f("C05", "outcome/two-terminal-outcomes", format!("receiver completed twice: {outcomes:?}")));
    }
    for o in &outcomes {
        match o {
            Seen::Value(v) => {
                if !case.send {
                    return Err(f("C05", "outcome/value-without-send", format!("receiver got value {v:#x} but the sender was dropped unsent")));
                }
                if *v != SENT {
                    return Err(f("C05", "outcome/wrong-value", format!("receiver got {v:#x}, sent {SENT:#x}")));
                }
            }
            Seen::DeadValue => return Err(f("C05", "payload/handed-over-after-destruction", "receiver was handed a payload that had already been destroyed".into())),
            Seen::Disconnected => {
                if case.send {
                    return Err(f("C05", "outcome/disconnected-despite-send", "receiver got Disconnected although the sender sent a value".into()));
                }
            }
        }
    }
    if res.final_poll_pending {
        return Err(f("C05", "outcome/pending-after-sender-completed", "a poll after both tasks finished (ordered after the sender's operation) still returned Pending".into()));
    }
    // payload accounting at quiescence (everything handed over has been dropped by the harness)
    let created = led.payload_created.load(Ordering::Relaxed);
    let dropped = led.payload_dropped.load(Ordering::Relaxed);
    if led.payload_dropped_twice.load(Ordering::Relaxed) > 0 {
        return Err(f("C05", "payload/destroyed-twice", "the payload's destructor ran twice".into()));
    }
    if dropped != created {
        return Err(f("C05", if dropped < created { "payload/leaked" } else { "payload/destroyed-twice" }, format!("{created} payload(s) created, {dropped} destroyed after both endpoints are gone (receiver outcome {outcomes:?})")));
    }
    // waker accounting
    let clones = led.waker_clones.load(Ordering::Relaxed);
    let consumed = led.waker_consumed.load(Ordering::Relaxed);
    if led.waker_double_consume.load(Ordering::Relaxed) > 0 {
        return Err(f("C05", "waker/used-after-consumed", "a waker clone was woken / dropped / cloned after it had been consumed".into()));
    }
    if clones != consumed {
        return Err(f("C05", "waker/clone-leaked", format!("{clones} waker clones made, {consumed} consumed (woken or dropped) after both endpoints are gone")));
    }
    // wake obligation: the receiver stayed parked on a pending poll with waker w; the sender's
    // send / drop completed afterwards (it always completes) => w was woken
    if lg.parked {
        if let Some(w) = lg.last_pending {
            let wakes = led.wakes[usize::from(w)].load(Ordering::Relaxed);
            if wakes == 0 {
                return Err(f("C05", "wake/lost", format!("receiver's latest poll returned Pending with waker {w}; the sender then {} but that waker was never woken", if case.send { "sent" } else { "was dropped" })));
            }
        }
    }
    // races on the payload / waker clones are C05 (hand-off), on the storage C06
    for r in &out.races {
        let p = if r.object == "payload" || r.object == "waker clone" { "C05" } else { "C06" };
        return Err(f(p, &format!("race/{}", r.object.replace(' ', "-")), format!("unordered conflicting accesses to the {}: task {} {} vs task {} {}", r.object, r.first_task, r.first, r.second_task, r.second)));
    }

    // ---------------- C06: storage release
    if out.releases.len() != 1 {
        return Err(f("C06", if out.releases.is_empty() { "release/never" } else { "release/more-than-once" }, format!("event storage released {} times ({:?})", out.releases.len(), out.releases.iter().map(|r| r.task).collect::<Vec<_>>())));
    }
    let rel = &out.releases[0];
    if !rel.unordered_with.is_empty() {
        let who = if rel.task == 0 {
            "sender"
        } else if rel.task == 1 {
            "receiver"
        } else {
            "harness"
        };
        return Err(f("C06", &format!("release/not-ordered-after-other-endpoint/by-{who}"), format!("{who} released the event storage although accesses of task(s) {:?} to it do not happen-before the release", rel.unordered_with)));
    }
    if let Some(n) = res.pool_len {
        if n != 0 {
            return Err(f("C06", "pool/not-empty-after-both-endpoints-gone", format!("pool/lake reports len {n} after both endpoints are gone")));
        }
    }

    // non-trivial rules
    let interleaved = out.switches >= 2 && lg.polls > 0;
    if property == "C05" {
        if interleaved && out.preemptions > 0 {
            ctx.nontrivial();
        }
    } else {
        // the releasing endpoint is the one that acted second: approximated by "the releaser is
        // not the task that finished first" - measured as: at least one pre-emption and a poll
        if interleaved {
            ctx.nontrivial();
        }
        ctx.classify(match rel.task {
            0 => "released-by:sender",
            1 => "released-by:receiver",
            _ => "released-by:harness(parked receiver)",
        });
    }
    res.ledger.free_wakers();
    Ok(())
}

// ------------------------------------------------------------------------------------------------
// section `traffic`: several events of one shared pool / lake in flight, endpoints spread over tasks

#[derive(Debug, Clone, Copy, Serialize, Deserialize, PartialEq, Eq)]
enum TStep {
    /// act on the sender of event e (if this task holds it): send / drop
    Send { e: u8 },
    DropSender { e: u8 },
    Poll { e: u8, w: u8 },
    IntoValue { e: u8 },
    DropReceiver { e: u8 },
    /// rent a fresh event from the shared pool on this task and keep both endpoints here
    Rent,
    Yield,
}

#[derive(Debug, Clone, Serialize, Deserialize)]
struct TCase {
    /// false = EventPool, true = EventLake
    lake: bool,
    /// per pre-rented event: (task holding the sender, task holding the receiver)
    events: Vec<(u8, u8)>,
    tasks: Vec<Vec<TStep>>,
    schedule: Vec<u8>,
}

fn tcase_strategy() -> impl Strategy<Value = TCase> {
    let step = prop_oneof![
        4 => (0u8..6).prop_map(|e| TStep::Send { e }),
        2 => (0u8..6).prop_map(|e| TStep::DropSender { e }),
        5 => (0u8..6, 0u8..2).prop_map(|(e, w)| TStep::Poll { e, w }),
        1 => (0u8..6).prop_map(|e| TStep::IntoValue { e }),
        2 => (0u8..6).prop_map(|e| TStep::DropReceiver { e }),
        2 => Just(TStep::Rent),
        1 => Just(TStep::Yield),
    ];
    let sched_byte = prop_oneof![5 => Just(0u8), 3 => 128u8..=255, 1 => 1u8..128];
    (any::<bool>(), prop::collection::vec((0u8..3, 0u8..3), 1..4), prop::collection::vec(prop::collection::vec(step, 1..8), 2..4), prop::collection::vec(sched_byte, 0..60)).prop_map(|(lake, events, tasks, schedule)| TCase { lake, events, tasks, schedule })
}

#[derive(Default)]
struct EvLog {
    sent: bool,
    sender_dropped_unsent: bool,
    outcomes: Vec<Seen>,
}

fn check_traffic(case: &TCase, ctx: &mut Ctx, property: &str) -> Verdict {
    let kind = if case.lake { "lake" } else { "pooled" };
    let f = |p: &str, k: &str, msg: String| Failure::new(format!("{p}/{kind}/traffic/{k}"), format!("{msg}; case={case:?}"));
    let ledger = Arc::new(Ledger::default());
    let ntasks = case.tasks.len();
    let logs: Arc<Mutex<Vec<EvLog>>> = Arc::new(Mutex::new(Vec::new()));
    let rents = Arc::new(std::sync::atomic::AtomicU32::new(0));
    let leftovers: Arc<Mutex<Vec<(usize, PooledReceiver<Tracked>)>>> = Arc::new(Mutex::new(Vec::new()));
    let pool_len: Arc<Mutex<Option<usize>>> = Arc::new(Mutex::new(None));
    enum Shared {
        Pool(EventPool<Tracked>),
        Lake(EventLake),
    }
    impl Shared {
        fn rent(&self) -> (PooledSender<Tracked>, PooledReceiver<Tracked>) {
            match self {
                Shared::Pool(p) => p.rent(),
                Shared::Lake(l) => l.rent::<Tracked>(),
            }
        }
        fn len(&self) -> usize {
            match self {
                Shared::Pool(p) => p.len(),
                Shared::Lake(l) => l.len(),
            }
        }
    }
    let cfg = vsched::Config::default();
    let out = {
        let ledger1 = Arc::clone(&ledger);
        let ledger_f = Arc::clone(&ledger);
        let logs1 = Arc::clone(&logs);
        let logs_f = Arc::clone(&logs);
        let rents1 = Arc::clone(&rents);
        let leftovers1 = Arc::clone(&leftovers);
        let leftovers_f = Arc::clone(&leftovers);
        let pool_len_f = Arc::clone(&pool_len);
        let case1 = case.clone();
        let shared_slot: Arc<Mutex<Option<Arc<Shared>>>> = Arc::new(Mutex::new(None));
        let shared_f = Arc::clone(&shared_slot);
        vsched::run_with_finale(
            &case.schedule,
            &cfg,
            move || {
                let shared = Arc::new(if case1.lake { Shared::Lake(EventLake::new()) } else { Shared::Pool(EventPool::new()) });
                *shared_slot.lock().unwrap() = Some(Arc::clone(&shared));
                let mut senders: Vec<Vec<(usize, PooledSender<Tracked>)>> = (0..ntasks).map(|_| Vec::new()).collect();
                let mut receivers: Vec<Vec<(usize, PooledReceiver<Tracked>)>> = (0..ntasks).map(|_| Vec::new()).collect();
                for (i, (st, rt)) in case1.events.iter().enumerate() {
                    let (s, r) = shared.rent();
                    rents1.fetch_add(1, Ordering::SeqCst);
                    logs1.lock().unwrap().push(EvLog::default());
                    senders[usize::from(*st) % ntasks].push((i, s));
                    receivers[usize::from(*rt) % ntasks].push((i, r));
                }
                let mut v: Vec<vsched::TaskFn> = Vec::new();
                for (ti, script) in case1.tasks.iter().enumerate() {
                    let mut my_s = std::mem::take(&mut senders[ti]);
                    let mut my_r = std::mem::take(&mut receivers[ti]);
                    let script = script.clone();
                    let shared = Arc::clone(&shared);
                    let ledger = Arc::clone(&ledger1);
                    let logs = Arc::clone(&logs1);
                    let rents = Arc::clone(&rents1);
                    let leftovers = Arc::clone(&leftovers1);
                    v.push(Box::new(move || {
                        for st in &script {
                            match *st {
                                TStep::Yield => vsched::yield_point(),
                                TStep::Rent => {
                                    let (s, r) = shared.rent();
                                    rents.fetch_add(1, Ordering::SeqCst);
                                    let id = {
                                        let mut l = logs.lock().unwrap();
                                        l.push(EvLog::default());
                                        l.len() - 1
                                    };
                                    my_s.push((id, s));
                                    my_r.push((id, r));
                                }
                                TStep::Send { e } | TStep::DropSender { e } if !my_s.is_empty() => {
                                    let i = usize::from(e) % my_s.len();
                                    let (id, s) = my_s.swap_remove(i);
                                    if matches!(st, TStep::Send { .. }) {
                                        logs.lock().unwrap()[id].sent = true;
                                        s.send(Tracked::new(SENT + id as u64, &ledger, true));
                                    } else {
                                        logs.lock().unwrap()[id].sender_dropped_unsent = true;
                                        drop(s);
                                    }
                                }
                                TStep::Poll { e, w } if !my_r.is_empty() => {
                                    let i = usize::from(e) % my_r.len();
                                    let wk = waker(usize::from(w), &ledger, true, None);
                                    let mut cx = Context::from_waker(&wk);
                                    let res = Pin::new(&mut my_r[i].1).poll(&mut cx);
                                    if let Poll::Ready(r) = res {
                                        let (id, rx) = my_r.swap_remove(i);
                                        drop(rx);
                                        logs.lock().unwrap()[id].outcomes.push(observe_id(r, id));
                                    }
                                }
                                TStep::IntoValue { e } if !my_r.is_empty() => {
                                    let i = usize::from(e) % my_r.len();
                                    let (id, rx) = my_r.swap_remove(i);
                                    match rx.into_value() {
                                        Ok(t) => logs.lock().unwrap()[id].outcomes.push(observe_id(Ok(t), id)),
                                        Err(IntoValueError::Disconnected) => logs.lock().unwrap()[id].outcomes.push(Seen::Disconnected),
                                        Err(IntoValueError::Pending(back)) => my_r.push((id, back)),
                                    }
                                }
                                TStep::DropReceiver { e } if !my_r.is_empty() => {
                                    let i = usize::from(e) % my_r.len();
                                    let (_, rx) = my_r.swap_remove(i);
                                    drop(rx);
                                }
                                _ => {}
                            }
                        }
                        // senders still held are dropped here; receivers are parked for the finale
                        for (id, s) in my_s {
                            logs.lock().unwrap()[id].sender_dropped_unsent = true;
                            drop(s);
                        }
                        leftovers.lock().unwrap().extend(my_r);
                    }));
                }
                v
            },
            move || {
                let parked = std::mem::take(&mut *leftovers_f.lock().unwrap());
                for (id, mut rx) in parked {
                    let wk = waker(7, &ledger_f, false, None);
                    let mut cx = Context::from_waker(&wk);
                    match Pin::new(&mut rx).poll(&mut cx) {
                        Poll::Ready(r) => logs_f.lock().unwrap()[id].outcomes.push(observe_id(r, id)),
                        Poll::Pending => logs_f.lock().unwrap()[id].outcomes.push(Seen::DeadValue),
                    }
                    drop(rx);
                }
                if let Some(sh) = shared_f.lock().unwrap().take() {
                    *pool_len_f.lock().unwrap() = Some(sh.len());
                }
            },
        )
    };
    ctx.classify(&format!("traffic:{kind}"));
    ctx.classify(&format!("tasks:{ntasks}"));
    if out.hung {
        return Err(f(property, "hang", "execution did not finish".into()));
    }
    if out.step_bound_hit {
        ctx.classify("inconclusive-step-bound");
        return Ok(());
    }
    if let Some((t, m)) = out.panics.first() {
        return Err(f(property, "panic", format!("task {t} panicked: {m}")));
    }
    let nrents = rents.load(Ordering::SeqCst) as usize;
    if nrents > case.events.len() {
        ctx.classify("rented-while-others-in-flight");
    }
    let cross = case.events.iter().filter(|(a, b)| usize::from(*a) % ntasks != usize::from(*b) % ntasks).count();
    if cross >= 2 && out.preemptions > 0 {
        ctx.nontrivial();
    }
    // C05 per event
    for (id, l) in logs.lock().unwrap().iter().enumerate() {
        if l.outcomes.len() > 1 {
            return Err(f("C05", "outcome/two-terminal-outcomes", format!("event {id}: {:?}", l.outcomes)));
        }
        for o in &l.outcomes {
            match o {
                Seen::Value(v) => {
                    if !l.sent || *v != SENT + id as u64 {
                        return Err(f("C05", "outcome/wrong-or-foreign-value", format!("event {id} delivered {v:#x} (sent here: {})", l.sent)));
                    }
                }
                Seen::DeadValue => return Err(f("C05", "outcome/pending-after-sender-completed-or-dead-payload", format!("event {id}: final poll still pending, or a destroyed payload was handed over"))),
                Seen::Disconnected => {
                    if l.sent || !l.sender_dropped_unsent {
                        return Err(f("C05", "outcome/disconnected-despite-send", format!("event {id} reported Disconnected (sent={}, sender dropped unsent={})", l.sent, l.sender_dropped_unsent)));
                    }
                }
            }
        }
    }
    let created = ledger.payload_created.load(Ordering::Relaxed);
    let dropped = ledger.payload_dropped.load(Ordering::Relaxed);
    if ledger.payload_dropped_twice.load(Ordering::Relaxed) > 0 || created != dropped {
        return Err(f("C05", "payload/not-destroyed-exactly-once", format!("{created} payloads created, {dropped} destroyed after all endpoints are gone")));
    }
    let clones = ledger.waker_clones.load(Ordering::Relaxed);
    let consumed = ledger.waker_consumed.load(Ordering::Relaxed);
    if ledger.waker_double_consume.load(Ordering::Relaxed) > 0 || clones != consumed {
        return Err(f("C05", "waker/clone-not-consumed-exactly-once", format!("{clones} waker clones, {consumed} consumed")));
    }
    for r in &out.races {
        let p = if r.object == "payload" || r.object == "waker clone" { "C05" } else { "C06" };
        return Err(f(p, &format!("race/{}", r.object.replace(' ', "-")), format!("task {} {} vs task {} {}", r.first_task, r.first, r.second_task, r.second)));
    }
    // C06
    if out.releases.len() != nrents {
        return Err(f("C06", "release/count-differs-from-rentals", format!("{nrents} events rented, {} storage releases", out.releases.len())));
    }
    if let Some(r) = out.releases.iter().find(|r| !r.unordered_with.is_empty()) {
        return Err(f("C06", "release/not-ordered-after-other-endpoint", format!("task {} released an event although accesses of task(s) {:?} do not happen-before the release", r.task, r.unordered_with)));
    }
    if let Some(n) = *pool_len.lock().unwrap() {
        if n != 0 {
            return Err(f("C06", "pool/not-empty-after-all-endpoints-gone", format!("len() = {n} after every endpoint is gone ({nrents} rentals)")));
        }
    }
    ledger.free_wakers();
    Ok(())
}

fn observe_id(r: Result<Tracked, Disconnected>, _id: usize) -> Seen {
    match r {
        Ok(t) => match t.read() {
            Some(v) => Seen::Value(v),
            None => Seen::DeadValue,
        },
        Err(Disconnected) => Seen::Disconnected,
    }
}

fn main() {
    vsched::install_shim!(events_once);
    events_once::__verif::install_release_hook(Some(vsched::hook_release));
    let mut h = Harness::from_args("C05");
    let prop = h.property.clone();
    let cases = h.cases(400_000, 24_000_000);
    let rule = if prop == "C05" {
        "generated program (storage in {boxed, embedded, pooled, raw-pooled, lake, raw-lake}, sender {send|drop} after 0..2 yields, receiver script of 0..5 steps over {poll(waker 0..2), is_ready, into_value, yield}, parked or dropped at the end) x generated schedule bytes (pre-emption at every atomic/fence/spin, stale loads allowed by coherence); oracle: outcome matches what the sender did, payload created==destroyed and handed over alive at most once, waker clones all consumed exactly once, parked receiver's latest pending waker woken, final poll after quiescence is terminal. non-trivial = execution with >= 1 pre-emption, >= 2 context switches and a poll in the receiver script; distinct by serialised case"
    } else {
        "same executions; oracle: exactly one release_event per event (hook H4), every earlier atomic access of the other task to the event storage happens-before the release in the vector-clock model, no HB race on harness-owned cells, pool/lake len()==0 after both endpoints are gone. non-trivial = execution with >= 2 context switches and a poll; distinct by serialised case"
    };
    h.section("two-endpoint", rule, cases, case_strategy(), |case, ctx| check(case, ctx, &prop));
    let cases = h.cases(150_000, 8_000_000);
    h.section(
        "traffic",
        "1..3 events rented up front from one shared EventPool / EventLake plus events rented mid-run, their senders and receivers spread over 2..3 tasks (send, drop sender, poll with waker 0|1, into_value, drop receiver; leftover receivers are polled by the harness after quiescence), under generated schedule bytes. Oracle per event as in `two-endpoint` (outcome, payload exactly once, waker clones), storage releases == rentals with every release ordered after the other endpoint's accesses, pool / lake len() == 0 at the end. non-trivial = >= 2 events whose endpoints live on different tasks and >= 1 pre-emption; distinct by serialised case",
        cases,
        tcase_strategy(),
        |case, ctx| check_traffic(case, ctx, &prop),
    );
    h.finish()
}
