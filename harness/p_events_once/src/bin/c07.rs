//! C07 — single-threaded one-shot event under re-entrant waker callbacks.
//!
//! Case = storage x top-level endpoint program x a list of callback actions. Every waker clone /
//! wake / drop callback consumes the next action and, if the endpoint it names is not the one
//! currently executing (and still exists), performs it - sending, dropping the sender, polling
//! the receiver (possibly to completion), into_value, dropping the receiver - re-entering the
//! very event that invoked the callback, up to nesting depth 3.
//! Oracle: C05 outcome / payload / waker accounting, exactly one storage release (hook H4), no
//! write to embedded storage after the release, no panic inside the library.

#[global_allocator]
static ALLOC: p_events_once::PoisonOnFree = p_events_once::PoisonOnFree;

use std::cell::{Cell, RefCell};
use std::future::Future;
use std::pin::Pin;
use std::rc::Rc;
use std::sync::Arc;
use std::sync::atomic::Ordering;
use std::task::{Context, Poll};

use events_once::{
    BoxedLocalReceiver, BoxedLocalSender, Disconnected, EmbeddedLocalEvent, IntoValueError, LocalEvent, LocalEventLake, LocalEventPool, PooledLocalReceiver, PooledLocalSender,
    RawLocalEventLake, RawLocalEventPool, RawLocalPooledReceiver, RawLocalPooledSender, RawLocalReceiver, RawLocalSender,
};
use p_events_once::{Ledger, Tracked, WakerCallback, WakerEvent, waker, waker_shared};
use proptest::prelude::*;
use serde::{Deserialize, Serialize};
use vcommon::{Ctx, Failure, Harness, Verdict};

#[derive(Debug, Clone, Copy, Serialize, Deserialize, PartialEq, Eq)]
enum Act {
    Nothing,
    Send,
    DropSender,
    Poll(u8),
    IsReady,
    IntoValue,
    DropReceiver,
}

#[derive(Debug, Clone, Serialize, Deserialize)]
struct Case {
    /// 0 boxed, 1 embedded, 2 pooled, 3 raw-pooled, 4 lake, 5 raw-lake
    storage: u8,
    program: Vec<Act>,
    callbacks: Vec<Act>,
    /// wakers whose clones share one identity (will_wake true between polls with the same id)
    #[serde(default)]
    same_identity: bool,
}

fn act_strategy(top: bool) -> impl Strategy<Value = Act> {
    prop_oneof![
        if top { 0 } else { 3 } => Just(Act::Nothing),
        3 => Just(Act::Send),
        2 => Just(Act::DropSender),
        5 => (0u8..3).prop_map(Act::Poll),
        1 => Just(Act::IsReady),
        2 => Just(Act::IntoValue),
        2 => Just(Act::DropReceiver),
    ]
}

fn case_strategy() -> impl Strategy<Value = Case> {
    (0u8..6, prop::collection::vec(act_strategy(true), 0..7), prop::collection::vec(act_strategy(false), 0..8), any::<bool>()).prop_map(|(storage, program, callbacks, same_identity)| Case {
        storage,
        program,
        callbacks,
        same_identity,
    })
}

const STORAGE: [&str; 6] = ["boxed", "embedded", "pooled", "raw-pooled", "lake", "raw-lake"];
const SENT: u64 = 0xC0FFEE;

trait Snd: 'static {
    fn send_value(self, v: Tracked);
}
trait Rcv: Future<Output = Result<Tracked, Disconnected>> + Unpin + Sized + 'static {
    fn ready(&self) -> bool;
    fn value(self) -> Result<Tracked, IntoValueError<Self>>;
}
macro_rules! endpoints {
    ($s:ident, $r:ident) => {
        impl Snd for $s<Tracked> {
            fn send_value(self, v: Tracked) {
                self.send(v);
            }
        }
        impl Rcv for $r<Tracked> {
            fn ready(&self) -> bool {
                self.is_ready()
            }
            fn value(self) -> Result<Tracked, IntoValueError<Self>> {
                self.into_value()
            }
        }
    };
}
endpoints!(BoxedLocalSender, BoxedLocalReceiver);
endpoints!(RawLocalSender, RawLocalReceiver);
endpoints!(PooledLocalSender, PooledLocalReceiver);
endpoints!(RawLocalPooledSender, RawLocalPooledReceiver);

#[derive(Debug, Clone, PartialEq, Eq)]
enum Seen {
    Value(u64),
    DeadValue,
    Disconnected,
}

#[derive(Default)]
struct Log {
    outcomes: Vec<Seen>,
    sent: bool,
    sender_dropped_unsent: bool,
    callback_ops: u32,
    max_depth: u32,
    inapplicable: u32,
    releases: u32,
    /// embedded storage: bytes right after the operation that released it returned
    snapshot: Option<Vec<u8>>,
    last_pending_waker: Option<u8>,
    receiver_gone: bool,
    lost_wake: Option<u8>,
    probes_ok: u32,
    probe_failure: Option<String>,
}

trait WorldDyn {
    fn callback(&self, ev: WakerEvent, id: usize);
    fn on_release(&self, addr: usize, size: usize);
}

struct World<S: Snd, R: Rcv> {
    sender: RefCell<Option<S>>,
    receiver: RefCell<Option<R>>,
    receiver_busy: Cell<bool>,
    callbacks: RefCell<std::vec::IntoIter<Act>>,
    depth: Cell<u32>,
    ledger: Arc<Ledger>,
    log: RefCell<Log>,
    released_now: Cell<bool>,
    reuse: Option<Rc<dyn Fn(&Arc<Ledger>) -> ProbeCheck>>,
    probes: RefCell<Vec<ProbeCheck>>,
    /// (address, length) of embedded storage, if the harness owns it
    embedded: Cell<Option<(usize, usize)>>,
    self_cb: RefCell<Option<WakerCallback>>,
    same_identity: bool,
    roots: RefCell<Vec<Option<std::task::Waker>>>,
}

thread_local! {
    static WORLD: RefCell<Option<Rc<dyn WorldDyn>>> = const { RefCell::new(None) };
}

fn release_hook(addr: usize, size: usize) {
    let w = WORLD.with(|w| w.borrow().clone());
    if let Some(w) = w {
        w.on_release(addr, size);
    }
}

impl<S: Snd, R: Rcv> World<S, R> {
    fn observe(&self, r: Result<Tracked, Disconnected>) {
        let seen = match r {
            Ok(t) => match t.read() {
                Some(v) => Seen::Value(v),
                None => Seen::DeadValue,
            },
            Err(Disconnected) => Seen::Disconnected,
        };
        self.log.borrow_mut().outcomes.push(seen);
    }

    /// Performs one endpoint operation if it is applicable right now. Returns whether it ran.
    fn perform(&self, act: Act) -> bool {
        // wake obligation (C05 guarantee carried over): the receiver's most recent poll returned
        // Pending with waker w and the receiver is idle; a send / sender drop that completes now
        // must wake w
        let obligation = match act {
            Act::Send | Act::DropSender if self.sender.borrow().is_some() && !self.receiver_busy.get() && self.receiver.borrow().is_some() => {
                self.log.borrow().last_pending_waker.map(|w| (w, self.ledger.wakes[usize::from(w)].load(Ordering::Relaxed)))
            }
            _ => None,
        };
        let ran = self.perform_inner(act);
        if let Some((w, before)) = obligation {
            if ran && self.ledger.wakes[usize::from(w)].load(Ordering::Relaxed) == before {
                self.log.borrow_mut().lost_wake = Some(w);
            }
        }
        ran
    }

    fn perform_inner(&self, act: Act) -> bool {
        let ran = match act {
            Act::Nothing => false,
            Act::Send => {
                let s = self.sender.borrow_mut().take();
                match s {
                    Some(s) => {
                        self.log.borrow_mut().sent = true;
                        s.send_value(Tracked::new(SENT, &self.ledger, false));
                        true
                    }
                    None => false,
                }
            }
            Act::DropSender => {
                let s = self.sender.borrow_mut().take();
                match s {
                    Some(s) => {
                        self.log.borrow_mut().sender_dropped_unsent = true;
                        drop(s);
                        true
                    }
                    None => false,
                }
            }
            Act::Poll(w) => {
                if self.receiver_busy.get() {
                    false
                } else {
                    let r = self.receiver.borrow_mut().take();
                    match r {
                        Some(mut r) => {
                            self.receiver_busy.set(true);
                            let cb = self.self_cb.borrow().clone();
                            let wk = if self.same_identity {
                                let existing = self.roots.borrow()[usize::from(w) % 3].clone();
                                match existing {
                                    Some(r) => r,
                                    None => {
                                        let r = waker_shared(usize::from(w), &self.ledger, cb);
                                        self.roots.borrow_mut()[usize::from(w) % 3] = Some(r.clone());
                                        r
                                    }
                                }
                            } else {
                                waker(usize::from(w), &self.ledger, false, cb)
                            };
                            let mut cx = Context::from_waker(&wk);
                            let res = Pin::new(&mut r).poll(&mut cx);
                            self.receiver_busy.set(false);
                            match res {
                                Poll::Ready(v) => {
                                    self.observe(v);
                                    self.log.borrow_mut().last_pending_waker = None;
                                    self.log.borrow_mut().receiver_gone = true;
                                    drop(r);
                                }
                                Poll::Pending => {
                                    self.log.borrow_mut().last_pending_waker = Some(w);
                                    *self.receiver.borrow_mut() = Some(r);
                                }
                            }
                            drop(wk);
                            true
                        }
                        None => false,
                    }
                }
            }
            Act::IsReady => {
                if self.receiver_busy.get() {
                    false
                } else {
                    let r = self.receiver.borrow();
                    match r.as_ref() {
                        Some(r) => {
                            let _ = r.ready();
                            true
                        }
                        None => false,
                    }
                }
            }
            Act::IntoValue => {
                if self.receiver_busy.get() {
                    false
                } else {
                    let r = self.receiver.borrow_mut().take();
                    match r {
                        Some(r) => {
                            self.receiver_busy.set(true);
                            let res = r.value();
                            self.receiver_busy.set(false);
                            match res {
                                Ok(t) => {
                                    self.observe(Ok(t));
                                    let mut l = self.log.borrow_mut();
                                    l.last_pending_waker = None;
                                    l.receiver_gone = true;
                                }
                                Err(IntoValueError::Disconnected) => {
                                    self.observe(Err(Disconnected));
                                    let mut l = self.log.borrow_mut();
                                    l.last_pending_waker = None;
                                    l.receiver_gone = true;
                                }
                                Err(IntoValueError::Pending(back)) => {
                                    *self.receiver.borrow_mut() = Some(back);
                                }
                            }
                            true
                        }
                        None => false,
                    }
                }
            }
            Act::DropReceiver => {
                if self.receiver_busy.get() {
                    false
                } else {
                    let r = self.receiver.borrow_mut().take();
                    match r {
                        Some(r) => {
                            self.receiver_busy.set(true);
                            drop(r);
                            self.receiver_busy.set(false);
                            let mut l = self.log.borrow_mut();
                            l.last_pending_waker = None;
                            l.receiver_gone = true;
                            true
                        }
                        None => false,
                    }
                }
            }
        };
        // the operation that released the storage has returned: from here on nobody may write it
        if self.released_now.replace(false) {
            if let Some(mk) = &self.reuse {
                // the slot is free again: a caller may rent it at once, even from inside the
                // callback that is still running under the other endpoint's operation
                let probe = mk(&self.ledger);
                self.probes.borrow_mut().push(probe);
            }
            if let Some((addr, len)) = self.embedded.get() {
                // The event is gone and the container is plain uninitialised storage that belongs
                // to its owner (the harness) again: the owner scribbles over it, as a caller that
                // reuses the place would. A later *read* of the event by either endpoint (possibly
                // one still on the stack above this nested operation) now decodes an impossible
                // state instead of going unnoticed; a later write shows up against the snapshot.
                // SAFETY: the harness owns this storage until the end of the case; nothing lives in it.
                unsafe { std::ptr::write_bytes(addr as *mut u8, 0xDD, len) };
                // SAFETY: as above.
                let bytes = unsafe { std::slice::from_raw_parts(addr as *const u8, len) }.to_vec();
                self.log.borrow_mut().snapshot = Some(bytes);
            }
        }
        ran
    }
}

impl<S: Snd, R: Rcv> WorldDyn for World<S, R> {
    fn callback(&self, _ev: WakerEvent, _id: usize) {
        let d = self.depth.get();
        if d >= 3 {
            return;
        }
        self.depth.set(d + 1);
        // an action whose endpoint is gone or busy is skipped; up to three are tried so that a
        // callback usually does something
        for _ in 0..3 {
            let next = self.callbacks.borrow_mut().next();
            let Some(act) = next else { break };
            if act == Act::Nothing {
                break;
            }
            let ran = self.perform(act);
            let mut l = self.log.borrow_mut();
            if ran {
                l.callback_ops += 1;
                l.max_depth = l.max_depth.max(d + 1);
                break;
            }
            l.inapplicable += 1;
        }
        self.depth.set(d);
    }

    fn on_release(&self, _addr: usize, _size: usize) {
        self.log.borrow_mut().releases += 1;
        self.released_now.set(true);
    }
}

/// Run at the very end of a case: checks that an event rented into the storage the case's event
/// had released is still intact and works.
type ProbeCheck = Box<dyn FnOnce() -> Result<(), String>>;

struct Finish {
    /// Some(len) for pools / lakes once both endpoints are gone
    pool_len: Box<dyn FnOnce() -> Option<usize>>,
    embedded: Option<(usize, usize)>,
    /// pool / lake storage: rents a fresh event from the same pool (it lands in the slot that
    /// was just released - storage "can be re-rented immediately") and returns its end-of-case check
    reuse: Option<Rc<dyn Fn(&Arc<Ledger>) -> ProbeCheck>>,
}

const PROBE: u64 = 0x7E57_7E57;

/// Keeps both endpoints of a probe event until the end of the case, then sends through it.
fn probe_check<S: Snd, R: Rcv>(s: S, r: R, ledger: &Arc<Ledger>) -> ProbeCheck {
    let ledger = Arc::clone(ledger);
    Box::new(move || {
        if r.ready() {
            return Err("the probe event rented into the released slot reports ready although nothing was sent".into());
        }
        s.send_value(Tracked::new(PROBE, &ledger, false));
        match r.value() {
            Ok(t) => match t.read() {
                Some(PROBE) => Ok(()),
                other => Err(format!("the probe event rented into the released slot delivered {other:?} instead of the value sent")),
            },
            Err(IntoValueError::Disconnected) => Err("the probe event rented into the released slot reports Disconnected after a send".into()),
            Err(IntoValueError::Pending(_)) => Err("the probe event rented into the released slot is still pending after a send".into()),
        }
    })
}

fn execute<S: Snd, R: Rcv>(case: &Case, s: S, r: R, fin: Finish) -> (Log, Arc<Ledger>, Option<usize>, Option<bool>, Option<String>) {
    let ledger = Arc::new(Ledger::default());
    let world = Rc::new(World::<S, R> {
        sender: RefCell::new(Some(s)),
        receiver: RefCell::new(Some(r)),
        receiver_busy: Cell::new(false),
        callbacks: RefCell::new(case.callbacks.clone().into_iter()),
        depth: Cell::new(0),
        ledger: Arc::clone(&ledger),
        log: RefCell::new(Log::default()),
        released_now: Cell::new(false),
        reuse: fin.reuse.clone(),
        probes: RefCell::new(Vec::new()),
        embedded: Cell::new(fin.embedded),
        self_cb: RefCell::new(None),
        same_identity: case.same_identity,
        roots: RefCell::new(vec![None, None, None]),
    });
    let cb: WakerCallback = Arc::new(|ev, id| {
        let w = WORLD.with(|w| w.borrow().clone());
        if let Some(w) = w {
            w.callback(ev, id);
        }
    });
    *world.self_cb.borrow_mut() = Some(cb);
    WORLD.with(|w| *w.borrow_mut() = Some(Rc::clone(&world) as Rc<dyn WorldDyn>));
    let panicked = vcommon::catch(|| {
        for act in &case.program {
            world.perform(*act);
        }
        // end of program: drop whatever is left, sender first
        world.perform(Act::DropSender);
        world.perform(Act::DropReceiver);
    })
    .err();
    // the harness's own root handles go last, with callbacks switched off
    WORLD.with(|w| *w.borrow_mut() = None);
    let roots: Vec<Option<std::task::Waker>> = std::mem::take(&mut *world.roots.borrow_mut());
    drop(roots);
    *world.self_cb.borrow_mut() = None;
    let unchanged = {
        let l = world.log.borrow();
        match (&l.snapshot, fin.embedded) {
            (Some(snap), Some((addr, len))) => {
                // SAFETY: the harness owns this storage until `pool_len` below drops it.
                let now = unsafe { std::slice::from_raw_parts(addr as *const u8, len) };
                Some(now == &snap[..])
            }
            _ => None,
        }
    };
    // probe events rented into the released slot: still intact and working? (callbacks and the
    // release hook are off by now, so this does not count as activity of the case's own event)
    let mut panicked = panicked;
    let probes: Vec<ProbeCheck> = std::mem::take(&mut *world.probes.borrow_mut());
    let mut log = std::mem::take(&mut *world.log.borrow_mut());
    if panicked.is_none() {
        for p in probes {
            match vcommon::catch(p) {
                Ok(Ok(())) => log.probes_ok += 1,
                Ok(Err(m)) => log.probe_failure = Some(m),
                Err(m) => panicked = Some(format!("while using a probe event rented into the released slot: {m}")),
            }
        }
    } else {
        std::mem::forget(probes);
    }
    let pool_len = if panicked.is_none() { (fin.pool_len)() } else { None };
    (log, ledger, pool_len, unchanged, panicked)
}

fn run_storage(case: &Case) -> (Log, Arc<Ledger>, Option<usize>, Option<bool>, Option<String>) {
    match case.storage % 6 {
        0 => {
            let (s, r) = LocalEvent::<Tracked>::boxed();
            execute(case, s, r, Finish { pool_len: Box::new(|| None), embedded: None, reuse: None })
        }
        1 => {
            let mut place = Box::pin(EmbeddedLocalEvent::<Tracked>::new());
            let addr = std::ptr::from_ref::<EmbeddedLocalEvent<Tracked>>(&place) as usize;
            let len = size_of::<EmbeddedLocalEvent<Tracked>>();
            // SAFETY: `place` stays pinned and alive until both endpoints are gone.
            let (s, r) = unsafe { LocalEvent::placed(place.as_mut()) };
            execute(
                case,
                s,
                r,
                Finish {
                    pool_len: Box::new(move || {
                        drop(place);
                        None
                    }),
                    embedded: Some((addr, len)),
                    reuse: None,
                },
            )
        }
        2 => {
            let pool = Rc::new(LocalEventPool::<Tracked>::new());
            let (s, r) = pool.rent();
            let p2 = Rc::clone(&pool);
            let reuse: Rc<dyn Fn(&Arc<Ledger>) -> ProbeCheck> = Rc::new(move |ledger| {
                let (ps, pr) = p2.rent();
                probe_check(ps, pr, ledger)
            });
            execute(case, s, r, Finish { pool_len: Box::new(move || Some(pool.len())), embedded: None, reuse: Some(reuse) })
        }
        3 => {
            let pool = Box::pin(RawLocalEventPool::<Tracked>::new());
            // SAFETY: the pool outlives both endpoints.
            let (s, r) = unsafe { pool.as_ref().rent() };
            execute(case, s, r, Finish { pool_len: Box::new(move || Some(pool.len())), embedded: None, reuse: None })
        }
        4 => {
            let lake = Rc::new(LocalEventLake::new());
            let (s, r) = lake.rent::<Tracked>();
            let l2 = Rc::clone(&lake);
            let reuse: Rc<dyn Fn(&Arc<Ledger>) -> ProbeCheck> = Rc::new(move |ledger| {
                let (ps, pr) = l2.rent::<Tracked>();
                probe_check(ps, pr, ledger)
            });
            execute(case, s, r, Finish { pool_len: Box::new(move || Some(lake.len())), embedded: None, reuse: Some(reuse) })
        }
        _ => {
            let lake = RawLocalEventLake::new();
            // SAFETY: the lake outlives both endpoints.
            let (s, r) = unsafe { lake.rent::<Tracked>() };
            execute(case, s, r, Finish { pool_len: Box::new(move || Some(lake.len())), embedded: None, reuse: None })
        }
    }
}

fn check(case: &Case, ctx: &mut Ctx) -> Verdict {
    let storage = STORAGE[usize::from(case.storage % 6)];
    let (log, led, pool_len, unchanged, panicked) = run_storage(case);
    let f = |kind: &str, msg: String| Failure::new(format!("C07/{storage}/{kind}"), format!("{msg}; program={:?} callbacks={:?}", case.program, case.callbacks));
    ctx.classify(&format!("storage:{storage}"));
    if log.callback_ops > 0 {
        ctx.classify("callback-performed-op");
        ctx.nontrivial();
    }
    if log.max_depth >= 2 {
        ctx.classify("nesting>=2");
    }
    if log.max_depth >= 3 {
        ctx.classify("nesting>=3");
    }
    if log.probes_ok > 0 {
        ctx.classify("released-slot-re-rented-at-once");
    }
    if let Some(m) = &log.probe_failure {
        return Err(f("release/re-rented-slot-corrupted", m.clone()));
    }
    if let Some(m) = panicked {
        return Err(f(&format!("panic/{}", vcommon::normalise(&m).chars().take(60).collect::<String>()), format!("the library panicked: {m}")));
    }
    // outcome
    if log.outcomes.len() > 1 {
        return Err(f("outcome/two-terminal-outcomes", format!("receiver completed more than once: {:?}", log.outcomes)));
    }
    for o in &log.outcomes {
        match o {
            Seen::Value(v) => {
                if !log.sent {
                    return Err(f("outcome/value-without-send", format!("receiver got {v:#x} but nothing was sent")));
                }
                if *v != SENT {
                    return Err(f("outcome/wrong-value", format!("receiver got {v:#x}")));
                }
            }
            Seen::DeadValue => return Err(f("payload/handed-over-after-destruction", "receiver was handed a payload whose destructor had already run".into())),
            Seen::Disconnected => {
                if log.sent {
                    return Err(f("outcome/disconnected-despite-send", "receiver got Disconnected although a value was sent before".into()));
                }
                if !log.sender_dropped_unsent {
                    return Err(f("outcome/disconnected-without-sender-drop", "receiver got Disconnected although the sender was neither used nor dropped".into()));
                }
            }
        }
    }
    let created = led.payload_created.load(Ordering::Relaxed);
    let dropped = led.payload_dropped.load(Ordering::Relaxed);
    if led.payload_dropped_twice.load(Ordering::Relaxed) > 0 || dropped > created {
        return Err(f("payload/destroyed-twice", format!("{created} payload(s) created, {dropped} destructor runs")));
    }
    if dropped < created {
        return Err(f("payload/leaked", format!("{created} payload(s) created, {dropped} destroyed after both endpoints are gone")));
    }
    let clones = led.waker_clones.load(Ordering::Relaxed);
    let consumed = led.waker_consumed.load(Ordering::Relaxed);
    if led.waker_double_consume.load(Ordering::Relaxed) > 0 {
        return Err(f("waker/used-after-consumed", "a waker clone was used after it had been woken or dropped".into()));
    }
    if clones != consumed {
        return Err(f("waker/clone-not-dropped-exactly-once", format!("{clones} waker clones made, {consumed} woken or dropped once both endpoints are gone")));
    }
    if let Some(w) = log.lost_wake {
        return Err(f("wake/lost", format!("the receiver's most recent poll returned Pending with waker {w}; a send / sender drop completed afterwards without invoking that waker")));
    }
    // storage
    if log.releases != 1 {
        return Err(f(if log.releases == 0 { "release/never" } else { "release/more-than-once" }, format!("event storage released {} times", log.releases)));
    }
    if unchanged == Some(false) {
        return Err(f("release/storage-written-after-release", "embedded event storage changed after the operation that released it had returned".into()));
    }
    if let Some(n) = pool_len {
        if n != 0 {
            return Err(f("pool/not-empty-after-both-endpoints-gone", format!("pool/lake len() = {n}")));
        }
    }
    led.free_wakers();
    Ok(())
}

fn main() {
    events_once::__verif::install_release_hook(Some(release_hook));
    let mut h = Harness::from_args("C07");
    let cases = h.cases(600_000, 20_000_000);
    h.section(
        "reentrant",
        "generated program tree: storage in {boxed, embedded, pooled, raw-pooled, lake, raw-lake} x top-level program (0..6 of send, drop sender, poll(waker 0..2), is_ready, into_value, drop receiver) x list of 0..7 callback actions consumed in order by every waker clone/wake/drop callback (an action runs only if its endpoint exists and is not the one currently executing; nesting depth <= 3); oracle: documented outcome, payload created == destroyed and never handed over dead, every waker clone consumed exactly once, exactly one storage release, embedded storage byte-identical between the release and the end, pool/lake empty, no panic. non-trivial = at least one callback performed an endpoint operation; distinct by serialised case",
        cases,
        case_strategy(),
        check,
    );
    // complete enumeration of a small sub-space (every storage, every short program, every
    // short callback list)
    let (plen, clen, wakers) = h.pick((2usize, 3usize, 2u8), (3usize, 4usize, 2u8));
    let mut top = vec![Act::Send, Act::DropSender, Act::IsReady, Act::IntoValue, Act::DropReceiver];
    top.extend((0..wakers).map(Act::Poll));
    let mut cbs = top.clone();
    cbs.push(Act::Nothing);
    fn seqs(alpha: &[Act], max: usize) -> Vec<Vec<Act>> {
        let mut out = vec![vec![]];
        let mut frontier = vec![vec![]];
        for _ in 0..max {
            let mut next = Vec::new();
            for s in &frontier {
                for a in alpha {
                    let mut t: Vec<Act> = s.clone();
                    t.push(*a);
                    next.push(t);
                }
            }
            out.extend(next.iter().cloned());
            frontier = next;
        }
        out
    }
    let programs = seqs(&top, plen);
    let callbacks = seqs(&cbs, clen);
    let all = (0u8..6).flat_map(move |storage| {
        let callbacks = callbacks.clone();
        programs.clone().into_iter().flat_map(move |program| {
            let callbacks = callbacks.clone();
            callbacks.into_iter().map(move |cb| Case {
                storage,
                program: program.clone(),
                callbacks: cb,
                same_identity: storage % 2 == 1,
            })
        })
    });
    h.enumerate(
        "reentrant-exhaustive",
        "complete enumeration: 6 storages x every program of length <= 2 (quick) / 3 (thorough) x every callback-action list of length <= 3 (quick) / 4 (thorough) over {send, drop sender, is_ready, into_value, drop receiver, poll(waker 0|1)} (+ nothing for callbacks); same oracle; non-trivial = a callback performed an endpoint operation",
        all,
        check,
    );
    h.finish()
}
