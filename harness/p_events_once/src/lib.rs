//! Shared pieces for the one-shot event harnesses (C05, C06, C07): tracked payloads and
//! instrumented wakers whose every clone / wake / drop is accounted for.

use std::sync::atomic::{AtomicU32, AtomicU64, Ordering};
use std::sync::{Arc, Mutex};
use std::task::{RawWaker, RawWakerVTable, Waker};

use vsched::{Access, ObjId};

/// Counters of one execution (plain std atomics: harness bookkeeping, not part of the model).
#[derive(Default)]
pub struct Ledger {
    pub payload_created: AtomicU32,
    pub payload_dropped: AtomicU32,
    pub payload_dropped_twice: AtomicU32,
    pub waker_clones: AtomicU32,
    pub waker_consumed: AtomicU32,
    pub waker_double_consume: AtomicU32,
    /// per original waker id: number of wake / wake_by_ref invocations on it or its clones
    pub wakes: [AtomicU32; 8],
    pub events: Mutex<Vec<String>>,
    allocs: Mutex<Vec<usize>>,
    shared_allocs: Mutex<Vec<usize>>,
}

impl Ledger {
    /// Frees every waker record of this execution. Call once nothing can touch a waker anymore.
    pub fn free_wakers(&self) {
        let v = std::mem::take(&mut *self.allocs.lock().unwrap_or_else(|e| e.into_inner()));
        for p in v {
            // SAFETY: registered by `make`, freed exactly once here.
            drop(unsafe { Box::from_raw(p as *mut WakerData) });
        }
        let v = std::mem::take(&mut *self.shared_allocs.lock().unwrap_or_else(|e| e.into_inner()));
        for p in v {
            // SAFETY: registered by `waker_shared`, freed exactly once here.
            drop(unsafe { Box::from_raw(p as *mut SharedWakerData) });
        }
    }

    pub fn note(&self, s: String) {
        self.events.lock().unwrap_or_else(|e| e.into_inner()).push(s);
    }
}

pub struct Tracked {
    pub value: u64,
    alive: AtomicU64,
    obj: Option<ObjId>,
    ledger: Arc<Ledger>,
}

const ALIVE: u64 = 0xA11CE;

impl Tracked {
    pub fn new(value: u64, ledger: &Arc<Ledger>, model: bool) -> Self {
        ledger.payload_created.fetch_add(1, Ordering::Relaxed);
        let obj = model.then(|| {
            let o = vsched::new_object("payload");
            vsched::access(o, Access::Write, "create");
            o
        });
        Self {
            value,
            alive: AtomicU64::new(ALIVE),
            obj,
            ledger: Arc::clone(ledger),
        }
    }

    /// Reads the value the way a consumer would (an HB-checked read of the payload cell).
    pub fn read(&self) -> Option<u64> {
        if let Some(o) = self.obj {
            vsched::access(o, Access::Read, "read by receiver");
        }
        (self.alive.load(Ordering::Relaxed) == ALIVE).then_some(self.value)
    }
}

impl Drop for Tracked {
    fn drop(&mut self) {
        if let Some(o) = self.obj {
            vsched::access(o, Access::Write, "drop");
        }
        if self.alive.swap(0xDEAD, Ordering::Relaxed) != ALIVE {
            self.ledger.payload_dropped_twice.fetch_add(1, Ordering::Relaxed);
        }
        self.ledger.payload_dropped.fetch_add(1, Ordering::Relaxed);
    }
}

/// Callback invoked by an instrumented waker: (which callback, original waker id).
#[derive(Clone, Copy, Debug, PartialEq, Eq)]
pub enum WakerEvent {
    Clone,
    Wake,
    WakeByRef,
    Drop,
}

pub type WakerCallback = Arc<dyn Fn(WakerEvent, usize) + Send + Sync>;

struct WakerData {
    id: usize,
    ledger: Arc<Ledger>,
    /// 1 while this clone is live
    live: AtomicU32,
    obj: Option<ObjId>,
    model: bool,
    callback: Option<WakerCallback>,
    /// the root waker handed to poll is owned by the harness and is not a "clone"
    root: bool,
}

fn make(id: usize, ledger: &Arc<Ledger>, model: bool, callback: Option<WakerCallback>, root: bool) -> *const () {
    let obj = (model && !root).then(|| {
        let o = vsched::new_object("waker clone");
        vsched::access(o, Access::Write, "clone");
        o
    });
    let p = Box::into_raw(Box::new(WakerData {
        id,
        ledger: Arc::clone(ledger),
        live: AtomicU32::new(1),
        obj,
        model,
        callback,
        root,
    }));
    ledger.allocs.lock().unwrap_or_else(|e| e.into_inner()).push(p as usize);
    p as *const ()
}

unsafe fn data<'a>(p: *const ()) -> &'a WakerData {
    // SAFETY: pointers handed to the vtable come from `make` and stay allocated until
    // `Ledger::free_wakers` at the end of the execution, so that a double consume is detected
    // instead of being undefined behaviour.
    unsafe { &*(p as *const WakerData) }
}

fn consume(d: &WakerData, what: &str) {
    if let Some(o) = d.obj {
        vsched::access(o, Access::Write, what);
    }
    if d.live.swap(0, Ordering::Relaxed) != 1 {
        d.ledger.waker_double_consume.fetch_add(1, Ordering::Relaxed);
    } else if !d.root {
        d.ledger.waker_consumed.fetch_add(1, Ordering::Relaxed);
    }
}

static VTABLE: RawWakerVTable = RawWakerVTable::new(
    |p| {
        // SAFETY: see `data`.
        let d = unsafe { data(p) };
        if let Some(o) = d.obj {
            vsched::access(o, Access::Read, "clone from");
        }
        if d.live.load(Ordering::Relaxed) != 1 {
            d.ledger.waker_double_consume.fetch_add(1, Ordering::Relaxed);
        }
        d.ledger.waker_clones.fetch_add(1, Ordering::Relaxed);
        let np = make(d.id, &d.ledger, d.model, d.callback.clone(), false);
        if let Some(cb) = &d.callback {
            cb(WakerEvent::Clone, d.id);
        }
        RawWaker::new(np, &VTABLE)
    },
    |p| {
        // SAFETY: see `data`.
        let d = unsafe { data(p) };
        consume(d, "wake");
        d.ledger.wakes[d.id % 8].fetch_add(1, Ordering::Relaxed);
        if let Some(cb) = &d.callback {
            cb(WakerEvent::Wake, d.id);
        }
    },
    |p| {
        // SAFETY: see `data`.
        let d = unsafe { data(p) };
        if let Some(o) = d.obj {
            vsched::access(o, Access::Read, "wake_by_ref");
        }
        if d.live.load(Ordering::Relaxed) != 1 {
            d.ledger.waker_double_consume.fetch_add(1, Ordering::Relaxed);
        }
        d.ledger.wakes[d.id % 8].fetch_add(1, Ordering::Relaxed);
        if let Some(cb) = &d.callback {
            cb(WakerEvent::WakeByRef, d.id);
        }
    },
    |p| {
        // SAFETY: see `data`.
        let d = unsafe { data(p) };
        consume(d, "drop");
        if !d.root
            && let Some(cb) = &d.callback
        {
            cb(WakerEvent::Drop, d.id);
        }
    },
);

/// A root waker with identity `id`. Clones made by the code under test are accounted in `ledger`.
pub fn waker(id: usize, ledger: &Arc<Ledger>, model: bool, callback: Option<WakerCallback>) -> Waker {
    // SAFETY: the vtable functions uphold the RawWaker contract (data is leaked, thread-safe).
    unsafe { Waker::from_raw(RawWaker::new(make(id, ledger, model, callback, true), &VTABLE)) }
}

// ------------------------------------------------------------------------------------------------
// wakers whose clones share one identity (like an `Arc`-based executor waker): `will_wake` is true
// between a waker and its clones, which is what "re-poll with the same waker" means to the event

struct SharedWakerData {
    id: usize,
    ledger: Arc<Ledger>,
    /// live handles to this identity (root + clones)
    live: AtomicU32,
    callback: Option<WakerCallback>,
}

fn shared<'a>(p: *const ()) -> &'a SharedWakerData {
    // SAFETY: allocated by `waker_shared`, kept until `Ledger::free_wakers`.
    unsafe { &*(p as *const SharedWakerData) }
}

fn shared_consume(d: &SharedWakerData) {
    let mut cur = d.live.load(Ordering::Relaxed);
    loop {
        if cur == 0 {
            d.ledger.waker_double_consume.fetch_add(1, Ordering::Relaxed);
            return;
        }
        match d.live.compare_exchange(cur, cur - 1, Ordering::Relaxed, Ordering::Relaxed) {
            Ok(_) => break,
            Err(c) => cur = c,
        }
    }
}

static SHARED_VTABLE: RawWakerVTable = RawWakerVTable::new(
    |p| {
        let d = shared(p);
        if d.live.fetch_add(1, Ordering::Relaxed) == 0 {
            d.ledger.waker_double_consume.fetch_add(1, Ordering::Relaxed);
        }
        d.ledger.waker_clones.fetch_add(1, Ordering::Relaxed);
        if let Some(cb) = &d.callback {
            cb(WakerEvent::Clone, d.id);
        }
        RawWaker::new(p, &SHARED_VTABLE)
    },
    |p| {
        let d = shared(p);
        shared_consume(d);
        d.ledger.waker_consumed.fetch_add(1, Ordering::Relaxed);
        d.ledger.wakes[d.id % 8].fetch_add(1, Ordering::Relaxed);
        if let Some(cb) = &d.callback {
            cb(WakerEvent::Wake, d.id);
        }
    },
    |p| {
        let d = shared(p);
        if d.live.load(Ordering::Relaxed) == 0 {
            d.ledger.waker_double_consume.fetch_add(1, Ordering::Relaxed);
        }
        d.ledger.wakes[d.id % 8].fetch_add(1, Ordering::Relaxed);
        if let Some(cb) = &d.callback {
            cb(WakerEvent::WakeByRef, d.id);
        }
    },
    |p| {
        let d = shared(p);
        shared_consume(d);
        d.ledger.waker_consumed.fetch_add(1, Ordering::Relaxed);
        if let Some(cb) = &d.callback {
            cb(WakerEvent::Drop, d.id);
        }
    },
);

/// A root waker with identity `id` whose clones compare equal to it under `will_wake`.
/// The root handle itself counts as one clone that the harness consumes by dropping it.
pub fn waker_shared(id: usize, ledger: &Arc<Ledger>, callback: Option<WakerCallback>) -> Waker {
    let p = Box::into_raw(Box::new(SharedWakerData {
        id,
        ledger: Arc::clone(ledger),
        live: AtomicU32::new(1),
        callback,
    }));
    ledger.waker_clones.fetch_add(1, Ordering::Relaxed);
    ledger.shared_allocs.lock().unwrap_or_else(|e| e.into_inner()).push(p as usize);
    // SAFETY: the vtable functions uphold the RawWaker contract; data is freed by free_wakers.
    unsafe { Waker::from_raw(RawWaker::new(p as *const (), &SHARED_VTABLE)) }
}

/// Global allocator for the harness binaries: fills every block with `0xDD` just before it is
/// returned to the system allocator, so that a read of a freed (boxed) event decodes an impossible
/// state instead of silently seeing the old contents. The property (C06/C07) says the storage may
/// be freed or re-used immediately after release, which includes being overwritten.
pub struct PoisonOnFree;

// SAFETY: forwards to the system allocator; the block is still owned by the caller of `dealloc`
// while it is being overwritten.
unsafe impl std::alloc::GlobalAlloc for PoisonOnFree {
    unsafe fn alloc(&self, layout: std::alloc::Layout) -> *mut u8 {
        // SAFETY: forwarded contract.
        unsafe { std::alloc::System.alloc(layout) }
    }
    unsafe fn dealloc(&self, ptr: *mut u8, layout: std::alloc::Layout) {
        // SAFETY: `ptr` denotes a live block of `layout.size()` bytes owned by the caller.
        unsafe { std::ptr::write_bytes(ptr, 0xDD, layout.size()) };
        // SAFETY: forwarded contract.
        unsafe { std::alloc::System.dealloc(ptr, layout) }
    }
    unsafe fn alloc_zeroed(&self, layout: std::alloc::Layout) -> *mut u8 {
        // SAFETY: forwarded contract.
        unsafe { std::alloc::System.alloc_zeroed(layout) }
    }
    unsafe fn realloc(&self, ptr: *mut u8, layout: std::alloc::Layout, new_size: usize) -> *mut u8 {
        // SAFETY: forwarded contract.
        unsafe { std::alloc::System.realloc(ptr, layout, new_size) }
    }
}

// ------------------------------------------------------------------------------------------------
// stateless wakers: every waker of this family has the SAME (null) data pointer - the same as
// `Waker::noop()` - and differs from the others only by its vtable, like the wakers of minimal
// `block_on` loops and embedded executors. Two of them are different wakers (`will_wake` is false)
// although their data pointers are equal.

static STATELESS_LEDGER: Mutex<Option<Arc<Ledger>>> = Mutex::new(None);

/// The ledger the stateless wakers account to (one execution at a time per process).
pub fn set_stateless_ledger(ledger: Option<Arc<Ledger>>) {
    *STATELESS_LEDGER.lock().unwrap_or_else(|e| e.into_inner()) = ledger;
}

fn sl_ledger() -> Option<Arc<Ledger>> {
    STATELESS_LEDGER.lock().unwrap_or_else(|e| e.into_inner()).clone()
}

fn sl_clone<const ID: usize>(_: *const ()) -> RawWaker {
    if let Some(l) = sl_ledger() {
        l.waker_clones.fetch_add(1, Ordering::Relaxed);
    }
    RawWaker::new(std::ptr::null(), &SL_VTABLES[ID])
}

fn sl_wake<const ID: usize>(_: *const ()) {
    if let Some(l) = sl_ledger() {
        l.waker_consumed.fetch_add(1, Ordering::Relaxed);
        l.wakes[ID].fetch_add(1, Ordering::Relaxed);
    }
}

fn sl_wake_by_ref<const ID: usize>(_: *const ()) {
    if let Some(l) = sl_ledger() {
        l.wakes[ID].fetch_add(1, Ordering::Relaxed);
    }
}

fn sl_drop<const ID: usize>(_: *const ()) {
    if let Some(l) = sl_ledger() {
        l.waker_consumed.fetch_add(1, Ordering::Relaxed);
    }
}

static SL_VTABLES: [RawWakerVTable; 4] = [
    RawWakerVTable::new(sl_clone::<0>, sl_wake::<0>, sl_wake_by_ref::<0>, sl_drop::<0>),
    RawWakerVTable::new(sl_clone::<1>, sl_wake::<1>, sl_wake_by_ref::<1>, sl_drop::<1>),
    RawWakerVTable::new(sl_clone::<2>, sl_wake::<2>, sl_wake_by_ref::<2>, sl_drop::<2>),
    RawWakerVTable::new(sl_clone::<3>, sl_wake::<3>, sl_wake_by_ref::<3>, sl_drop::<3>),
];

/// A waker of identity `id` (0..4) with a null data pointer. The handle returned counts as one
/// clone that the harness consumes by dropping (or waking) it. Call `set_stateless_ledger` first.
pub fn waker_stateless(id: usize) -> Waker {
    if let Some(l) = sl_ledger() {
        l.waker_clones.fetch_add(1, Ordering::Relaxed);
    }
    // SAFETY: the vtable functions uphold the RawWaker contract trivially (no data).
    unsafe { Waker::from_raw(RawWaker::new(std::ptr::null(), &SL_VTABLES[id % 4])) }
}
