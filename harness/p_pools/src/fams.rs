//! The nine pool families behind one trait, and the six handle wrappers implementing `HandleObj`.

use std::any::{Any, TypeId};
use std::marker::PhantomData;
use std::mem::MaybeUninit;
use std::panic::{AssertUnwindSafe, catch_unwind};
use std::ptr::NonNull;

use infinity_pool::*;

use crate::{Form, HandleObj, IterWalk, Payload, PoolObj, PooledCastView, RawPooledCastView, TypeDesc, View, desc};

/// Moves a value between two types that are statically the same (checked at run time).
fn same<A: 'static, B: 'static>(a: A) -> B {
    assert_eq!(TypeId::of::<A>(), TypeId::of::<B>(), "harness bug: type slot mismatch");
    // SAFETY: A and B are the same type.
    let b = unsafe { std::ptr::read((&raw const a).cast::<B>()) };
    std::mem::forget(a);
    b
}

pub trait Fam: Sized + 'static {
    type Pool: 'static;
    type Mut<U: ?Sized + 'static>: 'static;
    type Shared<U: ?Sized + 'static>: 'static;
    const RAW: bool;
    const HAS_ITER: bool;
    const NAME: &'static str;

    fn new_pool(must_not_drop: bool) -> Self::Pool;
    fn clone_pool(pool: &Self::Pool) -> Option<Self::Pool>;
    fn len(pool: &Self::Pool) -> usize;
    fn is_empty(pool: &Self::Pool) -> bool;
    fn capacity_of<T: Payload>(pool: &Self::Pool) -> usize;
    fn reserve_of<T: Payload>(pool: &mut Self::Pool, additional: usize);
    fn shrink(pool: &mut Self::Pool);
    fn walk(pool: &Self::Pool, pattern: u64) -> Option<IterWalk>;
    fn probe(pool: &Self::Pool) -> Result<(), String>;
    fn insert<T: Payload>(pool: &mut Self::Pool, key: u32, with: bool) -> Self::Mut<T>;

    fn ptr_mut<U: ?Sized + 'static>(h: &Self::Mut<U>) -> NonNull<U>;
    fn ptr_shared<U: ?Sized + 'static>(h: &Self::Shared<U>) -> NonNull<U>;
    fn ref_mut<U: ?Sized + 'static>(h: &Self::Mut<U>) -> &U;
    fn ref_shared<U: ?Sized + 'static>(h: &Self::Shared<U>) -> &U;
    fn mut_ref<T: Payload>(h: &mut Self::Mut<T>) -> &mut T;
    fn into_shared<U: ?Sized + 'static>(h: Self::Mut<U>) -> Self::Shared<U>;
    fn clone_shared<U: ?Sized + 'static>(h: &Self::Shared<U>) -> Self::Shared<U>;
    fn erase_mut<U: ?Sized + Send + 'static>(h: Self::Mut<U>) -> Self::Mut<()>;
    fn erase_shared<U: ?Sized + Send + 'static>(h: Self::Shared<U>) -> Self::Shared<()>;
    fn cast_mut<T: Payload>(h: Self::Mut<T>) -> Self::Mut<dyn View>;
    fn cast_shared<T: Payload>(h: Self::Shared<T>) -> Self::Shared<dyn View>;
    fn remove_mut<U: ?Sized + 'static>(pool: Option<&mut Self::Pool>, h: Self::Mut<U>);
    fn remove_shared<U: ?Sized + 'static>(pool: Option<&mut Self::Pool>, h: Self::Shared<U>);
    fn take_mut<T: Payload>(pool: Option<&mut Self::Pool>, h: Self::Mut<T>) -> T;
    fn take_shared<T: Payload>(pool: Option<&mut Self::Pool>, h: Self::Shared<T>) -> T;
}

fn walk_iter<I>(mut it: I, pattern: u64) -> IterWalk
where
    I: DoubleEndedIterator<Item = NonNull<()>> + ExactSizeIterator,
{
    let len_before = it.len();
    let mut steps = Vec::with_capacity(len_before);
    let mut k = 0u32;
    loop {
        let back = (pattern >> (k % 64)) & 1 == 1;
        k += 1;
        let item = if back { it.next_back() } else { it.next() };
        match item {
            Some(p) => steps.push((back, p.as_ptr() as usize, it.len())),
            None => break,
        }
        if steps.len() > len_before + 4 {
            break; // runaway iterator: reported by the oracle via the length mismatch
        }
    }
    let fused = it.next().is_none() && it.next_back().is_none() && it.next().is_none();
    IterWalk {
        len_before,
        steps,
        fused,
    }
}

thread_local! {
    /// Set by the interpreter: the next `insert_with` closure panics (with `InitPanic(key)`) before
    /// writing anything, as user code is allowed to.
    pub static PANIC_NEXT_INIT: std::cell::Cell<bool> = const { std::cell::Cell::new(false) };
}

/// Panic payload of a scripted initialisation-closure failure.
pub struct InitPanic(pub u32);

fn init_with<T: Payload>(key: u32) -> impl FnOnce(&mut MaybeUninit<T>) {
    move |slot| {
        if PANIC_NEXT_INIT.replace(false) {
            std::panic::panic_any(InitPanic(key));
        }
        T::write_into(slot, key);
    }
}

// ------------------------------------------------------------------------------------------------
// the nine families

pub struct RawOpaqueFam<T>(PhantomData<T>);
pub struct LocalOpaqueFam<T>(PhantomData<T>);
pub struct OpaqueFam<T>(PhantomData<T>);
pub struct RawPinnedFam<T>(PhantomData<T>);
pub struct LocalPinnedFam<T>(PhantomData<T>);
pub struct PinnedFam<T>(PhantomData<T>);
pub struct RawBlindFam;
pub struct LocalBlindFam;
pub struct BlindFam;

macro_rules! raw_handle_fns {
    ($mut_ty:ident, $shared_ty:ident) => {
        type Mut<U: ?Sized + 'static> = $mut_ty<U>;
        type Shared<U: ?Sized + 'static> = $shared_ty<U>;
        const RAW: bool = true;

        fn ptr_mut<U: ?Sized + 'static>(h: &Self::Mut<U>) -> NonNull<U> {
            h.ptr()
        }
        fn ptr_shared<U: ?Sized + 'static>(h: &Self::Shared<U>) -> NonNull<U> {
            h.ptr()
        }
        fn ref_mut<U: ?Sized + 'static>(h: &Self::Mut<U>) -> &U {
            // SAFETY: the interpreter only reads through handles of live objects of a live pool.
            unsafe { h.as_ref() }
        }
        fn ref_shared<U: ?Sized + 'static>(h: &Self::Shared<U>) -> &U {
            // SAFETY: as above.
            unsafe { h.as_ref() }
        }
        fn mut_ref<T: Payload>(h: &mut Self::Mut<T>) -> &mut T {
            // SAFETY: unique handle of a live object in a live pool.
            unsafe { h.as_mut() }
        }
        fn into_shared<U: ?Sized + 'static>(h: Self::Mut<U>) -> Self::Shared<U> {
            h.into_shared()
        }
        fn clone_shared<U: ?Sized + 'static>(h: &Self::Shared<U>) -> Self::Shared<U> {
            *h
        }
        fn erase_mut<U: ?Sized + Send + 'static>(h: Self::Mut<U>) -> Self::Mut<()> {
            h.erase()
        }
        fn erase_shared<U: ?Sized + Send + 'static>(h: Self::Shared<U>) -> Self::Shared<()> {
            h.erase()
        }
        fn cast_mut<T: Payload>(h: Self::Mut<T>) -> Self::Mut<dyn View> {
            // SAFETY: the pool outlives every use of the handle (interpreter invariant).
            unsafe { h.cast_view() }
        }
        fn cast_shared<T: Payload>(h: Self::Shared<T>) -> Self::Shared<dyn View> {
            // SAFETY: as above.
            unsafe { h.cast_view() }
        }
        fn remove_mut<U: ?Sized + 'static>(pool: Option<&mut Self::Pool>, h: Self::Mut<U>) {
            // SAFETY: handle belongs to this pool and the object is live (model invariant).
            unsafe { pool.expect("raw pool present").remove(h) }
        }
        fn remove_shared<U: ?Sized + 'static>(pool: Option<&mut Self::Pool>, h: Self::Shared<U>) {
            // SAFETY: as above; all other copies are discarded by the interpreter.
            unsafe { pool.expect("raw pool present").remove(h) }
        }
    };
}

macro_rules! managed_handle_fns {
    ($mut_ty:ident, $shared_ty:ident) => {
        type Mut<U: ?Sized + 'static> = $mut_ty<U>;
        type Shared<U: ?Sized + 'static> = $shared_ty<U>;
        const RAW: bool = false;

        fn ptr_mut<U: ?Sized + 'static>(h: &Self::Mut<U>) -> NonNull<U> {
            h.ptr()
        }
        fn ptr_shared<U: ?Sized + 'static>(h: &Self::Shared<U>) -> NonNull<U> {
            h.ptr()
        }
        fn ref_mut<U: ?Sized + 'static>(h: &Self::Mut<U>) -> &U {
            h
        }
        fn ref_shared<U: ?Sized + 'static>(h: &Self::Shared<U>) -> &U {
            h
        }
        fn mut_ref<T: Payload>(h: &mut Self::Mut<T>) -> &mut T {
            &mut *h
        }
        fn into_shared<U: ?Sized + 'static>(h: Self::Mut<U>) -> Self::Shared<U> {
            h.into_shared()
        }
        fn clone_shared<U: ?Sized + 'static>(h: &Self::Shared<U>) -> Self::Shared<U> {
            h.clone()
        }
        fn erase_mut<U: ?Sized + Send + 'static>(h: Self::Mut<U>) -> Self::Mut<()> {
            h.erase()
        }
        fn erase_shared<U: ?Sized + Send + 'static>(h: Self::Shared<U>) -> Self::Shared<()> {
            h.erase()
        }
        fn cast_mut<T: Payload>(h: Self::Mut<T>) -> Self::Mut<dyn View> {
            h.cast_view()
        }
        fn cast_shared<T: Payload>(h: Self::Shared<T>) -> Self::Shared<dyn View> {
            h.cast_view()
        }
        fn remove_mut<U: ?Sized + 'static>(_pool: Option<&mut Self::Pool>, h: Self::Mut<U>) {
            drop(h);
        }
        fn remove_shared<U: ?Sized + 'static>(_pool: Option<&mut Self::Pool>, h: Self::Shared<U>) {
            drop(h);
        }
        fn take_mut<T: Payload>(_pool: Option<&mut Self::Pool>, h: Self::Mut<T>) -> T {
            h.into_inner()
        }
        fn take_shared<T: Payload>(_pool: Option<&mut Self::Pool>, _h: Self::Shared<T>) -> T {
            unreachable!("managed shared handles cannot extract the value")
        }
    };
}

fn policy(must_not_drop: bool) -> DropPolicy {
    if must_not_drop {
        DropPolicy::MustNotDropContents
    } else {
        DropPolicy::MayDropContents
    }
}

// ---- raw opaque
impl<T0: Payload> Fam for RawOpaqueFam<T0> {
    type Pool = RawOpaquePool;
    const HAS_ITER: bool = true;
    const NAME: &'static str = "RawOpaquePool";
    raw_handle_fns!(RawPooledMut, RawPooled);

    fn new_pool(must_not_drop: bool) -> Self::Pool {
        RawOpaquePool::builder().layout_of::<T0>().drop_policy(policy(must_not_drop)).build()
    }
    fn clone_pool(_: &Self::Pool) -> Option<Self::Pool> {
        None
    }
    fn len(pool: &Self::Pool) -> usize {
        pool.len()
    }
    fn is_empty(pool: &Self::Pool) -> bool {
        pool.is_empty()
    }
    fn capacity_of<T: Payload>(pool: &Self::Pool) -> usize {
        pool.capacity()
    }
    fn reserve_of<T: Payload>(pool: &mut Self::Pool, additional: usize) {
        pool.reserve(additional);
    }
    fn shrink(pool: &mut Self::Pool) {
        pool.shrink_to_fit();
    }
    fn walk(pool: &Self::Pool, pattern: u64) -> Option<IterWalk> {
        Some(walk_iter(pool.iter(), pattern))
    }
    fn probe(pool: &Self::Pool) -> Result<(), String> {
        pool.__verif_check()
    }
    fn insert<T: Payload>(pool: &mut Self::Pool, key: u32, with: bool) -> Self::Mut<T> {
        if with {
            // SAFETY: the closure fully initialises the value.
            unsafe { pool.insert_with(init_with::<T>(key)) }
        } else {
            pool.insert(T::make(key))
        }
    }
    fn take_mut<T: Payload>(pool: Option<&mut Self::Pool>, h: Self::Mut<T>) -> T {
        // SAFETY: handle belongs to this pool and the object is live.
        unsafe { pool.expect("raw pool present").remove_unpin(h) }
    }
    fn take_shared<T: Payload>(pool: Option<&mut Self::Pool>, h: Self::Shared<T>) -> T {
        // SAFETY: as above.
        unsafe { pool.expect("raw pool present").remove_unpin(h) }
    }
}

// ---- raw pinned
impl<T0: Payload> Fam for RawPinnedFam<T0> {
    type Pool = RawPinnedPool<T0>;
    const HAS_ITER: bool = true;
    const NAME: &'static str = "RawPinnedPool";
    raw_handle_fns!(RawPooledMut, RawPooled);

    fn new_pool(must_not_drop: bool) -> Self::Pool {
        RawPinnedPool::<T0>::builder().drop_policy(policy(must_not_drop)).build()
    }
    fn clone_pool(_: &Self::Pool) -> Option<Self::Pool> {
        None
    }
    fn len(pool: &Self::Pool) -> usize {
        pool.len()
    }
    fn is_empty(pool: &Self::Pool) -> bool {
        pool.is_empty()
    }
    fn capacity_of<T: Payload>(pool: &Self::Pool) -> usize {
        pool.capacity()
    }
    fn reserve_of<T: Payload>(pool: &mut Self::Pool, additional: usize) {
        pool.reserve(additional);
    }
    fn shrink(pool: &mut Self::Pool) {
        pool.shrink_to_fit();
    }
    fn walk(pool: &Self::Pool, pattern: u64) -> Option<IterWalk> {
        Some(walk_iter(pool.iter().map(NonNull::cast::<()>), pattern))
    }
    fn probe(pool: &Self::Pool) -> Result<(), String> {
        pool.__verif_check()
    }
    fn insert<T: Payload>(pool: &mut Self::Pool, key: u32, with: bool) -> Self::Mut<T> {
        let h: RawPooledMut<T0> = if with {
            // SAFETY: the closure fully initialises the value.
            unsafe { pool.insert_with(init_with::<T0>(key)) }
        } else {
            pool.insert(T0::make(key))
        };
        same(h)
    }
    fn take_mut<T: Payload>(pool: Option<&mut Self::Pool>, h: Self::Mut<T>) -> T {
        let h: RawPooledMut<T0> = same(h);
        // SAFETY: handle belongs to this pool and the object is live.
        same(unsafe { pool.expect("raw pool present").remove_unpin(h) })
    }
    fn take_shared<T: Payload>(pool: Option<&mut Self::Pool>, h: Self::Shared<T>) -> T {
        let h: RawPooled<T0> = same(h);
        // SAFETY: as above.
        same(unsafe { pool.expect("raw pool present").remove_unpin(h) })
    }
}

// ---- raw blind
impl Fam for RawBlindFam {
    type Pool = RawBlindPool;
    const HAS_ITER: bool = false;
    const NAME: &'static str = "RawBlindPool";
    raw_handle_fns!(RawBlindPooledMut, RawBlindPooled);

    fn new_pool(must_not_drop: bool) -> Self::Pool {
        RawBlindPool::builder().drop_policy(policy(must_not_drop)).build()
    }
    fn clone_pool(_: &Self::Pool) -> Option<Self::Pool> {
        None
    }
    fn len(pool: &Self::Pool) -> usize {
        pool.len()
    }
    fn is_empty(pool: &Self::Pool) -> bool {
        pool.is_empty()
    }
    fn capacity_of<T: Payload>(pool: &Self::Pool) -> usize {
        pool.capacity_for::<T>()
    }
    fn reserve_of<T: Payload>(pool: &mut Self::Pool, additional: usize) {
        pool.reserve_for::<T>(additional);
    }
    fn shrink(pool: &mut Self::Pool) {
        pool.shrink_to_fit();
    }
    fn walk(_: &Self::Pool, _: u64) -> Option<IterWalk> {
        None
    }
    fn probe(pool: &Self::Pool) -> Result<(), String> {
        pool.__verif_check()
    }
    fn insert<T: Payload>(pool: &mut Self::Pool, key: u32, with: bool) -> Self::Mut<T> {
        if with {
            // SAFETY: the closure fully initialises the value.
            unsafe { pool.insert_with(init_with::<T>(key)) }
        } else {
            pool.insert(T::make(key))
        }
    }
    fn take_mut<T: Payload>(pool: Option<&mut Self::Pool>, h: Self::Mut<T>) -> T {
        // SAFETY: handle belongs to this pool and the object is live.
        unsafe { pool.expect("raw pool present").remove_unpin(h) }
    }
    fn take_shared<T: Payload>(pool: Option<&mut Self::Pool>, h: Self::Shared<T>) -> T {
        // SAFETY: as above.
        unsafe { pool.expect("raw pool present").remove_unpin(h) }
    }
}

macro_rules! managed_pool_fns {
    (opaque, $pool_ty:ty) => {
        type Pool = $pool_ty;
        const HAS_ITER: bool = true;
        fn new_pool(_: bool) -> Self::Pool {
            <$pool_ty>::with_layout_of::<T0>()
        }
        fn capacity_of<T: Payload>(pool: &Self::Pool) -> usize {
            pool.capacity()
        }
        fn reserve_of<T: Payload>(pool: &mut Self::Pool, additional: usize) {
            pool.reserve(additional);
        }
        fn walk(pool: &Self::Pool, pattern: u64) -> Option<IterWalk> {
            Some(pool.with_iter(|it| walk_iter(it, pattern)))
        }
        fn insert<T: Payload>(pool: &mut Self::Pool, key: u32, with: bool) -> Self::Mut<T> {
            if with {
                // SAFETY: the closure fully initialises the value.
                unsafe { pool.insert_with(init_with::<T>(key)) }
            } else {
                pool.insert(T::make(key))
            }
        }
        managed_pool_fns!(@common);
    };
    (pinned, $pool_ty:ty) => {
        type Pool = $pool_ty;
        const HAS_ITER: bool = true;
        fn new_pool(_: bool) -> Self::Pool {
            <$pool_ty>::new()
        }
        fn capacity_of<T: Payload>(pool: &Self::Pool) -> usize {
            pool.capacity()
        }
        fn reserve_of<T: Payload>(pool: &mut Self::Pool, additional: usize) {
            pool.reserve(additional);
        }
        fn walk(pool: &Self::Pool, pattern: u64) -> Option<IterWalk> {
            Some(pool.with_iter(|it| walk_iter(it.map(NonNull::cast::<()>), pattern)))
        }
        fn insert<T: Payload>(pool: &mut Self::Pool, key: u32, with: bool) -> Self::Mut<T> {
            if with {
                // SAFETY: the closure fully initialises the value.
                same(unsafe { pool.insert_with(init_with::<T0>(key)) })
            } else {
                same(pool.insert(T0::make(key)))
            }
        }
        managed_pool_fns!(@common);
    };
    (blind, $pool_ty:ty) => {
        type Pool = $pool_ty;
        const HAS_ITER: bool = false;
        fn new_pool(_: bool) -> Self::Pool {
            <$pool_ty>::new()
        }
        fn capacity_of<T: Payload>(pool: &Self::Pool) -> usize {
            pool.capacity_for::<T>()
        }
        fn reserve_of<T: Payload>(pool: &mut Self::Pool, additional: usize) {
            pool.reserve_for::<T>(additional);
        }
        fn walk(_: &Self::Pool, _: u64) -> Option<IterWalk> {
            None
        }
        fn insert<T: Payload>(pool: &mut Self::Pool, key: u32, with: bool) -> Self::Mut<T> {
            if with {
                // SAFETY: the closure fully initialises the value.
                unsafe { pool.insert_with(init_with::<T>(key)) }
            } else {
                pool.insert(T::make(key))
            }
        }
        managed_pool_fns!(@common);
    };
    (@common) => {
        fn clone_pool(pool: &Self::Pool) -> Option<Self::Pool> {
            Some(pool.clone())
        }
        fn len(pool: &Self::Pool) -> usize {
            pool.len()
        }
        fn is_empty(pool: &Self::Pool) -> bool {
            pool.is_empty()
        }
        fn shrink(pool: &mut Self::Pool) {
            pool.shrink_to_fit();
        }
        fn probe(pool: &Self::Pool) -> Result<(), String> {
            pool.__verif_check()
        }
    };
}

impl<T0: Payload> Fam for OpaqueFam<T0> {
    const NAME: &'static str = "OpaquePool";
    managed_handle_fns!(PooledMut, Pooled);
    managed_pool_fns!(opaque, OpaquePool);
}
impl<T0: Payload> Fam for LocalOpaqueFam<T0> {
    const NAME: &'static str = "LocalOpaquePool";
    managed_handle_fns!(LocalPooledMut, LocalPooled);
    managed_pool_fns!(opaque, LocalOpaquePool);
}
impl<T0: Payload> Fam for PinnedFam<T0> {
    const NAME: &'static str = "PinnedPool";
    managed_handle_fns!(PooledMut, Pooled);
    managed_pool_fns!(pinned, PinnedPool<T0>);
}
impl<T0: Payload> Fam for LocalPinnedFam<T0> {
    const NAME: &'static str = "LocalPinnedPool";
    managed_handle_fns!(LocalPooledMut, LocalPooled);
    managed_pool_fns!(pinned, LocalPinnedPool<T0>);
}
impl Fam for BlindFam {
    const NAME: &'static str = "BlindPool";
    managed_handle_fns!(BlindPooledMut, BlindPooled);
    managed_pool_fns!(blind, BlindPool);
}
impl Fam for LocalBlindFam {
    const NAME: &'static str = "LocalBlindPool";
    managed_handle_fns!(LocalBlindPooledMut, LocalBlindPooled);
    managed_pool_fns!(blind, LocalBlindPool);
}

// ------------------------------------------------------------------------------------------------
// pool state as PoolObj

pub struct SlotFns<F: Fam> {
    pub desc: TypeDesc,
    insert: fn(&mut F::Pool, u32, bool) -> Box<dyn HandleObj>,
    capacity: fn(&F::Pool) -> usize,
    reserve: fn(&mut F::Pool, usize),
}

pub fn slot_fns<F: Fam, T: Payload>() -> SlotFns<F> {
    SlotFns {
        desc: desc::<T>(),
        insert: |pool, key, with| Box::new(TM::<F, T>(F::insert::<T>(pool, key, with))),
        capacity: |pool| F::capacity_of::<T>(pool),
        reserve: |pool, n| F::reserve_of::<T>(pool, n),
    }
}

pub struct PoolState<F: Fam> {
    pub pools: Vec<F::Pool>,
    slots: Vec<SlotFns<F>>,
    descs: Vec<TypeDesc>,
    must_not_drop: bool,
}

impl<F: Fam> PoolState<F> {
    pub fn new(slots: Vec<SlotFns<F>>, must_not_drop: bool) -> Self {
        let descs = slots.iter().map(|s| s.desc).collect();
        Self {
            pools: vec![F::new_pool(must_not_drop)],
            slots,
            descs,
            must_not_drop,
        }
    }
    fn first(&self) -> &F::Pool {
        self.pools.first().expect("pool value present")
    }
    fn first_mut(&mut self) -> &mut F::Pool {
        self.pools.first_mut().expect("pool value present")
    }
}

impl<F: Fam> PoolObj for PoolState<F> {
    fn as_any_mut(&mut self) -> &mut dyn Any {
        self
    }
    fn is_raw(&self) -> bool {
        F::RAW
    }
    fn has_iter(&self) -> bool {
        F::HAS_ITER
    }
    fn kind_name(&self) -> &'static str {
        F::NAME
    }
    fn pool_alive(&self) -> bool {
        !self.pools.is_empty()
    }
    fn len(&self) -> usize {
        F::len(self.first())
    }
    fn is_empty(&self) -> bool {
        F::is_empty(self.first())
    }
    fn capacity(&self, slot: usize) -> usize {
        (self.slots[slot].capacity)(self.first())
    }
    fn reserve(&mut self, slot: usize, additional: usize) {
        let f = self.slots[slot].reserve;
        f(self.first_mut(), additional);
    }
    fn shrink(&mut self) {
        F::shrink(self.first_mut());
    }
    fn walk(&self, pattern: u64) -> Option<IterWalk> {
        F::walk(self.first(), pattern)
    }
    fn probe(&self) -> Result<(), String> {
        match self.pools.first() {
            Some(p) => F::probe(p),
            None => Ok(()),
        }
    }
    fn slots(&self) -> &[TypeDesc] {
        &self.descs
    }
    fn insert(&mut self, slot: usize, key: u32, with: bool) -> Box<dyn HandleObj> {
        let f = self.slots[slot].insert;
        // use the most recent pool value: clones must be interchangeable
        let p = self.pools.last_mut().expect("pool value present");
        f(p, key, with)
    }
    fn clone_pool(&mut self) -> bool {
        match self.pools.first().and_then(F::clone_pool) {
            Some(p) => {
                self.pools.push(p);
                true
            }
            None => false,
        }
    }
    fn drop_pool(&mut self) -> Result<(), String> {
        let pools = std::mem::take(&mut self.pools);
        let r = catch_unwind(AssertUnwindSafe(move || drop(pools)));
        if F::RAW {
            // a raw pool is replaced by a fresh one: its objects are gone
            self.pools.push(F::new_pool(self.must_not_drop));
        }
        r.map_err(|p| vcommon::panic_message(&*p))
    }
}

// ------------------------------------------------------------------------------------------------
// handle wrappers

pub struct TM<F: Fam, T: Payload>(pub F::Mut<T>);
pub struct TS<F: Fam, T: Payload>(pub F::Shared<T>);
pub struct EM<F: Fam>(pub F::Mut<()>);
pub struct ES<F: Fam>(pub F::Shared<()>);
pub struct DM<F: Fam>(pub F::Mut<dyn View>);
pub struct DS<F: Fam>(pub F::Shared<dyn View>);

fn pool_of<F: Fam>(pool: &mut dyn PoolObj) -> Option<&mut F::Pool> {
    pool.as_any_mut()
        .downcast_mut::<PoolState<F>>()
        .expect("harness bug: handle used with a pool of another family")
        .pools
        .first_mut()
}

impl<F: Fam, T: Payload> HandleObj for TM<F, T> {
    fn addr(&self) -> usize {
        F::ptr_mut(&self.0).as_ptr() as usize
    }
    fn form(&self) -> Form {
        Form::Typed
    }
    fn unique(&self) -> bool {
        true
    }
    fn read(&self, _size: usize, f: &mut dyn FnMut(&[u8])) {
        f(F::ref_mut(&self.0).bytes());
    }
    fn to_shared(self: Box<Self>) -> Box<dyn HandleObj> {
        Box::new(TS::<F, T>(F::into_shared(self.0)))
    }
    fn dup(&self) -> Option<Box<dyn HandleObj>> {
        None
    }
    fn erase(self: Box<Self>) -> Box<dyn HandleObj> {
        Box::new(EM::<F>(F::erase_mut(self.0)))
    }
    fn cast(self: Box<Self>) -> Box<dyn HandleObj> {
        Box::new(DM::<F>(F::cast_mut(self.0)))
    }
    fn write(&mut self, key: u32) -> bool {
        let r = F::mut_ref(&mut self.0);
        crate::fill(r.bytes_mut(), key, T::DROPPY);
        true
    }
    fn can_take(&self) -> bool {
        true
    }
    fn take(self: Box<Self>, pool: &mut dyn PoolObj) -> Vec<u8> {
        let v: T = F::take_mut(pool_of::<F>(pool), self.0);
        let bytes = sample_bytes(v.bytes());
        drop(v);
        bytes
    }
    fn release(self: Box<Self>, pool: &mut dyn PoolObj) {
        F::remove_mut(pool_of::<F>(pool), self.0);
    }
    fn forget(self: Box<Self>, pool: &mut dyn PoolObj) {
        if F::RAW {
            drop(self.0);
        } else {
            F::remove_mut(pool_of::<F>(pool), self.0);
        }
    }
}

impl<F: Fam, T: Payload> HandleObj for TS<F, T> {
    fn addr(&self) -> usize {
        F::ptr_shared(&self.0).as_ptr() as usize
    }
    fn form(&self) -> Form {
        Form::Typed
    }
    fn unique(&self) -> bool {
        false
    }
    fn read(&self, _size: usize, f: &mut dyn FnMut(&[u8])) {
        f(F::ref_shared(&self.0).bytes());
    }
    fn to_shared(self: Box<Self>) -> Box<dyn HandleObj> {
        self
    }
    fn dup(&self) -> Option<Box<dyn HandleObj>> {
        Some(Box::new(TS::<F, T>(F::clone_shared(&self.0))))
    }
    fn erase(self: Box<Self>) -> Box<dyn HandleObj> {
        Box::new(ES::<F>(F::erase_shared(self.0)))
    }
    fn cast(self: Box<Self>) -> Box<dyn HandleObj> {
        Box::new(DS::<F>(F::cast_shared(self.0)))
    }
    fn write(&mut self, _key: u32) -> bool {
        false
    }
    fn can_take(&self) -> bool {
        F::RAW
    }
    fn take(self: Box<Self>, pool: &mut dyn PoolObj) -> Vec<u8> {
        let v: T = F::take_shared(pool_of::<F>(pool), self.0);
        let bytes = sample_bytes(v.bytes());
        drop(v);
        bytes
    }
    fn release(self: Box<Self>, pool: &mut dyn PoolObj) {
        F::remove_shared(pool_of::<F>(pool), self.0);
    }
    fn forget(self: Box<Self>, pool: &mut dyn PoolObj) {
        if F::RAW {
            drop(self.0);
        } else {
            F::remove_shared(pool_of::<F>(pool), self.0);
        }
    }
}

macro_rules! untyped_handle {
    ($name:ident, $form:expr, unique, $ptr:ident, $remove:ident, |$s:ident, $size:ident, $f:ident| $read:block, |$e:ident| $erase:expr) => {
        impl<F: Fam> HandleObj for $name<F> {
            fn addr(&self) -> usize {
                F::$ptr(&self.0).as_ptr().cast::<u8>() as usize
            }
            fn form(&self) -> Form {
                $form
            }
            fn unique(&self) -> bool {
                true
            }
            fn read(&self, $size: usize, $f: &mut dyn FnMut(&[u8])) {
                let $s = self;
                $read
            }
            fn to_shared(self: Box<Self>) -> Box<dyn HandleObj> {
                untyped_handle!(@shared $name, self)
            }
            fn dup(&self) -> Option<Box<dyn HandleObj>> {
                None
            }
            fn erase(self: Box<Self>) -> Box<dyn HandleObj> {
                let $e = self;
                $erase
            }
            fn cast(self: Box<Self>) -> Box<dyn HandleObj> {
                self
            }
            fn write(&mut self, _key: u32) -> bool {
                false
            }
            fn can_take(&self) -> bool {
                false
            }
            fn take(self: Box<Self>, _pool: &mut dyn PoolObj) -> Vec<u8> {
                unreachable!("take on an untyped handle")
            }
            fn release(self: Box<Self>, pool: &mut dyn PoolObj) {
                F::$remove(pool_of::<F>(pool), self.0);
            }
            fn forget(self: Box<Self>, pool: &mut dyn PoolObj) {
                if F::RAW {
                    drop(self.0);
                } else {
                    F::$remove(pool_of::<F>(pool), self.0);
                }
            }
        }
    };
    ($name:ident, $form:expr, shared, $ptr:ident, $remove:ident, |$s:ident, $size:ident, $f:ident| $read:block, |$e:ident| $erase:expr) => {
        impl<F: Fam> HandleObj for $name<F> {
            fn addr(&self) -> usize {
                F::$ptr(&self.0).as_ptr().cast::<u8>() as usize
            }
            fn form(&self) -> Form {
                $form
            }
            fn unique(&self) -> bool {
                false
            }
            fn read(&self, $size: usize, $f: &mut dyn FnMut(&[u8])) {
                let $s = self;
                $read
            }
            fn to_shared(self: Box<Self>) -> Box<dyn HandleObj> {
                self
            }
            fn dup(&self) -> Option<Box<dyn HandleObj>> {
                Some(Box::new($name::<F>(F::clone_shared(&self.0))))
            }
            fn erase(self: Box<Self>) -> Box<dyn HandleObj> {
                let $e = self;
                $erase
            }
            fn cast(self: Box<Self>) -> Box<dyn HandleObj> {
                self
            }
            fn write(&mut self, _key: u32) -> bool {
                false
            }
            fn can_take(&self) -> bool {
                false
            }
            fn take(self: Box<Self>, _pool: &mut dyn PoolObj) -> Vec<u8> {
                unreachable!("take on an untyped handle")
            }
            fn release(self: Box<Self>, pool: &mut dyn PoolObj) {
                F::$remove(pool_of::<F>(pool), self.0);
            }
            fn forget(self: Box<Self>, pool: &mut dyn PoolObj) {
                if F::RAW {
                    drop(self.0);
                } else {
                    F::$remove(pool_of::<F>(pool), self.0);
                }
            }
        }
    };
    (@shared EM, $s:ident) => { Box::new(ES::<F>(F::into_shared($s.0))) };
    (@shared DM, $s:ident) => { Box::new(DS::<F>(F::into_shared($s.0))) };
}

untyped_handle!(EM, Form::Erased, unique, ptr_mut, remove_mut,
    |s, size, f| {
        // an erased handle gives no typed access: read through the raw pointer it reports
        // SAFETY: the object is live and `size` is its size (model invariant).
        f(unsafe { std::slice::from_raw_parts(F::ptr_mut(&s.0).as_ptr().cast::<u8>(), size) });
    },
    |e| e);
untyped_handle!(ES, Form::Erased, shared, ptr_shared, remove_shared,
    |s, size, f| {
        // SAFETY: as above.
        f(unsafe { std::slice::from_raw_parts(F::ptr_shared(&s.0).as_ptr().cast::<u8>(), size) });
    },
    |e| e);
untyped_handle!(DM, Form::Dyn, unique, ptr_mut, remove_mut,
    |s, _size, f| {
        f(F::ref_mut(&s.0).view_bytes());
    },
    |e| Box::new(EM::<F>(F::erase_mut(e.0))));
untyped_handle!(DS, Form::Dyn, shared, ptr_shared, remove_shared,
    |s, _size, f| {
        f(F::ref_shared(&s.0).view_bytes());
    },
    |e| Box::new(ES::<F>(F::erase_shared(e.0))));

/// The whole value for small payloads, a sample for large ones (position-tagged is unnecessary:
/// `verify_sample` recomputes the same positions).
fn sample_bytes(b: &[u8]) -> Vec<u8> {
    b.to_vec()
}
