//! History interpreter + reference model + oracles for C01 (addresses, exclusivity, values) and
//! C02 (exactly-once destruction, accounting, iteration, reserve, drop policy).

use proptest::prelude::*;
use serde::{Deserialize, Serialize};
use vcommon::{Ctx, Failure, Verdict, pick_index};

use crate::fams::*;
use crate::{
    Form, HandleObj, MENU_LEN, Payload, PoolObj, Twin, TypeDesc, drops_of, key_of, menu_desc, take_corrupt, track_reset, verify,
};

#[derive(Debug, Clone, Serialize, Deserialize)]
pub struct RawOp {
    pub kind: u8,
    pub a: u16,
    pub b: u16,
    pub c: u16,
}

#[derive(Debug, Clone, Serialize, Deserialize)]
pub struct Case {
    /// 0..9: Raw|Local|Managed x Opaque|Pinned|Blind (kind = family*3 + flavour)
    pub pool_kind: u8,
    /// menu index of the primary payload type (opaque / pinned); first blind slot
    pub ty: u8,
    /// further menu indices for blind pools (3..6 layouts at once)
    pub blind_types: Vec<u8>,
    /// slab capacity override (0 = the library's own capacity)
    pub cap: u8,
    pub must_not_drop: bool,
    /// 0 = phased fill/churn/drain, 1 = churn, 2 = sawtooth
    pub profile: u8,
    pub ops: Vec<RawOp>,
}

pub const POOL_KINDS: [&str; 9] = [
    "RawOpaquePool",
    "LocalOpaquePool",
    "OpaquePool",
    "RawPinnedPool",
    "LocalPinnedPool",
    "PinnedPool",
    "RawBlindPool",
    "LocalBlindPool",
    "BlindPool",
];

pub fn case_strategy(max_ops: usize) -> impl Strategy<Value = Case> {
    let ty = prop_oneof![
        12 => 0u8..17,          // up to 1000 bytes
        3 => 21u8..24,          // same-size-other-alignment twins
        3 => 17u8..20,          // 4096 .. 40000 bytes, align up to 4096
        1 => Just(20u8),        // > 1 MiB
    ];
    (
        0u8..9,
        ty,
        prop::collection::vec(prop_oneof![3 => 0u8..19, 2 => 21u8..24, 1 => Just(12u8), 1 => Just(15u8), 1 => Just(8u8)], 2..6),
        prop_oneof![2 => Just(0u8), 3 => Just(1u8), 3 => Just(2u8), 2 => Just(3u8), 2 => Just(4u8), 1 => Just(8u8), 1 => Just(32u8)],
        prop::bool::weighted(0.3),
        0u8..4,
        prop_oneof![1 => 0usize..30, 3 => 30usize..max_ops / 2, 2 => max_ops / 2..max_ops],
    )
        .prop_flat_map(|(pool_kind, ty, blind_types, cap, must_not_drop, profile, n)| {
            // huge payloads: keep histories short and slabs tiny so memory stays bounded
            let (n, cap) = if ty == 20 { (n.min(40), cap.clamp(1, 4)) } else if ty >= 17 { (n.min(300), if cap == 0 { 2 } else { cap }) } else { (n, cap) };
            prop::collection::vec((any::<u8>(), any::<u16>(), any::<u16>(), any::<u16>()), n).prop_map(move |raw| Case {
                pool_kind,
                ty,
                blind_types: blind_types.clone(),
                cap,
                must_not_drop,
                profile,
                ops: raw.into_iter().map(|(kind, a, b, c)| RawOp { kind, a, b, c }).collect(),
            })
        })
}

#[derive(Debug, Clone, Copy, PartialEq, Eq)]
enum Op {
    Insert,
    Release,
    Forget,
    Take,
    Share,
    Dup,
    Erase,
    Cast,
    Write,
    Reserve,
    Shrink,
    Iterate,
    ClonePool,
    DropPool,
}

/// (op, weight) tables per phase; decode is monotone in `kind` so shrinking toward 0 means Insert.
fn decode(kind: u8, phase: u8) -> Op {
    const FILL: &[(Op, u32)] = &[
        (Op::Insert, 130),
        (Op::Release, 20),
        (Op::Share, 14),
        (Op::Dup, 14),
        (Op::Erase, 8),
        (Op::Cast, 8),
        (Op::Write, 10),
        (Op::Take, 8),
        (Op::Forget, 6),
        (Op::Reserve, 10),
        (Op::Shrink, 8),
        (Op::Iterate, 12),
        (Op::ClonePool, 3),
        (Op::DropPool, 2),
    ];
    const CHURN: &[(Op, u32)] = &[
        (Op::Insert, 70),
        (Op::Release, 62),
        (Op::Share, 14),
        (Op::Dup, 16),
        (Op::Erase, 8),
        (Op::Cast, 8),
        (Op::Write, 10),
        (Op::Take, 14),
        (Op::Forget, 10),
        (Op::Reserve, 12),
        (Op::Shrink, 14),
        (Op::Iterate, 12),
        (Op::ClonePool, 3),
        (Op::DropPool, 2),
    ];
    const DRAIN: &[(Op, u32)] = &[
        (Op::Insert, 25),
        (Op::Release, 120),
        (Op::Share, 8),
        (Op::Dup, 8),
        (Op::Erase, 6),
        (Op::Cast, 6),
        (Op::Write, 6),
        (Op::Take, 25),
        (Op::Forget, 14),
        (Op::Reserve, 8),
        (Op::Shrink, 18),
        (Op::Iterate, 8),
        (Op::ClonePool, 2),
        (Op::DropPool, 2),
    ];
    let table = match phase {
        0 => FILL,
        1 => CHURN,
        _ => DRAIN,
    };
    let total: u32 = table.iter().map(|(_, w)| *w).sum();
    let mut x = u32::from(kind) * total / 256;
    for (op, w) in table {
        if x < *w {
            return *op;
        }
        x -= *w;
    }
    Op::Insert
}

struct Obj {
    id: u32,
    key: u32,
    slot: usize,
    addr: usize,
    handles: Vec<Box<dyn HandleObj>>,
}

struct Stats {
    max_live: usize,
    removal_then_insert: bool,
    removed_any: bool,
    shrink_freed: bool,
    reserve_grew: bool,
    shared_nonlifo: bool,
    pool_drop_with_contents: bool,
    max_clones: usize,
    slab_cap: usize,
    iter_walks: usize,
    takes: usize,
    casts: usize,
    failed_inits: usize,
}

fn build_pool(case: &Case) -> (Box<dyn PoolObj>, Vec<TypeDesc>) {
    macro_rules! opaque {
        ($t:ty, $fam:ident, $mnd:expr) => {{
            let slots = vec![slot_fns::<$fam<$t>, $t>(), slot_fns::<$fam<$t>, Twin<$t>>()];
            Box::new(PoolState::<$fam<$t>>::new(slots, $mnd)) as Box<dyn PoolObj>
        }};
    }
    macro_rules! pinned {
        ($t:ty, $fam:ident, $mnd:expr) => {{
            let slots = vec![slot_fns::<$fam<$t>, $t>()];
            Box::new(PoolState::<$fam<$t>>::new(slots, $mnd)) as Box<dyn PoolObj>
        }};
    }
    let ty = usize::from(case.ty) % MENU_LEN;
    let mnd = case.must_not_drop;
    let pool: Box<dyn PoolObj> = match case.pool_kind % 9 {
        0 => crate::with_menu_type!(ty, opaque, RawOpaqueFam, mnd),
        1 => crate::with_menu_type!(ty, opaque, LocalOpaqueFam, mnd),
        2 => crate::with_menu_type!(ty, opaque, OpaqueFam, mnd),
        3 => crate::with_menu_type!(ty, pinned, RawPinnedFam, mnd),
        4 => crate::with_menu_type!(ty, pinned, LocalPinnedFam, mnd),
        5 => crate::with_menu_type!(ty, pinned, PinnedFam, mnd),
        k => {
            let mut idxs = vec![ty];
            idxs.extend(case.blind_types.iter().map(|t| usize::from(*t) % MENU_LEN));
            macro_rules! blind_slot {
                ($t:ty, $fam:ident, $v:expr) => {
                    $v.push(slot_fns::<$fam, $t>())
                };
            }
            match k {
                6 => {
                    let mut v: Vec<SlotFns<RawBlindFam>> = Vec::new();
                    for i in &idxs {
                        crate::with_menu_type!(*i, blind_slot, RawBlindFam, v);
                    }
                    Box::new(PoolState::<RawBlindFam>::new(v, mnd))
                }
                7 => {
                    let mut v: Vec<SlotFns<LocalBlindFam>> = Vec::new();
                    for i in &idxs {
                        crate::with_menu_type!(*i, blind_slot, LocalBlindFam, v);
                    }
                    Box::new(PoolState::<LocalBlindFam>::new(v, mnd))
                }
                _ => {
                    let mut v: Vec<SlotFns<BlindFam>> = Vec::new();
                    for i in &idxs {
                        crate::with_menu_type!(*i, blind_slot, BlindFam, v);
                    }
                    Box::new(PoolState::<BlindFam>::new(v, mnd))
                }
            }
        }
    };
    let descs = pool.slots().to_vec();
    (pool, descs)
}

fn fl(sig: &str, msg: String) -> Failure {
    Failure::new(sig, msg)
}

/// Runs one history. `strict_every_step` = full model comparison after every step.
pub fn run_case(case: &Case, ctx: &mut Ctx, property: &str) -> Verdict {
    track_reset();
    infinity_pool::__verif::set_capacity_override(usize::from(case.cap));
    let (mut pool, descs) = build_pool(case);
    let kind = POOL_KINDS[usize::from(case.pool_kind % 9)];
    let raw = pool.is_raw();
    let mut objs: Vec<Obj> = Vec::new();
    // ids of destroyed objects that must have exactly one drop (droppy) recorded
    let mut dead_droppy: Vec<u32> = Vec::new();
    let mut next_id: u32 = 1;
    let mut st = Stats {
        max_live: 0,
        removal_then_insert: false,
        removed_any: false,
        shrink_freed: false,
        reserve_grew: false,
        shared_nonlifo: false,
        pool_drop_with_contents: false,
        max_clones: 0,
        slab_cap: 0,
        iter_walks: 0,
        takes: 0,
        casts: 0,
        failed_inits: 0,
    };
    ctx.classify(&format!("pool:{kind}"));
    ctx.classify(&format!("cap:{}", case.cap));
    for d in &descs {
        if d.align >= 128 {
            ctx.classify("align>=128");
        }
        if d.size > 1 << 20 {
            ctx.classify("size>1MiB");
        }
    }
    if descs.len() >= 3 && kind.contains("Blind") {
        ctx.classify("blind>=3-layouts");
    }

    let n = case.ops.len();
    for (step, rop) in case.ops.iter().enumerate() {
        let phase = match case.profile % 4 {
            0 => (step * 3 / n.max(1)) as u8,
            1 => 1,
            2 => ((step / 40) % 2 * 2) as u8, // sawtooth: fill 40, drain 40
            _ => u8::from(step * 4 >= n * 3), // grow for three quarters, then churn
        };
        let op = decode(rop.kind, phase);
        let sig_ctx = |p: &str, c: &str, k: &str| format!("{p}/{kind}/{c}/{k}");
        let alive = pool.pool_alive();
        match op {
            Op::Insert if alive => {
                let slot = pick_index(rop.a, descs.len());
                let id = next_id;
                next_id += 1;
                let key = key_of(id, 0);
                let cap_before = pool.capacity(slot);
                let len_before = pool.len();
                // one in 16 in-place insertions has an initialisation closure that panics before
                // writing: nothing is inserted, the panic reaches the caller, and every oracle
                // keeps holding for the objects that exist
                if rop.b & 1 == 1 && (rop.b >> 1) % 16 == 15 {
                    crate::fams::PANIC_NEXT_INIT.set(true);
                    let r = std::panic::catch_unwind(std::panic::AssertUnwindSafe(|| pool.insert(slot, key, true)));
                    crate::fams::PANIC_NEXT_INIT.set(false);
                    match r {
                        Ok(_) => {
                            return Err(fl(&sig_ctx("C02", "insert_with", "closure-panic-swallowed"), format!("step {step}: the initialisation closure panicked but insert_with returned a handle")));
                        }
                        Err(p) => {
                            if p.downcast_ref::<crate::fams::InitPanic>().map(|i| i.0) != Some(key) {
                                return Err(fl(&sig_ctx("C01", "insert_with", "foreign-panic"), format!("step {step}: insert_with with a panicking closure did not propagate the closure's panic but: {}", vcommon::panic_message(&*p))));
                            }
                        }
                    }
                    st.failed_inits += 1;
                    check_state(&*pool, &objs, &descs, &dead_droppy, step, kind, true)?;
                    continue;
                }
                let h = pool.insert(slot, key, rop.b & 1 == 1);
                let addr = h.addr();
                if st.slab_cap == 0 && cap_before == 0 {
                    st.slab_cap = pool.capacity(slot); // one slab was just created
                }
                if st.removed_any {
                    st.removal_then_insert = true;
                }
                let _ = (cap_before, len_before);
                objs.push(Obj {
                    id,
                    key,
                    slot,
                    addr,
                    handles: vec![h],
                });
            }
            Op::Release | Op::Forget | Op::Take if !objs.is_empty() => {
                let oi = pick_index(rop.a, objs.len());
                let hi = pick_index(rop.b, objs[oi].handles.len().max(1));
                if objs[oi].handles.is_empty() {
                    continue; // raw orphan: nothing to act through
                }
                let d = descs[objs[oi].slot];
                match op {
                    Op::Take if objs[oi].handles[hi].can_take() && (raw || objs[oi].handles.len() == 1) => {
                        let mut o = objs.swap_remove(oi);
                        let h = o.handles.swap_remove(hi);
                        // raw: remaining copies are dangling now; discard them
                        for other in o.handles.drain(..) {
                            other.forget(&mut *pool);
                        }
                        let drops_before = drops_of(o.id);
                        let bytes = h.take(&mut *pool);
                        st.takes += 1;
                        st.removed_any = true;
                        if let Err(e) = verify(&bytes, o.key, d.droppy) {
                            return Err(fl(&sig_ctx("C01", "take", "returned-value-differs"), format!("step {step}: value extracted from object {} differs from the stored one: {e}", o.id)));
                        }
                        if d.droppy {
                            // the pool must not have run the destructor; the harness dropping the
                            // returned value is the one and only run
                            if drops_before != 0 {
                                return Err(fl(&sig_ctx("C02", "take", "destructor-ran-before-extraction"), format!("step {step}: object {} had {drops_before} destructor runs before extraction", o.id)));
                            }
                            let after = drops_of(o.id);
                            if after != 1 {
                                return Err(fl(&sig_ctx("C02", "take", "destructor-count-after-extraction"), format!("step {step}: extracted object {} has {after} destructor runs after the caller dropped the value (expected exactly 1)", o.id)));
                            }
                            dead_droppy.push(o.id);
                        }
                    }
                    Op::Forget if raw => {
                        // discard one copy; the object stays (possibly as an orphan until pool drop)
                        let h = objs[oi].handles.swap_remove(hi);
                        h.forget(&mut *pool);
                    }
                    _ => {
                        // Release (and Forget on managed pools; Take when not applicable)
                        let last = raw || objs[oi].handles.len() == 1;
                        if !raw && objs[oi].handles.len() >= 3 && hi + 1 != objs[oi].handles.len() {
                            st.shared_nonlifo = true;
                        }
                        let h = objs[oi].handles.swap_remove(hi);
                        let id = objs[oi].id;
                        let before = drops_of(id);
                        if last {
                            let mut o = objs.swap_remove(oi);
                            for other in o.handles.drain(..) {
                                other.forget(&mut *pool);
                            }
                            h.release(&mut *pool);
                            st.removed_any = true;
                            if d.droppy {
                                let after = drops_of(id);
                                if before != 0 || after != 1 {
                                    return Err(fl(&sig_ctx("C02", "remove", "destructor-count"), format!("step {step}: object {id} destroyed: destructor ran {before} times before and {after} times after its removal / last handle drop (expected 0 and 1)")));
                                }
                                dead_droppy.push(id);
                            }
                        } else {
                            h.release(&mut *pool);
                            let after = drops_of(id);
                            if after != 0 {
                                return Err(fl(&sig_ctx("C02", "drop-handle", "destroyed-while-handles-exist"), format!("step {step}: object {id} was destroyed although {} handle(s) still exist", objs[oi].handles.len())));
                            }
                        }
                    }
                }
            }
            Op::Share | Op::Dup | Op::Erase | Op::Cast | Op::Write if !objs.is_empty() => {
                let oi = pick_index(rop.a, objs.len());
                if objs[oi].handles.is_empty() {
                    continue;
                }
                let hi = pick_index(rop.b, objs[oi].handles.len());
                let o = &mut objs[oi];
                match op {
                    Op::Share => {
                        let h = o.handles.swap_remove(hi);
                        o.handles.push(h.to_shared());
                    }
                    Op::Dup => {
                        if o.handles[hi].unique() && rop.c & 1 == 1 {
                            let h = o.handles.swap_remove(hi);
                            o.handles.push(h.to_shared());
                        }
                        let hi = hi.min(o.handles.len() - 1);
                        if let Some(c) = o.handles[hi].dup() {
                            o.handles.push(c);
                            st.max_clones = st.max_clones.max(o.handles.len());
                        }
                    }
                    Op::Erase => {
                        let h = o.handles.swap_remove(hi);
                        o.handles.push(h.erase());
                    }
                    Op::Cast => {
                        let h = o.handles.swap_remove(hi);
                        if h.form() == Form::Typed {
                            st.casts += 1;
                        }
                        o.handles.push(h.cast());
                    }
                    _ => {
                        if o.handles.len() == 1 && o.handles[0].unique() && o.handles[0].form() == Form::Typed {
                            let ver = (o.key >> 24) as u8;
                            let key = key_of(o.id, ver.wrapping_add(1));
                            if o.handles[0].write(key) {
                                o.key = key;
                            }
                        }
                    }
                }
            }
            Op::Reserve if alive => {
                let slot = pick_index(rop.a, descs.len());
                let cap_before = pool.capacity(slot);
                let len = pool.len();
                // up to ~3 slabs worth
                let unit = if case.cap == 0 { 40 } else { usize::from(case.cap) };
                let add = pick_index(rop.b, unit * 3 + 2);
                pool.reserve(slot, add);
                let cap_after = pool.capacity(slot);
                let blind = kind.contains("Blind");
                // blind pools: len counts all layouts, capacity is per layout
                let len_slot = if blind { objs.iter().filter(|o| same_layout(&descs, o.slot, slot)).count() } else { len };
                if cap_after < len_slot + add {
                    return Err(fl(&sig_ctx("C02", "reserve", "capacity-too-small"), format!("step {step}: reserve({add}) with {len_slot} objects left capacity {cap_after}")));
                }
                if cap_after < cap_before {
                    return Err(fl(&sig_ctx("C02", "reserve", "capacity-shrank"), format!("step {step}: reserve({add}) shrank capacity {cap_before} -> {cap_after}")));
                }
                if cap_after >= cap_before + 2 * unit.max(1) && case.cap != 0 {
                    st.reserve_grew = true;
                }
                // "makes room for n more without growth": insert n more, capacity must not move
                if add > 0 && add <= 24 && descs[slot].size <= 4096 {
                    let mut tmp = Vec::new();
                    for _ in 0..add {
                        let id = next_id;
                        next_id += 1;
                        let h = pool.insert(slot, key_of(id, 0), false);
                        let addr = h.addr();
                        tmp.push(Obj {
                            id,
                            key: key_of(id, 0),
                            slot,
                            addr,
                            handles: vec![h],
                        });
                    }
                    let cap_now = pool.capacity(slot);
                    objs.extend(tmp);
                    if cap_now != cap_after {
                        return Err(fl(&sig_ctx("C02", "reserve", "grew-within-reserved-room"), format!("step {step}: after reserve({add}) capacity was {cap_after}; inserting {add} objects changed it to {cap_now}")));
                    }
                }
            }
            Op::Shrink if alive => {
                let caps_before: Vec<usize> = (0..descs.len()).map(|s| pool.capacity(s)).collect();
                pool.shrink();
                for (s, cb) in caps_before.iter().enumerate() {
                    let ca = pool.capacity(s);
                    if ca > *cb {
                        return Err(fl(&sig_ctx("C02", "shrink_to_fit", "capacity-grew"), format!("step {step}: shrink_to_fit grew capacity {cb} -> {ca}")));
                    }
                    if ca < *cb {
                        st.shrink_freed = true;
                    }
                }
            }
            Op::Iterate if alive && pool.has_iter() => {
                let pattern = u64::from(rop.a) | (u64::from(rop.b) << 16) | (u64::from(rop.c) << 32) | (u64::from(rop.a ^ rop.c) << 48);
                let pattern = match rop.kind % 3 {
                    0 => 0,
                    1 => u64::MAX,
                    _ => pattern,
                };
                st.iter_walks += 1;
                check_iteration(&*pool, &objs, pattern, step, kind)?;
            }
            Op::ClonePool if alive => {
                if pool.clone_pool() {
                    ctx.classify("pool-cloned");
                }
            }
            Op::DropPool if alive && rop.b % 4 == 0 => {
                let live_before = objs.len();
                let res = pool.drop_pool();
                if raw {
                    if live_before > 0 {
                        st.pool_drop_with_contents = true;
                    }
                    let expect_panic = case.must_not_drop && live_before > 0;
                    match (&res, expect_panic) {
                        (Ok(()), true) => {
                            return Err(fl(&sig_ctx("C02", "drop-pool", "must-not-drop-did-not-panic"), format!("step {step}: pool with MustNotDropContents dropped with {live_before} objects without panicking")));
                        }
                        (Err(m), false) => {
                            return Err(fl(&sig_ctx("C02", "drop-pool", "unexpected-panic"), format!("step {step}: dropping the pool ({live_before} objects, must_not_drop={}) panicked: {m}", case.must_not_drop)));
                        }
                        _ => {}
                    }
                    // contents are destroyed exactly once by the pool drop (either policy)
                    for mut o in objs.drain(..) {
                        // dangling copies: raw handles have no destructor, dropping the boxes
                        // does not touch the (new) pool
                        o.handles.clear();
                        if descs[o.slot].droppy {
                            let c = drops_of(o.id);
                            if c != 1 {
                                return Err(fl(&sig_ctx("C02", "drop-pool", "contents-destructor-count"), format!("step {step}: pool drop left object {} with {c} destructor runs (expected 1)", o.id)));
                            }
                            dead_droppy.push(o.id);
                        }
                    }
                } else {
                    if live_before > 0 {
                        st.pool_drop_with_contents = true;
                    }
                    if let Err(m) = res {
                        return Err(fl(&sig_ctx("C02", "drop-pool", "unexpected-panic"), format!("step {step}: dropping the managed pool values panicked: {m}")));
                    }
                    // storage must stay valid through the handles; nothing is destroyed
                }
            }
            _ => {}
        }

        st.max_live = st.max_live.max(objs.len());
        check_state(&*pool, &objs, &descs, &dead_droppy, step, kind, true)?;
    }

    // ---- end of case: release everything, then drop the pool
    while let Some(idx) = objs.iter().rposition(|o| !o.handles.is_empty()) {
        let mut o = objs.swap_remove(idx);
        let d = descs[o.slot];
        let h = o.handles.pop().expect("non-empty");
        for other in o.handles.drain(..) {
            if raw {
                other.forget(&mut *pool);
            } else {
                other.release(&mut *pool);
                if d.droppy && drops_of(o.id) != 0 {
                    return Err(fl(&format!("C02/{kind}/drop-handle/destroyed-while-handles-exist"), format!("final sweep: object {} destroyed before its last handle was dropped", o.id)));
                }
            }
        }
        h.release(&mut *pool);
        if d.droppy {
            let c = drops_of(o.id);
            if c != 1 {
                return Err(fl(&format!("C02/{kind}/remove/destructor-count"), format!("final sweep: object {} has {c} destructor runs after its last handle was dropped/removed", o.id)));
            }
            dead_droppy.push(o.id);
        }
        check_state(&*pool, &objs, &descs, &dead_droppy, n, kind, false)?;
    }
    let orphans = objs.len();
    if pool.pool_alive() {
        check_state(&*pool, &objs, &descs, &dead_droppy, n, kind, true)?;
        let res = pool.drop_pool();
        let expect_panic = raw && case.must_not_drop && orphans > 0;
        match (&res, expect_panic) {
            (Ok(()), true) => return Err(fl(&format!("C02/{kind}/drop-pool/must-not-drop-did-not-panic"), format!("final pool drop with {orphans} objects did not panic under MustNotDropContents"))),
            (Err(m), false) => return Err(fl(&format!("C02/{kind}/drop-pool/unexpected-panic"), format!("final pool drop ({orphans} objects) panicked: {m}"))),
            _ => {}
        }
        for o in objs.drain(..) {
            if descs[o.slot].droppy {
                let c = drops_of(o.id);
                if c != 1 {
                    return Err(fl(&format!("C02/{kind}/drop-pool/contents-destructor-count"), format!("final pool drop left object {} with {c} destructor runs", o.id)));
                }
                dead_droppy.push(o.id);
            }
        }
    }
    // nothing may have been destroyed twice, and destructors never saw damaged values
    for id in &dead_droppy {
        let c = drops_of(*id);
        if c != 1 {
            return Err(fl(&format!("C02/{kind}/end/destructor-count"), format!("object {id} ended with {c} destructor runs (expected exactly 1)")));
        }
    }
    if let Some(c) = take_corrupt().into_iter().next() {
        return Err(fl(&format!("C01/{kind}/destructor/value-damaged"), c));
    }

    // ---- classification
    let crossed_slab = st.slab_cap > 0 && st.max_live > st.slab_cap;
    if crossed_slab {
        ctx.classify("crossed-slab-boundary");
    }
    if st.slab_cap > 0 && st.max_live > st.slab_cap * 64 {
        ctx.classify("crossed-64-slab-boundary");
    }
    if st.shrink_freed {
        ctx.classify("shrink-freed-slab");
    }
    if st.reserve_grew {
        ctx.classify("reserve-added>=2-slabs");
    }
    if st.shared_nonlifo {
        ctx.classify("shared-handles-dropped-non-lifo");
    }
    if st.pool_drop_with_contents {
        ctx.classify("pool-drop-with-contents");
    }
    if st.iter_walks > 0 {
        ctx.classify("iterated");
    }
    if st.takes > 0 {
        ctx.classify("extracted-by-value");
    }
    if st.failed_inits > 0 {
        ctx.classify("insert_with-closure-panicked");
    }
    if st.casts > 0 {
        ctx.classify("trait-object-cast");
    }
    if st.removal_then_insert {
        ctx.classify("removal-then-insert");
    }
    let nontrivial = match property {
        "C01" => crossed_slab && st.removal_then_insert,
        _ => st.shared_nonlifo || st.pool_drop_with_contents,
    };
    if nontrivial {
        ctx.nontrivial();
    }
    Ok(())
}

/// Reports which non-trivial rules the finished case met (computed again from a cheap replay of
/// the classification labels is unnecessary: the caller passes the labels).
pub fn same_layout(descs: &[TypeDesc], a: usize, b: usize) -> bool {
    descs[a].size == descs[b].size && descs[a].align == descs[b].align
}

fn check_state(pool: &dyn PoolObj, objs: &[Obj], descs: &[TypeDesc], dead: &[u32], step: usize, kind: &str, with_probe: bool) -> Verdict {
    // (a) stable address through every handle, (b) alignment, (d) value through every handle
    for o in objs {
        let d = descs[o.slot];
        if o.addr % d.align != 0 {
            return Err(fl(&format!("C01/{kind}/address/misaligned"), format!("step {step}: object {} at {:#x} is not aligned to {}", o.id, o.addr, d.align)));
        }
        for h in &o.handles {
            let a = h.addr();
            if a != o.addr {
                return Err(fl(&format!("C01/{kind}/address/moved"), format!("step {step}: object {} was inserted at {:#x} but a {:?} handle now points to {:#x}", o.id, o.addr, h.form(), a)));
            }
            let mut res = Ok(());
            h.read(d.size, &mut |b: &[u8]| {
                res = if b.len() != d.size { Err(format!("handle exposes {} bytes, object has {}", b.len(), d.size)) } else { verify(b, o.key, d.droppy) };
            });
            if let Err(e) = res {
                return Err(fl(&format!("C01/{kind}/value/differs-from-stored"), format!("step {step}: object {} ({} bytes) read through a {:?} handle: {e}", o.id, d.size, h.form())));
            }
        }
        if d.droppy && drops_of(o.id) != 0 {
            return Err(fl(&format!("C02/{kind}/live/destructor-ran"), format!("step {step}: object {} is alive in the model but its destructor already ran", o.id)));
        }
    }
    // (c) exclusivity: sweep over [addr, addr+size)
    let mut iv: Vec<(usize, usize, u32)> = objs.iter().map(|o| (o.addr, o.addr + descs[o.slot].size, o.id)).collect();
    iv.sort_unstable();
    for w in iv.windows(2) {
        if w[1].0 < w[0].1 {
            return Err(fl(&format!("C01/{kind}/address/overlap"), format!("step {step}: objects {} [{:#x},{:#x}) and {} [{:#x},{:#x}) overlap", w[0].2, w[0].0, w[0].1, w[1].2, w[1].0, w[1].1)));
        }
    }
    // destroyed objects stay destroyed exactly once (cheap: only the most recent few each step)
    for id in dead.iter().rev().take(8) {
        let c = drops_of(*id);
        if c != 1 {
            return Err(fl(&format!("C02/{kind}/dead/destructor-count"), format!("step {step}: destroyed object {id} now has {c} destructor runs")));
        }
    }
    if pool.pool_alive() {
        // accounting
        let len = pool.len();
        if len != objs.len() {
            return Err(fl(&format!("C02/{kind}/len/differs-from-live"), format!("step {step}: len() = {len}, live objects = {}", objs.len())));
        }
        if pool.is_empty() != objs.is_empty() {
            return Err(fl(&format!("C02/{kind}/is_empty/differs-from-live"), format!("step {step}: is_empty() = {}, live objects = {}", pool.is_empty(), objs.len())));
        }
        if kind.contains("Blind") {
            // capacity is per layout
            for s in 0..descs.len() {
                let n = objs.iter().filter(|o| same_layout(descs, o.slot, s)).count();
                let c = pool.capacity(s);
                if c < n {
                    return Err(fl(&format!("C02/{kind}/capacity/below-len"), format!("step {step}: capacity_for({}) = {c} < {n} live objects of that layout", descs[s].name)));
                }
            }
        } else {
            let c = pool.capacity(0);
            if c < len {
                return Err(fl(&format!("C02/{kind}/capacity/below-len"), format!("step {step}: capacity() = {c} < len() = {len}")));
            }
        }
        if with_probe {
            if let Err(e) = pool.probe() {
                return Err(fl(&format!("C01/{kind}/bookkeeping/inconsistent"), format!("step {step}: internal consistency probe: {e}")));
            }
        }
    }
    Ok(())
}

fn check_iteration(pool: &dyn PoolObj, objs: &[Obj], pattern: u64, step: usize, kind: &str) -> Verdict {
    let Some(w) = pool.walk(pattern) else {
        return Ok(());
    };
    let mut want: Vec<usize> = objs.iter().map(|o| o.addr).collect();
    want.sort_unstable();
    if w.len_before != want.len() {
        return Err(fl(&format!("C02/{kind}/iter/len-differs-from-live"), format!("step {step}: iterator len() = {} with {} live objects", w.len_before, want.len())));
    }
    let mut got: Vec<usize> = w.steps.iter().map(|s| s.1).collect();
    let yielded = got.len();
    got.sort_unstable();
    if got != want {
        let dup = got.windows(2).any(|p| p[0] == p[1]);
        return Err(fl(
            &format!("C02/{kind}/iter/{}", if dup { "yields-object-twice" } else { "differs-from-live-set" }),
            format!("step {step}: iteration (pattern {pattern:#x}) yielded {yielded} addresses, live objects {}; first difference: {:?}", want.len(), got.iter().zip(want.iter()).find(|(a, b)| a != b)),
        ));
    }
    // ExactSizeIterator::len counts down
    for (i, s) in w.steps.iter().enumerate() {
        if s.2 != want.len() - i - 1 {
            return Err(fl(&format!("C02/{kind}/iter/exact-size-wrong"), format!("step {step}: after {} items len() = {}, expected {}", i + 1, s.2, want.len() - i - 1)));
        }
    }
    if !w.fused {
        return Err(fl(&format!("C02/{kind}/iter/not-fused"), format!("step {step}: exhausted iterator yielded another item")));
    }
    // forward items ascend in iteration order and backward items are the reverse of a forward walk:
    // compare with a pure forward walk
    let fwd = pool.walk(0).expect("has iter");
    let order: Vec<usize> = fwd.steps.iter().map(|s| s.1).collect();
    let mut lo = 0usize;
    let mut hi = order.len();
    for s in &w.steps {
        let expect = if s.0 {
            hi -= 1;
            order[hi]
        } else {
            lo += 1;
            order[lo - 1]
        };
        if s.1 != expect {
            return Err(fl(&format!("C02/{kind}/iter/order-inconsistent"), format!("step {step}: mixed next/next_back walk yielded {:#x} where the forward order has {:#x}", s.1, expect)));
        }
    }
    Ok(())
}

/// Keeps `Payload` referenced for rustdoc links.
#[allow(dead_code)]
fn _t<T: Payload>() {}

pub fn menu_len() -> usize {
    let _ = menu_desc(0);
    MENU_LEN
}

/// Decodes libFuzzer bytes into a history (same case type as the proptest driver, so a saved
/// input converts into an ordinary JSON replay).
pub fn case_from_bytes(data: &[u8]) -> Case {
    let mut it = data.iter().copied();
    let mut next = || it.next().unwrap_or(0);
    let pool_kind = next() % 9;
    // big payloads are left to the proptest driver: keep fuzz iterations fast
    let ty = next() % 24;
    let ty = if (17..21).contains(&ty) { ty - 10 } else { ty };
    let nblind = 2 + usize::from(next() % 4);
    let blind_types: Vec<u8> = (0..nblind)
        .map(|_| {
            let t = next() % 24;
            if (17..21).contains(&t) { t - 9 } else { t }
        })
        .collect();
    let cap = [0u8, 1, 1, 2, 2, 3, 4, 8][usize::from(next() % 8)];
    let must_not_drop = next() % 4 == 0;
    let profile = next() % 4;
    let mut ops = Vec::new();
    let rest: Vec<u8> = it.collect();
    for ch in rest.chunks(4).take(600) {
        let g = |i: usize| ch.get(i).copied().unwrap_or(0);
        ops.push(RawOp {
            kind: g(0),
            a: u16::from(g(1)) << 8 | u16::from(g(2)),
            b: u16::from(g(3)) << 8 | u16::from(g(1)),
            c: u16::from(g(2)) << 8 | u16::from(g(3)),
        });
    }
    Case {
        pool_kind,
        ty,
        blind_types,
        cap,
        must_not_drop,
        profile,
        ops,
    }
}
