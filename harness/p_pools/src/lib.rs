//! Shared machinery for the infinity_pool properties (C01–C04): a payload menu with canaries and
//! drop tracking, a uniform object-safe view (`PoolObj` / `HandleObj`) over all nine pool types
//! and their handle forms, so that one non-generic interpreter can drive every combination.

#![allow(clippy::type_complexity)]

use std::any::Any;
use std::cell::RefCell;
use std::collections::HashMap;
use std::mem::MaybeUninit;

use infinity_pool::*;

pub mod fams;
pub mod interp;

// ------------------------------------------------------------------------------------------------
// drop / corruption tracking (thread-local: the history interpreter is single threaded)

#[derive(Default)]
pub struct Track {
    /// id -> number of destructor runs
    pub drops: HashMap<u32, u32>,
    /// destructor observed a broken canary: (id, description)
    pub corrupt: Vec<String>,
}

thread_local! {
    pub static TRACK: RefCell<Track> = RefCell::new(Track::default());
}

pub fn track_reset() {
    TRACK.with(|t| *t.borrow_mut() = Track::default());
}

pub fn drops_of(id: u32) -> u32 {
    TRACK.with(|t| t.borrow().drops.get(&id).copied().unwrap_or(0))
}

pub fn take_corrupt() -> Vec<String> {
    TRACK.with(|t| std::mem::take(&mut t.borrow_mut().corrupt))
}

// ------------------------------------------------------------------------------------------------
// canary pattern: key = id (24 bits) | version (8 bits, top)

#[inline]
pub fn pat(key: u32, i: usize) -> u8 {
    let mut x = (key as u64) ^ ((i as u64).wrapping_mul(0x9E37_79B9_7F4A_7C15));
    x ^= x >> 29;
    x = x.wrapping_mul(0xBF58_476D_1CE4_E5B9);
    x ^= x >> 32;
    // never produce the poison byte, so poisoned storage can never look like a valid canary
    let b = x as u8;
    if b == 0xDD { 0xDC } else { b }
}

pub fn key_of(id: u32, ver: u8) -> u32 {
    (id & 0x00FF_FFFF) | (u32::from(ver) << 24)
}

pub fn id_of_key(key: u32) -> u32 {
    key & 0x00FF_FFFF
}

/// Fills `buf` with the canary for `key`; droppy payloads carry the key in bytes 0..4.
pub fn fill(buf: &mut [u8], key: u32, droppy: bool) {
    for (i, b) in buf.iter_mut().enumerate() {
        *b = pat(key, i);
    }
    if droppy {
        buf[..4].copy_from_slice(&key.to_le_bytes());
    }
}

/// Positions checked for large payloads (all positions for small ones).
fn probe_positions(len: usize) -> impl Iterator<Item = usize> {
    let dense = len <= 4096;
    let step = if dense { 1 } else { (len / 97).max(1) };
    (0..len)
        .step_by(step)
        .chain((len.saturating_sub(64)..len).filter(move |_| !dense))
        .chain((0..64.min(len)).filter(move |_| !dense))
}

pub fn verify(buf: &[u8], key: u32, droppy: bool) -> Result<(), String> {
    for i in probe_positions(buf.len()) {
        let want = if droppy && i < 4 {
            key.to_le_bytes()[i]
        } else {
            pat(key, i)
        };
        if buf[i] != want {
            return Err(format!(
                "byte {i} of {} is {:#04x}, stored value has {:#04x}",
                buf.len(),
                buf[i],
                want
            ));
        }
    }
    Ok(())
}

// ------------------------------------------------------------------------------------------------
// payload menu

/// Trait-object view used for `cast_view()` (trait-object cast of handles).
pub trait View: Send {
    fn view_bytes(&self) -> &[u8];
}

pub trait Payload: View + Sized + Send + Unpin + 'static {
    const SIZE: usize;
    const ALIGN: usize;
    const DROPPY: bool;
    const NAME: &'static str;
    fn make(key: u32) -> Self;
    /// Writes a new value in place (used by `insert_with` and by the `Write` op).
    fn write_into(slot: &mut MaybeUninit<Self>, key: u32);
    fn bytes(&self) -> &[u8];
    fn bytes_mut(&mut self) -> &mut [u8];
}

macro_rules! payload {
    ($name:ident, $size:expr, $align:expr, copy) => {
        #[repr(C, align($align))]
        #[derive(Clone, Copy)]
        pub struct $name {
            b: [u8; $size],
        }
        payload!(@impl $name, $size, $align, false);
    };
    ($name:ident, $size:expr, $align:expr, drop) => {
        #[repr(C, align($align))]
        pub struct $name {
            b: [u8; $size],
        }
        impl Drop for $name {
            fn drop(&mut self) {
                let key = u32::from_le_bytes([self.b[0], self.b[1], self.b[2], self.b[3]]);
                let id = id_of_key(key);
                let bad = verify(&self.b, key, true).err();
                TRACK.with(|t| {
                    let mut t = t.borrow_mut();
                    *t.drops.entry(id).or_insert(0) += 1;
                    if let Some(bad) = bad {
                        t.corrupt.push(format!("destructor of object {id} ({}) found its value damaged: {bad}", stringify!($name)));
                    }
                });
                // poison: a live object sharing these bytes shows up as a canary mismatch
                for b in self.b.iter_mut() {
                    *b = 0xDD;
                }
            }
        }
        payload!(@impl $name, $size, $align, true);
    };
    (@impl $name:ident, $size:expr, $align:expr, $droppy:expr) => {
        const _: () = assert!(std::mem::size_of::<$name>() == $size && std::mem::align_of::<$name>() == $align);
        impl View for $name {
            fn view_bytes(&self) -> &[u8] {
                &self.b
            }
        }
        impl Payload for $name {
            const SIZE: usize = $size;
            const ALIGN: usize = $align;
            const DROPPY: bool = $droppy;
            const NAME: &'static str = stringify!($name);
            fn make(key: u32) -> Self {
                // built in place on the heap-free path: large arrays are filled directly
                let mut v = MaybeUninit::<Self>::uninit();
                Self::write_into(&mut v, key);
                // SAFETY: fully initialised by write_into
                unsafe { v.assume_init() }
            }
            fn write_into(slot: &mut MaybeUninit<Self>, key: u32) {
                // SAFETY: Self is a plain byte array; every byte is written.
                let buf = unsafe { std::slice::from_raw_parts_mut(slot.as_mut_ptr().cast::<u8>(), $size) };
                fill(buf, key, $droppy);
            }
            fn bytes(&self) -> &[u8] {
                &self.b
            }
            fn bytes_mut(&mut self) -> &mut [u8] {
                &mut self.b
            }
        }
    };
}

payload!(B1, 1, 1, copy);
payload!(B2, 2, 2, copy);
payload!(B3, 3, 1, copy);
payload!(D4, 4, 1, drop);
payload!(D7, 7, 1, drop);
payload!(D8, 8, 8, drop);
payload!(B8, 8, 4, copy);
payload!(D9, 9, 1, drop);
payload!(D16, 16, 16, drop);
payload!(D24, 24, 8, drop);
payload!(D31, 31, 1, drop);
payload!(B33, 33, 1, copy);
payload!(D64, 64, 64, drop);
payload!(D100, 100, 4, drop);
payload!(D255, 255, 1, drop);
payload!(D256, 256, 128, drop);
payload!(D1000, 1000, 8, drop);
payload!(D4096, 4096, 4096, drop);
payload!(D8192, 8192, 64, drop);
payload!(D40000, 40000, 16, drop);
payload!(DBig, 1048584, 8, drop);
// same sizes as above with other alignments: blind pools must keep them apart
payload!(D64A8, 64, 8, drop);
payload!(D256A8, 256, 8, drop);
payload!(B16A4, 16, 4, copy);

/// Same layout, different type: opaque pools accept any `T` with the pool's layout.
#[repr(transparent)]
pub struct Twin<T>(pub T);

impl<T: Payload> View for Twin<T> {
    fn view_bytes(&self) -> &[u8] {
        self.0.bytes()
    }
}

impl<T: Payload> Payload for Twin<T> {
    const SIZE: usize = T::SIZE;
    const ALIGN: usize = T::ALIGN;
    const DROPPY: bool = T::DROPPY;
    const NAME: &'static str = "Twin";
    fn make(key: u32) -> Self {
        Twin(T::make(key))
    }
    fn write_into(slot: &mut MaybeUninit<Self>, key: u32) {
        // SAFETY: repr(transparent)
        T::write_into(unsafe { &mut *(slot as *mut MaybeUninit<Self>).cast::<MaybeUninit<T>>() }, key);
    }
    fn bytes(&self) -> &[u8] {
        self.0.bytes()
    }
    fn bytes_mut(&mut self) -> &mut [u8] {
        self.0.bytes_mut()
    }
}

define_pooled_dyn_cast!(View);

/// Static description of a payload type as the model sees it.
#[derive(Clone, Copy, Debug)]
pub struct TypeDesc {
    pub name: &'static str,
    pub size: usize,
    pub align: usize,
    pub droppy: bool,
}

pub fn desc<T: Payload>() -> TypeDesc {
    TypeDesc {
        name: T::NAME,
        size: T::SIZE,
        align: T::ALIGN,
        droppy: T::DROPPY,
    }
}

/// Invokes `$m!(index, Type)` arms through a callback macro for every menu entry.
#[macro_export]
macro_rules! with_menu_type {
    ($idx:expr, $cb:ident $(, $arg:tt)*) => {
        match $idx {
            0 => $cb!($crate::B1 $(, $arg)*),
            1 => $cb!($crate::B2 $(, $arg)*),
            2 => $cb!($crate::B3 $(, $arg)*),
            3 => $cb!($crate::D4 $(, $arg)*),
            4 => $cb!($crate::D7 $(, $arg)*),
            5 => $cb!($crate::D8 $(, $arg)*),
            6 => $cb!($crate::B8 $(, $arg)*),
            7 => $cb!($crate::D9 $(, $arg)*),
            8 => $cb!($crate::D16 $(, $arg)*),
            9 => $cb!($crate::D24 $(, $arg)*),
            10 => $cb!($crate::D31 $(, $arg)*),
            11 => $cb!($crate::B33 $(, $arg)*),
            12 => $cb!($crate::D64 $(, $arg)*),
            13 => $cb!($crate::D100 $(, $arg)*),
            14 => $cb!($crate::D255 $(, $arg)*),
            15 => $cb!($crate::D256 $(, $arg)*),
            16 => $cb!($crate::D1000 $(, $arg)*),
            17 => $cb!($crate::D4096 $(, $arg)*),
            18 => $cb!($crate::D8192 $(, $arg)*),
            19 => $cb!($crate::D40000 $(, $arg)*),
            20 => $cb!($crate::DBig $(, $arg)*),
            21 => $cb!($crate::D64A8 $(, $arg)*),
            22 => $cb!($crate::D256A8 $(, $arg)*),
            _ => $cb!($crate::B16A4 $(, $arg)*),
        }
    };
}

pub const MENU_LEN: usize = 24;

pub fn menu_desc(idx: usize) -> TypeDesc {
    macro_rules! d {
        ($t:ty) => {
            desc::<$t>()
        };
    }
    with_menu_type!(idx, d)
}

// ------------------------------------------------------------------------------------------------
// object-safe view over pools and handles

#[derive(Clone, Copy, Debug, PartialEq, Eq)]
pub enum Form {
    Typed,
    Erased,
    Dyn,
}

/// Result of walking a pool iterator in a generated forward/backward pattern.
pub struct IterWalk {
    pub len_before: usize,
    /// (from_back, address, ExactSizeIterator::len() after the step)
    pub steps: Vec<(bool, usize, usize)>,
    /// extra calls after exhaustion all returned None
    pub fused: bool,
}

pub trait PoolObj: Any {
    fn as_any_mut(&mut self) -> &mut dyn Any;
    fn is_raw(&self) -> bool;
    fn has_iter(&self) -> bool;
    fn kind_name(&self) -> &'static str;
    /// false once every pool value has been dropped (managed pools keep storage alive via handles)
    fn pool_alive(&self) -> bool;
    fn len(&self) -> usize;
    fn is_empty(&self) -> bool;
    /// capacity for the layout of type slot `slot`
    fn capacity(&self, slot: usize) -> usize;
    fn reserve(&mut self, slot: usize, additional: usize);
    fn shrink(&mut self);
    fn walk(&self, pattern: u64) -> Option<IterWalk>;
    fn probe(&self) -> Result<(), String>;
    fn slots(&self) -> &[TypeDesc];
    fn insert(&mut self, slot: usize, key: u32, with: bool) -> Box<dyn HandleObj>;
    /// managed only: another pool value sharing the same storage
    fn clone_pool(&mut self) -> bool;
    /// Drops every pool value. Raw: returns Err(panic message) if the drop panicked.
    fn drop_pool(&mut self) -> Result<(), String>;
}

pub trait HandleObj {
    fn addr(&self) -> usize;
    fn form(&self) -> Form;
    fn unique(&self) -> bool;
    /// Reads the object's bytes through this handle form (typed deref / dyn view / raw pointer).
    fn read(&self, size: usize, f: &mut dyn FnMut(&[u8]));
    fn to_shared(self: Box<Self>) -> Box<dyn HandleObj>;
    /// shared handles only
    fn dup(&self) -> Option<Box<dyn HandleObj>>;
    fn erase(self: Box<Self>) -> Box<dyn HandleObj>;
    /// typed -> dyn View; other forms are returned unchanged
    fn cast(self: Box<Self>) -> Box<dyn HandleObj>;
    /// unique typed handles only: overwrites the value through `DerefMut` / `as_mut`
    fn write(&mut self, key: u32) -> bool;
    /// Whether `take` is possible for this handle (typed; managed additionally unique).
    fn can_take(&self) -> bool;
    /// Extracts the value (`remove_unpin` / `into_inner`), returns its bytes; the value is then
    /// dropped by the harness (counted by the drop tracker).
    fn take(self: Box<Self>, pool: &mut dyn PoolObj) -> Vec<u8>;
    /// raw: `pool.remove(handle)`; managed: drop the handle.
    fn release(self: Box<Self>, pool: &mut dyn PoolObj);
    /// raw: discard this copy without removing; managed: same as release.
    fn forget(self: Box<Self>, pool: &mut dyn PoolObj);
}
