//! C01 / C02 — model-based operation histories over all nine pool types (one binary, the
//! `--property` argument selects whose verdicts count and whose non-trivial rule applies).

use p_pools::interp::{case_strategy, run_case};
use vcommon::Harness;

fn main() {
    // big payloads travel by value through insert(): give the interpreter a roomy stack
    let t = std::thread::Builder::new().stack_size(512 << 20).spawn(real_main).expect("spawn");
    let _ = t.join();
}

fn real_main() {
    let mut h = Harness::from_args("C01");
    let prop = h.property.clone();
    let max_ops = h.pick(400usize, 4000usize);
    let cases = h.cases(12_000, 160_000);
    let rule = if prop == "C01" {
        "histories of insert/insert_with/remove/remove_unpin|into_inner/into_shared/clone/erase/cast/write/reserve/shrink_to_fit/iterate/clone-pool/drop-pool over 9 pool types x 21 payload layouts (size 1..1MiB+8, align 1..4096, Drop-tracking and Copy flavours, same-layout twins, 3-6 layouts for blind pools) x slab capacity override {none,1,2,3,4,8,32}; after every step: address stable through every handle form, aligned, live byte ranges pairwise disjoint, canary value intact through every handle, internal consistency probe. non-trivial = a slab index >= 1 was used and a removal preceded a later insert; distinct by serialised case"
    } else {
        "same histories; after every step: per-object destructor counter in {0,1} and =1 exactly for destroyed objects, never while a handle exists, 0 at extraction by value then 1 after the caller drops it; len/is_empty/capacity/iteration (forward, backward, mixed, ExactSize, fused) equal the live set; reserve(n) leaves room for n inserts without growth; MustNotDropContents pool drop panics iff non-empty and still destroys contents once. non-trivial = shared handle with >= 3 handles dropped in non-LIFO order, or a pool drop with live contents; distinct by serialised case"
    };
    h.section("history", rule, cases, case_strategy(max_ops), |case, ctx| run_case(case, ctx, &prop));
    h.finish()
}
