//! Converts a libFuzzer input of target `pools_history` into a JSON replay for `pools_hist`.
fn main() {
    let args: Vec<String> = std::env::args().collect();
    let data = std::fs::read(&args[1]).expect("read input");
    let case = p_pools::interp::case_from_bytes(&data);
    let prop = args.get(2).map_or("C01", String::as_str);
    println!("{}", serde_json::json!({"property": prop, "section": "history", "signature": format!("{prop}/fuzz/pools_history"), "message": "found by the coverage-guided target pools_history (ASan)", "case": case}));
}
