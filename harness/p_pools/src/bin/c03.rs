//! C03 — thread-safe pools under schedules; no unsound sharing.
//!
//! Section `auto-traits` (complete table): for every handle / pool type x payload class x form
//! the Send / Sync impls the compiler derives are compared with the aliasing rules (a handle that
//! gives `&T` from `&H` may be Sync only if T: Sync; a cloneable one may be Send only if
//! T: Send + Sync; a unique one may be Send only if T: Send; handles whose every access is unsafe
//! and payload classes that cannot be inserted are exempt).
//! Section `schedules`: 2..4 tasks use one PinnedPool / OpaquePool / BlindPool, its clones and
//! its handles under generated schedule bytes (vsched; every pool mutex acquisition is a
//! scheduling point, and every access to the shared inner pool is checked for happens-before).

use std::collections::{HashMap, VecDeque};
use std::marker::PhantomData;
use std::sync::atomic::{AtomicI32, AtomicU32, AtomicUsize, Ordering};
use std::sync::{Arc, Mutex};

use infinity_pool::*;
use proptest::prelude::*;
use serde::{Deserialize, Serialize};
use vcommon::{Ctx, Failure, Harness, Verdict, pick_index};

// ------------------------------------------------------------------------------------------------
// section `auto-traits`

trait DoesNotImpl {
    const IMPLS: bool = false;
}
impl<T: ?Sized> DoesNotImpl for T {}
struct IsSend<T: ?Sized>(PhantomData<T>);
#[allow(dead_code)]
impl<T: ?Sized + Send> IsSend<T> {
    const IMPLS: bool = true;
}
struct IsSync<T: ?Sized>(PhantomData<T>);
#[allow(dead_code)]
impl<T: ?Sized + Sync> IsSync<T> {
    const IMPLS: bool = true;
}
macro_rules! is_send {
    ($t:ty) => {
        <IsSend<$t>>::IMPLS
    };
}
macro_rules! is_sync {
    ($t:ty) => {
        <IsSync<$t>>::IMPLS
    };
}

// payload classes
type SendSync = u64;
type SendNotSync = std::cell::Cell<u64>;
struct NotSendSync(PhantomData<*const ()>);
// SAFETY: marker type for the table only; never instantiated.
unsafe impl Sync for NotSendSync {}
type NotSendNotSync = *const ();
trait Tr {}
impl Tr for SendSync {}
impl Tr for SendNotSync {}

#[derive(Debug, Clone, Serialize, Deserialize)]
struct Cell {
    handle: String,
    /// how the handle is used: shared (cloneable, gives &T), unique (gives &T and &mut T), raw
    /// (every access unsafe), pool, iter
    role: String,
    payload: String,
    form: String,
    is_send: bool,
    is_sync: bool,
    /// can safe code obtain a handle of this type to a payload of this class at all?
    constructible: bool,
    /// payload class facts
    t_send: bool,
    t_sync: bool,
}

fn table() -> Vec<Cell> {
    let mut v = Vec::new();
    macro_rules! row {
        ($h:ident, $role:expr, $insert_needs_send:expr) => {
            row!(@class $h, $role, $insert_needs_send, SendSync, "Send+Sync", true, true);
            row!(@class $h, $role, $insert_needs_send, SendNotSync, "Send+!Sync", true, false);
            row!(@class $h, $role, $insert_needs_send, NotSendSync, "!Send+Sync", false, true);
            row!(@class $h, $role, $insert_needs_send, NotSendNotSync, "!Send+!Sync", false, false);
            // trait object whose concrete type may be any insertable class: judged for the worst
            // insertable class (Send + !Sync for thread-safe pools, !Send + !Sync otherwise)
            v.push(Cell {
                handle: stringify!($h).into(),
                role: $role.into(),
                payload: "dyn Trait (concrete type may be Send+!Sync)".into(),
                form: "dyn".into(),
                is_send: is_send!($h<dyn Tr>),
                is_sync: is_sync!($h<dyn Tr>),
                constructible: true,
                t_send: $insert_needs_send,
                t_sync: false,
            });
            v.push(Cell {
                handle: stringify!($h).into(),
                role: $role.into(),
                payload: "erased ()".into(),
                form: "erased".into(),
                is_send: is_send!($h<()>),
                is_sync: is_sync!($h<()>),
                constructible: true,
                t_send: $insert_needs_send,
                t_sync: false,
            });
        };
        (@class $h:ident, $role:expr, $needs_send:expr, $t:ty, $name:expr, $ts:expr, $tsy:expr) => {
            v.push(Cell {
                handle: stringify!($h).into(),
                role: $role.into(),
                payload: $name.into(),
                form: "sized".into(),
                is_send: is_send!($h<$t>),
                is_sync: is_sync!($h<$t>),
                constructible: !$needs_send || $ts,
                t_send: $ts,
                t_sync: $tsy,
            });
        };
    }
    // thread-safe family: only T: Send can be inserted
    row!(Pooled, "shared", true);
    row!(PooledMut, "unique", true);
    row!(BlindPooled, "shared", true);
    row!(BlindPooledMut, "unique", true);
    // single-threaded family: anything can be inserted; handles must stay on their thread
    row!(LocalPooled, "local", false);
    row!(LocalPooledMut, "local", false);
    row!(LocalBlindPooled, "local", false);
    row!(LocalBlindPooledMut, "local", false);
    // raw family: every access to the payload is unsafe
    row!(RawPooled, "raw", false);
    row!(RawPooledMut, "raw", false);
    row!(RawBlindPooled, "raw", false);
    row!(RawBlindPooledMut, "raw", false);
    // pools
    macro_rules! pool {
        ($name:expr, $t:ty, $role:expr) => {
            v.push(Cell {
                handle: $name.into(),
                role: $role.into(),
                payload: "-".into(),
                form: "pool".into(),
                is_send: is_send!($t),
                is_sync: is_sync!($t),
                constructible: true,
                t_send: true,
                t_sync: false,
            });
        };
    }
    pool!("OpaquePool", OpaquePool, "pool-thread-safe");
    pool!("BlindPool", BlindPool, "pool-thread-safe");
    pool!("PinnedPool<Send+!Sync>", PinnedPool<SendNotSync>, "pool-thread-safe");
    pool!("LocalOpaquePool", LocalOpaquePool, "pool-local");
    pool!("LocalBlindPool", LocalBlindPool, "pool-local");
    pool!("LocalPinnedPool<Send+Sync>", LocalPinnedPool<SendSync>, "pool-local");
    pool!("RawOpaquePool", RawOpaquePool, "pool-raw");
    pool!("RawBlindPool", RawBlindPool, "pool-raw");
    pool!("RawPinnedPool<!Send+!Sync>", RawPinnedPool<NotSendNotSync>, "pool-raw-typed-notsend");
    pool!("RawPinnedPool<Send+!Sync>", RawPinnedPool<SendNotSync>, "pool-raw-typed");
    v
}

fn check_cell(c: &Cell, ctx: &mut Ctx) -> Verdict {
    ctx.classify(&format!("role:{}", c.role));
    ctx.nontrivial();
    let f = |k: &str, msg: String| Failure::new(format!("C03/auto-trait/{}/{k}", c.handle), format!("{msg} (payload class {}, form {})", c.payload, c.form));
    if !c.constructible {
        ctx.classify("exempt:not-insertable");
        return Ok(());
    }
    match c.role.as_str() {
        "shared" | "unique" => {
            if c.form == "erased" {
                return Ok(()); // no access to the payload; dropping it elsewhere needs T: Send, which the insert bound gives
            }
            let mut found = Vec::new();
            if c.is_sync && !c.t_sync {
                found.push(f("Sync-without-T:Sync", "a handle that derefs to &T is Sync although the payload is not: two threads can reach the payload through &handle at once".into()));
            }
            if c.role == "shared" && c.is_send && !(c.t_send && c.t_sync) {
                found.push(f("Send-without-T:Sync", "a cloneable handle that derefs to &T is Send although the payload is not Sync: clone it, send the clone, and two threads reach the payload at once".into()));
            }
            if c.role == "unique" && c.is_send && !c.t_send {
                found.push(f("Send-without-T:Send", "a unique owning handle is Send although the payload is not".into()));
            }
            for fl in found {
                if !ctx.tolerate(&fl.signature) {
                    return Err(fl);
                }
            }
        }
        "local" => {
            // single-threaded pool handles hold an Rc to the pool: they must never leave the thread
            if c.is_send || c.is_sync {
                return Err(f("local-handle-crosses-threads", format!("a single-threaded pool handle is Send={} Sync={}", c.is_send, c.is_sync)));
            }
        }
        "pool-local" => {
            if c.is_send || c.is_sync {
                return Err(f("local-pool-crosses-threads", format!("a single-threaded pool is Send={} Sync={}", c.is_send, c.is_sync)));
            }
        }
        "pool-raw-typed-notsend" => {
            // moving the pool moves its contents: needs T: Send
            if c.is_send {
                return Err(f("raw-pool-Send-without-T:Send", "a raw typed pool is Send although its payload type is not".into()));
            }
        }
        _ => {
            // raw handles (all access unsafe) and thread-safe pools (hand out pointers only)
            ctx.classify("exempt:unsafe-access-only");
        }
    }
    Ok(())
}

// ------------------------------------------------------------------------------------------------
// section `schedules`

#[derive(Debug, Clone, Copy, Serialize, Deserialize, PartialEq, Eq)]
enum TOp {
    Insert,
    /// in-place insertion; the initialisation closure contains a scheduling point, so other
    /// tasks' operations (iteration!) can land while the object is being constructed
    InsertWith,
    Share { slot: u16 },
    Clone { slot: u16 },
    Send { slot: u16, to: u8 },
    Recv,
    Drop { slot: u16 },
    IntoInner { slot: u16 },
    Read { slot: u16 },
    Iter,
    Reserve { n: u8 },
    Shrink,
    ClonePool,
    DropPool,
    Yield,
}

#[derive(Debug, Clone, Serialize, Deserialize)]
struct SCase {
    /// 0 OpaquePool, 1 PinnedPool, 2 BlindPool
    pool: u8,
    cap: u8,
    tasks: Vec<Vec<TOp>>,
    schedule: Vec<u8>,
}

fn scase_strategy() -> impl Strategy<Value = SCase> {
    let op = prop_oneof![
        5 => Just(TOp::Insert),
        3 => Just(TOp::InsertWith),
        2 => any::<u16>().prop_map(|slot| TOp::Share { slot }),
        3 => any::<u16>().prop_map(|slot| TOp::Clone { slot }),
        4 => (any::<u16>(), 0u8..4).prop_map(|(slot, to)| TOp::Send { slot, to }),
        4 => Just(TOp::Recv),
        5 => any::<u16>().prop_map(|slot| TOp::Drop { slot }),
        1 => any::<u16>().prop_map(|slot| TOp::IntoInner { slot }),
        3 => any::<u16>().prop_map(|slot| TOp::Read { slot }),
        3 => Just(TOp::Iter),
        1 => (0u8..5).prop_map(|n| TOp::Reserve { n }),
        1 => Just(TOp::Shrink),
        1 => Just(TOp::ClonePool),
        2 => Just(TOp::DropPool),
        1 => Just(TOp::Yield),
    ];
    let sched_byte = prop_oneof![5 => Just(0u8), 3 => 128u8..=255, 1 => 1u8..128];
    (0u8..3, 1u8..4, prop::collection::vec(prop::collection::vec(op, 1..10), 2..5), prop::collection::vec(sched_byte, 0..80)).prop_map(|(pool, cap, tasks, schedule)| SCase { pool, cap, tasks, schedule })
}

struct ObjState {
    id: u32,
    /// handles the harness believes exist (decremented before a handle is dropped)
    handles: AtomicI32,
    destroyed: AtomicU32,
    destroyed_early: AtomicU32,
    addr: AtomicUsize,
}

#[repr(C)]
struct P {
    /// `MAGIC` from construction to destruction; first field, so an observer that is handed a
    /// pointer to a (supposedly complete) object can check it without touching anything else
    magic: u64,
    canary: [u64; 3],
    st: Arc<ObjState>,
}

const MAGIC: u64 = 0x600D_0B1E_C700_1234;

const CANARY: u64 = 0xC0DE_CAFE_F00D_D00D;

/// Counts what an iteration under the pool lock yields and how many of the yielded pointers do
/// not point to a complete live object (first word != MAGIC).
fn count_valid(it: impl Iterator<Item = *const u64>) -> (usize, usize) {
    let mut n = 0;
    let mut bad = 0;
    for q in it {
        n += 1;
        // SAFETY: the pool yielded this pointer as the address of a live object of type P
        // (repr(C), first field u64); reading one aligned word of slab memory is in bounds.
        if unsafe { q.read_volatile() } != MAGIC {
            bad += 1;
        }
    }
    (n, bad)
}

impl P {
    fn new(st: Arc<ObjState>) -> Self {
        let id = u64::from(st.id);
        P {
            magic: MAGIC,
            canary: [CANARY ^ id, CANARY.rotate_left(7) ^ id, CANARY.rotate_left(29) ^ id],
            st,
        }
    }
    fn ok(&self) -> bool {
        let id = u64::from(self.st.id);
        self.canary == [CANARY ^ id, CANARY.rotate_left(7) ^ id, CANARY.rotate_left(29) ^ id] && self.st.destroyed.load(Ordering::SeqCst) == 0
    }
}

impl Drop for P {
    fn drop(&mut self) {
        if self.st.handles.load(Ordering::SeqCst) > 0 {
            self.st.destroyed_early.fetch_add(1, Ordering::SeqCst);
        }
        self.st.destroyed.fetch_add(1, Ordering::SeqCst);
        self.magic = 0xDDDD_DDDD_DDDD_DDDD;
        self.canary = [0xDDDD_DDDD_DDDD_DDDD; 3];
    }
}

trait TsPool: Clone + Send + Sync + 'static {
    type M: Send + 'static;
    type S: Send + Clone + 'static;
    const NAME: &'static str;
    fn new() -> Self;
    fn insert(&self, p: P) -> Self::M;
    /// `insert_with` whose closure passes a scheduling point before it writes the value
    fn insert_with_yield(&self, p: P) -> Self::M;
    fn len(&self) -> usize;
    /// (objects the iteration yielded, how many of them were not complete live objects)
    fn iter_count(&self) -> Option<(usize, usize)>;
    fn reserve(&self, n: usize);
    fn shrink(&self);
    fn probe(&self) -> Result<(), String>;
    fn m_ref(m: &Self::M) -> &P;
    fn s_ref(s: &Self::S) -> &P;
    fn m_addr(m: &Self::M) -> usize;
    fn into_shared(m: Self::M) -> Self::S;
    fn into_inner(m: Self::M) -> P;
}

macro_rules! ts_pool {
    ($t:ty, $name:expr, $m:ty, $s:ty, new = $new:expr, iter = |$p:ident| $iter:expr, reserve = |$p2:ident, $n:ident| $reserve:expr) => {
        impl TsPool for $t {
            type M = $m;
            type S = $s;
            const NAME: &'static str = $name;
            fn new() -> Self {
                $new
            }
            fn insert(&self, p: P) -> Self::M {
                <$t>::insert(self, p)
            }
            fn insert_with_yield(&self, p: P) -> Self::M {
                // SAFETY: the closure fully initialises the value.
                unsafe {
                    <$t>::insert_with(self, move |slot: &mut std::mem::MaybeUninit<P>| {
                        vsched::yield_point();
                        slot.write(p);
                    })
                }
            }
            fn len(&self) -> usize {
                <$t>::len(self)
            }
            fn iter_count(&self) -> Option<(usize, usize)> {
                let $p = self;
                $iter
            }
            fn reserve(&self, $n: usize) {
                let $p2 = self;
                $reserve
            }
            fn shrink(&self) {
                self.shrink_to_fit();
            }
            fn probe(&self) -> Result<(), String> {
                self.__verif_check()
            }
            fn m_ref(m: &Self::M) -> &P {
                m
            }
            fn s_ref(s: &Self::S) -> &P {
                s
            }
            fn m_addr(m: &Self::M) -> usize {
                m.ptr().as_ptr() as usize
            }
            fn into_shared(m: Self::M) -> Self::S {
                m.into_shared()
            }
            fn into_inner(m: Self::M) -> P {
                m.into_inner()
            }
        }
    };
}
ts_pool!(OpaquePool, "OpaquePool", PooledMut<P>, Pooled<P>, new = OpaquePool::with_layout_of::<P>(), iter = |p| Some(p.with_iter(|it| count_valid(it.map(|q| q.as_ptr() as *const u64)))), reserve = |p, n| p.reserve(n));
ts_pool!(PinnedPool<P>, "PinnedPool", PooledMut<P>, Pooled<P>, new = PinnedPool::new(), iter = |p| Some(p.with_iter(|it| count_valid(it.map(|q| q.as_ptr() as *const u64)))), reserve = |p, n| p.reserve(n));
ts_pool!(BlindPool, "BlindPool", BlindPooledMut<P>, BlindPooled<P>, new = BlindPool::new(), iter = |_p| None, reserve = |p, n| p.reserve_for::<P>(n));

enum H<T: TsPool> {
    M(T::M),
    S(T::S),
}

struct Item<T: TsPool> {
    st: Arc<ObjState>,
    h: H<T>,
}

// pool-state HB objects, keyed by the address the access hook reports
static POOL_OBJS: Mutex<Option<HashMap<usize, vsched::ObjId>>> = Mutex::new(None);

fn pool_access_hook(addr: usize, write: bool) {
    let obj = {
        let mut g = POOL_OBJS.lock().unwrap_or_else(|e| e.into_inner());
        let Some(map) = g.as_mut() else { return };
        *map.entry(addr).or_insert_with(|| vsched::new_object("shared pool state"))
    };
    vsched::access(obj, if write { vsched::Access::Write } else { vsched::Access::Read }, if write { "mutable access to the inner pool" } else { "shared access to the inner pool" });
}

struct Shared<T: TsPool> {
    objs: Mutex<Vec<Arc<ObjState>>>,
    mail: Mutex<Vec<VecDeque<Item<T>>>>,
    problems: Mutex<Vec<(String, String)>>,
    next_id: AtomicU32,
    leftovers: Mutex<Vec<Item<T>>>,
    leftover_pools: Mutex<Vec<T>>,
}

fn run_sched<T: TsPool>(case: &SCase, ctx: &mut Ctx) -> Verdict {
    let kind = T::NAME;
    let fl = |k: &str, msg: String| Failure::new(format!("C03/{kind}/{k}"), format!("{msg}; tasks={:?} schedule={:?}", case.tasks, case.schedule));
    infinity_pool::__verif::set_capacity_override(usize::from(case.cap));
    let ntasks = case.tasks.len();
    let sh: Arc<Shared<T>> = Arc::new(Shared {
        objs: Mutex::new(Vec::new()),
        mail: Mutex::new((0..ntasks).map(|_| VecDeque::new()).collect()),
        problems: Mutex::new(Vec::new()),
        next_id: AtomicU32::new(1),
        leftovers: Mutex::new(Vec::new()),
        leftover_pools: Mutex::new(Vec::new()),
    });
    *POOL_OBJS.lock().unwrap() = Some(HashMap::new());
    let stats = Arc::new(Mutex::new((0u32, 0u32, 0u32))); // cross-thread handle drops, pool drops with live handles, sends
    let cfg = vsched::Config {
        stale_loads: false,
        ..vsched::Config::default()
    };
    let final_report: Arc<Mutex<Option<(String, String)>>> = Arc::new(Mutex::new(None));
    let out = {
        let sh1 = Arc::clone(&sh);
        let sh_f = Arc::clone(&sh);
        let stats1 = Arc::clone(&stats);
        let tasks = case.tasks.clone();
        let final1 = Arc::clone(&final_report);
        vsched::run_with_finale(
            &case.schedule,
            &cfg,
            move || {
                let pool = T::new();
                let mut v: Vec<vsched::TaskFn> = Vec::new();
                for (ti, script) in tasks.iter().enumerate() {
                    let sh = Arc::clone(&sh1);
                    let stats = Arc::clone(&stats1);
                    let script = script.clone();
                    let mut pools: Vec<T> = vec![pool.clone()];
                    v.push(Box::new(move || {
                        let mut slots: Vec<(Item<T>, usize)> = Vec::new(); // (item, origin task)
                        let problem = |k: &str, m: String| sh.problems.lock().unwrap().push((k.to_string(), m));
                        for op in &script {
                            match *op {
                                TOp::Yield => vsched::yield_point(),
                                TOp::Insert | TOp::InsertWith => {
                                    let with = matches!(*op, TOp::InsertWith);
                                    let Some(p) = pools.last() else { continue };
                                    let id = sh.next_id.fetch_add(1, Ordering::SeqCst);
                                    let st = Arc::new(ObjState {
                                        id,
                                        handles: AtomicI32::new(1),
                                        destroyed: AtomicU32::new(0),
                                        destroyed_early: AtomicU32::new(0),
                                        addr: AtomicUsize::new(0),
                                    });
                                    sh.objs.lock().unwrap().push(Arc::clone(&st));
                                    let m = if with { p.insert_with_yield(P::new(Arc::clone(&st))) } else { p.insert(P::new(Arc::clone(&st))) };
                                    st.addr.store(T::m_addr(&m), Ordering::SeqCst);
                                    slots.push((Item { st, h: H::M(m) }, ti));
                                }
                                TOp::Share { slot } if !slots.is_empty() => {
                                    let i = pick_index(slot, slots.len());
                                    let (it, o) = slots.swap_remove(i);
                                    let h = match it.h {
                                        H::M(m) => H::S(T::into_shared(m)),
                                        s => s,
                                    };
                                    slots.push((Item { st: it.st, h }, o));
                                }
                                TOp::Clone { slot } if !slots.is_empty() => {
                                    let i = pick_index(slot, slots.len());
                                    if let H::S(s) = &slots[i].0.h {
                                        slots[i].0.st.handles.fetch_add(1, Ordering::SeqCst);
                                        let c = s.clone();
                                        let st = Arc::clone(&slots[i].0.st);
                                        let o = slots[i].1;
                                        slots.push((Item { st, h: H::S(c) }, o));
                                    }
                                }
                                TOp::Send { slot, to } if !slots.is_empty() => {
                                    let i = pick_index(slot, slots.len());
                                    let (it, _) = slots.swap_remove(i);
                                    let to = usize::from(to) % ntasks;
                                    stats.lock().unwrap().2 += 1;
                                    sh.mail.lock().unwrap()[to].push_back(it);
                                }
                                TOp::Recv => {
                                    // wait a little for mail: a few forced switches, then give up
                                    for _ in 0..3 {
                                        let got = sh.mail.lock().unwrap()[ti].pop_front();
                                        if let Some(it) = got {
                                            slots.push((it, usize::MAX));
                                            break;
                                        }
                                        vsched::yield_point();
                                    }
                                }
                                TOp::Drop { slot } if !slots.is_empty() => {
                                    let i = pick_index(slot, slots.len());
                                    let (it, origin) = slots.swap_remove(i);
                                    if origin != ti {
                                        stats.lock().unwrap().0 += 1;
                                    }
                                    let left = it.st.handles.fetch_sub(1, Ordering::SeqCst) - 1;
                                    let st = Arc::clone(&it.st);
                                    drop(it);
                                    let d = st.destroyed.load(Ordering::SeqCst);
                                    if left == 0 && d != 1 {
                                        problem("destroy/not-at-last-handle-drop", format!("object {} has {d} destructor runs right after its last handle was dropped", st.id));
                                    }
                                }
                                TOp::IntoInner { slot } if !slots.is_empty() => {
                                    let i = pick_index(slot, slots.len());
                                    if matches!(slots[i].0.h, H::M(_)) {
                                        let (it, _) = slots.swap_remove(i);
                                        if let H::M(m) = it.h {
                                            let before = it.st.destroyed.load(Ordering::SeqCst);
                                            it.st.handles.fetch_sub(1, Ordering::SeqCst);
                                            let v = T::into_inner(m);
                                            if before != 0 || it.st.destroyed.load(Ordering::SeqCst) != 0 {
                                                problem("into_inner/destructor-ran", format!("object {} was destroyed by into_inner instead of being handed back", it.st.id));
                                            }
                                            drop(v);
                                        }
                                    }
                                }
                                TOp::Read { slot } if !slots.is_empty() => {
                                    let i = pick_index(slot, slots.len());
                                    let ok = match &slots[i].0.h {
                                        H::M(m) => T::m_ref(m).ok(),
                                        H::S(s) => T::s_ref(s).ok(),
                                    };
                                    if !ok {
                                        problem("value/damaged-or-destroyed-while-handle-exists", format!("object {} read through a live handle is damaged or already destroyed", slots[i].0.st.id));
                                    }
                                }
                                TOp::Iter => {
                                    if let Some(p) = pools.last() {
                                        if let Some((n, bad)) = p.iter_count() {
                                            if bad > 0 {
                                                problem("with_iter/yields-incomplete-object", format!("with_iter yielded {n} objects, {bad} of them not (or no longer) complete live objects"));
                                            }
                                        }
                                    }
                                }
                                TOp::Reserve { n } => {
                                    if let Some(p) = pools.last() {
                                        p.reserve(usize::from(n));
                                    }
                                }
                                TOp::Shrink => {
                                    if let Some(p) = pools.last() {
                                        p.shrink();
                                    }
                                }
                                TOp::ClonePool => {
                                    if let Some(p) = pools.last() {
                                        let c = p.clone();
                                        pools.push(c);
                                    }
                                }
                                TOp::DropPool => {
                                    if !slots.is_empty() && pools.len() == 1 {
                                        stats.lock().unwrap().1 += 1;
                                    }
                                    drop(pools.pop());
                                }
                                _ => {}
                            }
                        }
                        // epilogue: collect late mail and drop half of what came from other tasks here
                        // (handles dropped on a task other than the one that created the object)
                        loop {
                            let got = sh.mail.lock().unwrap()[ti].pop_front();
                            match got {
                                Some(it) => slots.push((it, usize::MAX)),
                                None => break,
                            }
                        }
                        let mut keep = Vec::new();
                        for (k, (it, origin)) in slots.into_iter().enumerate() {
                            if origin == usize::MAX && k % 2 == 0 {
                                stats.lock().unwrap().0 += 1;
                                let left = it.st.handles.fetch_sub(1, Ordering::SeqCst) - 1;
                                let st = Arc::clone(&it.st);
                                drop(it);
                                let d = st.destroyed.load(Ordering::SeqCst);
                                if left == 0 && d != 1 {
                                    problem("destroy/not-at-last-handle-drop", format!("object {} has {d} destructor runs right after its last handle was dropped", st.id));
                                }
                            } else {
                                keep.push(it);
                            }
                        }
                        let mut l = sh.leftovers.lock().unwrap();
                        l.extend(keep);
                        sh.leftover_pools.lock().unwrap().extend(pools);
                    }));
                }
                drop(pool);
                v
            },
            move || {
                // quiescence: everything still held is handed to the harness thread
                let mut report = None;
                let mut items: Vec<Item<T>> = std::mem::take(&mut *sh_f.leftovers.lock().unwrap());
                for q in sh_f.mail.lock().unwrap().iter_mut() {
                    items.extend(q.drain(..));
                }
                let pools: Vec<T> = std::mem::take(&mut *sh_f.leftover_pools.lock().unwrap());
                let objs = sh_f.objs.lock().unwrap().clone();
                // destroyed exactly when the last handle went
                for st in &objs {
                    let h = st.handles.load(Ordering::SeqCst);
                    let d = st.destroyed.load(Ordering::SeqCst);
                    if st.destroyed_early.load(Ordering::SeqCst) > 0 {
                        report = Some(("destroy/before-last-handle-drop".to_string(), format!("object {} was destroyed while {} handle(s) still existed", st.id, h.max(1))));
                    } else if (h == 0 && d != 1) || (h > 0 && d != 0) || d > 1 {
                        report = Some(("destroy/count".to_string(), format!("object {}: {h} handle(s) exist, destructor ran {d} times", st.id)));
                    }
                }
                // live objects: readable, disjoint, counted by len
                let mut live: Vec<(usize, u32)> = Vec::new();
                for it in &items {
                    let (ok, addr) = match &it.h {
                        H::M(m) => (T::m_ref(m).ok(), std::ptr::from_ref(T::m_ref(m)) as usize),
                        H::S(s) => (T::s_ref(s).ok(), std::ptr::from_ref(T::s_ref(s)) as usize),
                    };
                    if !ok {
                        report = Some(("value/damaged-or-destroyed-while-handle-exists".to_string(), format!("object {} is damaged or destroyed although a handle exists ({} pool values left)", it.st.id, pools.len())));
                    }
                    if addr != it.st.addr.load(Ordering::SeqCst) {
                        report = Some(("address/moved".to_string(), format!("object {} moved", it.st.id)));
                    }
                    if !live.iter().any(|(_, id)| *id == it.st.id) {
                        live.push((addr, it.st.id));
                    }
                }
                live.sort_unstable();
                for w in live.windows(2) {
                    if w[1].0 < w[0].0 + size_of::<P>() {
                        report = Some(("address/overlap".to_string(), format!("objects {} and {} overlap", w[0].1, w[1].1)));
                    }
                }
                if let Some(p) = pools.first() {
                    let len = p.len();
                    if len != live.len() {
                        report = Some(("len/differs-from-live".to_string(), format!("len() = {len} with {} live objects after all tasks finished", live.len())));
                    }
                    if let Err(e) = p.probe() {
                        report = Some(("bookkeeping/inconsistent".to_string(), e));
                    }
                }
                // drop the pool values first: storage must stay valid through the handles
                drop(pools);
                for it in &items {
                    let ok = match &it.h {
                        H::M(m) => T::m_ref(m).ok(),
                        H::S(s) => T::s_ref(s).ok(),
                    };
                    if !ok {
                        report = Some(("storage/invalid-after-all-pool-values-dropped".to_string(), format!("object {} unreadable after every pool value was dropped", it.st.id)));
                    }
                }
                for it in items {
                    it.st.handles.fetch_sub(1, Ordering::SeqCst);
                    drop(it);
                }
                for st in &objs {
                    let d = st.destroyed.load(Ordering::SeqCst);
                    if d != 1 {
                        report = Some(("destroy/count".to_string(), format!("object {} ended with {d} destructor runs after every handle was dropped", st.id)));
                    }
                }
                *final1.lock().unwrap() = report;
            },
        )
    };
    *POOL_OBJS.lock().unwrap() = None;
    ctx.classify(&format!("pool:{kind}"));
    ctx.classify(&format!("tasks:{ntasks}"));
    let (cross, pooldrops, sends) = *stats.lock().unwrap();
    if cross > 0 {
        ctx.classify("handle-dropped-on-another-task");
    }
    if pooldrops > 0 {
        ctx.classify("pool-value-dropped-while-handles-live");
    }
    if sends > 0 {
        ctx.classify("handle-sent-between-tasks");
    }
    if out.hung {
        return Err(fl("hang", "execution did not finish".into()));
    }
    if out.step_bound_hit {
        ctx.classify("inconclusive-step-bound");
        return Ok(());
    }
    if let Some((t, m)) = out.panics.first() {
        return Err(fl("panic", format!("task {t} panicked: {m}")));
    }
    if out.preemptions > 0 {
        ctx.classify("preempted");
    }
    if cross > 0 && pooldrops > 0 {
        ctx.nontrivial();
    }
    if let Some((k, m)) = sh.problems.lock().unwrap().first().cloned() {
        return Err(fl(&k, m));
    }
    if let Some((k, m)) = final_report.lock().unwrap().take() {
        return Err(fl(&k, m));
    }
    if let Some(r) = out.races.first() {
        return Err(fl("race/shared-pool-state", format!("two tasks accessed the {} without happens-before between them: task {} {} vs task {} {}", r.object, r.first_task, r.first, r.second_task, r.second)));
    }
    Ok(())
}

fn main() {
    vsched::install_shim!(infinity_pool);
    infinity_pool::__verif::install_pool_access_hook(Some(pool_access_hook));
    let mut h = Harness::from_args("C03");
    h.enumerate(
        "auto-traits",
        "complete table: every handle type (Pooled, PooledMut, BlindPooled, BlindPooledMut, Local*, Raw*) x payload class (Send/Sync present or absent) x form (sized, trait object, erased) and every pool type: the Send / Sync impls the compiler derives vs the aliasing rules (shared cloneable handle: Sync only if T: Sync, Send only if T: Send+Sync; unique handle: Sync only if T: Sync, Send only if T: Send; single-threaded handles and pools neither; handles whose every access is unsafe and payload classes that cannot be inserted are exempt). Every cell is non-trivial (finite table).",
        table(),
        check_cell,
    );
    let cases = h.cases(150_000, 6_000_000);
    h.section(
        "schedules",
        "2..4 tasks x 1..9 ops (insert, into_shared, clone handle, send handle to task k, receive, drop handle, into_inner, read through handle, with_iter, reserve, shrink_to_fit, clone pool, drop pool value) on one OpaquePool / PinnedPool / BlindPool with slab capacity 1..3, under generated schedule bytes (every pool mutex acquisition is a scheduling point). Oracle: destructor exactly once, at the last handle drop and not before (harness handle count observed by the destructor), canaries intact through every live handle, addresses stable and disjoint, len == live objects and consistency probe at quiescence, storage readable after every pool value is gone, every access to the shared inner pool ordered by happens-before (hook on RawOpaquePoolThreadSafe deref). non-trivial = a handle dropped on a task other than its creator and a pool value dropped while handles live; distinct by serialised case",
        cases,
        scase_strategy(),
        |case, ctx| match case.pool % 3 {
            0 => run_sched::<OpaquePool>(case, ctx),
            1 => run_sched::<PinnedPool<P>>(case, ctx),
            _ => run_sched::<BlindPool>(case, ctx),
        },
    );
    h.finish()
}
