//! C04 — pools stay usable and consistent when user code they run panics or re-enters.
//!
//! Case = pool type x slab capacity x history of operations whose user-supplied parts are
//! scripted: destructors that panic or (managed / local pools) own handles to other objects of
//! the same pool or query / insert into the pool; `insert_with` closures that panic before or
//! after writing or re-enter; iteration closures that panic or re-enter. Every case runs in a
//! child process (the oracle includes "the triggering operation terminates").
//! Oracle: the triggering operation returns or propagates *the user's* panic; afterwards a fixed
//! probe sequence neither panics nor blocks and len / is_empty / capacity / iteration describe
//! exactly the live objects of the reference model, in which an object whose destructor ran
//! (even if it panicked) is destroyed, together with everything it owned, exactly once.

use std::cell::RefCell;
use std::collections::HashMap;
use std::mem::MaybeUninit;
use std::time::Duration;

use infinity_pool::*;
use proptest::prelude::*;
use serde::{Deserialize, Serialize};
use vcommon::worker::{Reply, Worker};
use vcommon::{Ctx, Failure, Harness, Verdict, pick_index};

// ------------------------------------------------------------------------------------------------
// case

#[derive(Debug, Clone, Copy, Serialize, Deserialize, PartialEq, Eq)]
enum Dtor {
    Plain,
    Panic,
    /// query the pool (len, is_empty, capacity) from inside the destructor
    Query,
    /// insert a fresh plain object into the pool from inside the destructor and keep it
    Insert,
}

#[derive(Debug, Clone, Copy, Serialize, Deserialize, PartialEq, Eq)]
enum Init {
    Write,
    PanicBefore,
    PanicAfter,
    /// query the pool from inside the closure, then write
    Query,
}

#[derive(Debug, Clone, Serialize, Deserialize)]
enum Op {
    Insert { dtor: Dtor, own: Vec<u16> },
    InsertWith { init: Init },
    /// `shared` = 0: drop the unique handle; n > 0: convert it with `into_shared()`, make n-1 more
    /// clones and drop them all (the last drop removes the object through the shared-handle path)
    Release {
        obj: u16,
        #[serde(default)]
        shared: u8,
    },
    /// with_iter closure: None = count everything, Some(k) = panic at item k, usize::MAX-ish = re-enter
    Iterate { panic_at: Option<u8>, reenter: bool },
    Reserve { n: u8 },
    Shrink,
}

#[derive(Debug, Clone, Serialize, Deserialize)]
struct Case {
    /// 0..9: Raw|Local|Managed x Opaque|Pinned|Blind
    pool_kind: u8,
    cap: u8,
    /// allow objects that own handles / re-enter (managed and local pools only)
    reentrant: bool,
    /// set on the fixed re-entrancy probes: which callback re-enters (dtor | init-closure | iter-closure)
    #[serde(default)]
    probe: Option<String>,
    ops: Vec<Op>,
}

fn case_strategy(reentrant_allowed: bool) -> impl Strategy<Value = Case> {
    let dtor = prop_oneof![6 => Just(Dtor::Plain), 3 => Just(Dtor::Panic), 1 => Just(Dtor::Query), 1 => Just(Dtor::Insert)];
    let init = prop_oneof![3 => Just(Init::Write), 2 => Just(Init::PanicBefore), 2 => Just(Init::PanicAfter), 1 => Just(Init::Query)];
    let op = prop_oneof![
        8 => (dtor, prop::collection::vec(any::<u16>(), 0..3)).prop_map(|(dtor, own)| Op::Insert { dtor, own }),
        3 => init.prop_map(|init| Op::InsertWith { init }),
        8 => (any::<u16>(), prop_oneof![5 => Just(0u8), 3 => Just(1u8), 2 => 2u8..=3]).prop_map(|(obj, shared)| Op::Release { obj, shared }),
        2 => (prop::option::weighted(0.6, 0u8..6), prop::bool::weighted(0.2)).prop_map(|(panic_at, reenter)| Op::Iterate { panic_at, reenter }),
        1 => (0u8..6).prop_map(|n| Op::Reserve { n }),
        1 => Just(Op::Shrink),
    ];
    (0u8..9, prop_oneof![Just(0u8), Just(1u8), Just(2u8), Just(3u8), Just(8u8)], prop::bool::weighted(if reentrant_allowed { 0.5 } else { 0.0 }), prop::collection::vec(op, 1..40)).prop_map(|(pool_kind, cap, reentrant, ops)| Case {
        pool_kind,
        cap,
        reentrant,
        probe: None,
        ops,
    })
}

const KINDS: [&str; 9] = ["RawOpaquePool", "LocalOpaquePool", "OpaquePool", "RawPinnedPool", "LocalPinnedPool", "PinnedPool", "RawBlindPool", "LocalBlindPool", "BlindPool"];

// ------------------------------------------------------------------------------------------------
// scripted payload

thread_local! {
    static DROPS: RefCell<HashMap<u32, u32>> = RefCell::new(HashMap::new());
    /// re-entrant access to the pool under test (managed / local pools)
    static POOL_ACCESS: RefCell<Option<Box<dyn Fn(Reenter) -> usize>>> = const { RefCell::new(None) };
    static REENTRIES: RefCell<u32> = const { RefCell::new(0) };
}

#[derive(Clone, Copy)]
enum Reenter {
    Query,
    Insert,
}

fn reenter(what: Reenter) -> usize {
    REENTRIES.with(|r| *r.borrow_mut() += 1);
    // clone the access closure out so that no borrow of the thread-local is held while it runs
    let f = POOL_ACCESS.with(|p| p.borrow().as_ref().map(|b| std::ptr::from_ref::<dyn Fn(Reenter) -> usize>(&**b)));
    match f {
        // SAFETY: the closure lives in the thread-local for the whole case.
        Some(f) => unsafe { (*f)(what) },
        None => 0,
    }
}

const MAGIC: u64 = 0x5C01_97ED_0B1E_C7ED;

/// `H` = erased owning handle of the pool family (managed / local), or `()` for raw pools.
struct S<H: 'static> {
    magic: u64,
    id: u32,
    dtor: Dtor,
    owned: Vec<H>,
}

impl<H> Drop for S<H> {
    fn drop(&mut self) {
        let ok = self.magic == MAGIC;
        self.magic = 0xDEAD_DEAD_DEAD_DEAD;
        DROPS.with(|d| *d.borrow_mut().entry(if ok { self.id } else { u32::MAX }).or_insert(0) += 1);
        match self.dtor {
            Dtor::Plain => {}
            Dtor::Panic => {
                if !std::thread::panicking() {
                    std::panic::panic_any(UserPanic(self.id));
                }
            }
            Dtor::Query => {
                let _ = reenter(Reenter::Query);
            }
            Dtor::Insert => {
                let _ = reenter(Reenter::Insert);
            }
        }
        // `owned` handles are dropped after this body: still inside the pool's removal
    }
}

struct UserPanic(u32);

fn drops_of(id: u32) -> u32 {
    DROPS.with(|d| d.borrow().get(&id).copied().unwrap_or(0))
}

// ------------------------------------------------------------------------------------------------
// pools behind one trait

trait Pool4: Sized + 'static {
    /// erased unique handle
    type H: 'static;
    const NAME: &'static str;
    const RAW: bool;
    const HAS_WITH_ITER: bool;
    fn new() -> Self;
    fn insert(&mut self, v: S<Self::H>) -> Self::H;
    fn insert_with(&mut self, id: u32, init: Init) -> Self::H;
    fn release(&mut self, h: Self::H);
    /// removal through the shared-handle form: `into_shared()`, `clones - 1` further clones, all dropped
    fn release_shared(&mut self, h: Self::H, clones: u8);
    fn len(&self) -> usize;
    fn is_empty(&self) -> bool;
    fn capacity(&self) -> usize;
    fn reserve(&mut self, n: usize);
    fn shrink(&mut self);
    /// number of items seen; the closure panics at item `panic_at` / re-enters if asked to
    fn iterate(&self, panic_at: Option<usize>, reenter_in_closure: bool) -> Option<usize>;
    fn probe(&self) -> Result<(), String>;
    /// a closure giving destructors / closures access to this very pool (None for raw pools)
    fn access(&self) -> Option<Box<dyn Fn(Reenter) -> usize>>;
}

fn init_closure<H: 'static>(id: u32, init: Init) -> impl FnOnce(&mut MaybeUninit<S<H>>) {
    move |slot| {
        match init {
            Init::PanicBefore => std::panic::panic_any(UserPanic(id)),
            Init::Query => {
                let _ = reenter(Reenter::Query);
            }
            _ => {}
        }
        slot.write(S {
            magic: MAGIC,
            id,
            dtor: Dtor::Plain,
            owned: Vec::new(),
        });
        if init == Init::PanicAfter {
            std::panic::panic_any(UserPanic(id));
        }
    }
}

fn walk<I: Iterator>(it: I, panic_at: Option<usize>, re: bool) -> usize {
    let mut n = 0usize;
    for _ in it {
        if panic_at == Some(n) {
            std::panic::panic_any(UserPanic(u32::MAX - 1));
        }
        if re && n == 0 {
            let _ = reenter(Reenter::Query);
            let _ = reenter(Reenter::Insert);
        }
        n += 1;
    }
    n
}

macro_rules! managed_pool4 {
    ($wrapper:ident, $pool:ty, $name:expr, $handle:ident, new = $new:expr, cap = |$p:ident| $cap:expr, reserve = |$p2:ident, $n:ident| $reserve:expr, iter = $iter:tt) => {
        struct $wrapper($pool);
        impl Pool4 for $wrapper {
            type H = $handle<()>;
            const NAME: &'static str = $name;
            const RAW: bool = false;
            const HAS_WITH_ITER: bool = managed_pool4!(@has $iter);
            fn new() -> Self {
                $wrapper($new)
            }
            fn insert(&mut self, v: S<Self::H>) -> Self::H {
                self.0.insert(v).erase()
            }
            fn insert_with(&mut self, id: u32, init: Init) -> Self::H {
                // SAFETY: the closure either initialises the value or panics.
                unsafe { self.0.insert_with(init_closure::<Self::H>(id, init)) }.erase()
            }
            fn release(&mut self, h: Self::H) {
                drop(h);
            }
            fn release_shared(&mut self, h: Self::H, clones: u8) {
                let first = h.into_shared();
                let more: Vec<_> = (1..clones).map(|_| first.clone()).collect();
                drop(first);
                drop(more);
            }
            fn len(&self) -> usize {
                self.0.len()
            }
            fn is_empty(&self) -> bool {
                self.0.is_empty()
            }
            fn capacity(&self) -> usize {
                let $p = &self.0;
                $cap
            }
            fn reserve(&mut self, $n: usize) {
                let $p2 = &self.0;
                $reserve
            }
            fn shrink(&mut self) {
                self.0.shrink_to_fit();
            }
            fn iterate(&self, panic_at: Option<usize>, re: bool) -> Option<usize> {
                managed_pool4!(@iter $iter, self, panic_at, re)
            }
            fn probe(&self) -> Result<(), String> {
                self.0.__verif_check()
            }
            fn access(&self) -> Option<Box<dyn Fn(Reenter) -> usize>> {
                let p = self.0.clone();
                Some(Box::new(move |what| match what {
                    Reenter::Query => {
                        let $p = &p;
                        p.len() + usize::from(p.is_empty()) + $cap
                    }
                    Reenter::Insert => {
                        let h = p.insert(S::<$handle<()>> {
                            magic: MAGIC,
                            id: 0,
                            dtor: Dtor::Plain,
                            owned: Vec::new(),
                        });
                        EXTRA.with(|e| e.borrow_mut().push(Box::new(h.erase())));
                        1
                    }
                }))
            }
        }
    };
    (@has yes) => { true };
    (@has no) => { false };
    (@iter yes, $s:ident, $pa:ident, $re:ident) => { Some($s.0.with_iter(|it| walk(it, $pa, $re))) };
    (@iter no, $s:ident, $pa:ident, $re:ident) => {{ let _ = ($pa, $re); None }};
}

thread_local! {
    /// objects inserted by re-entering destructors: kept alive until the end of the case
    static EXTRA: RefCell<Vec<Box<dyn std::any::Any>>> = const { RefCell::new(Vec::new()) };
}

managed_pool4!(POpaque, OpaquePool, "OpaquePool", PooledMut, new = OpaquePool::with_layout_of::<S<PooledMut<()>>>(), cap = |p| p.capacity(), reserve = |p, n| p.reserve(n), iter = yes);
managed_pool4!(PLocalOpaque, LocalOpaquePool, "LocalOpaquePool", LocalPooledMut, new = LocalOpaquePool::with_layout_of::<S<LocalPooledMut<()>>>(), cap = |p| p.capacity(), reserve = |p, n| p.reserve(n), iter = yes);
managed_pool4!(PPinned, PinnedPool<S<PooledMut<()>>>, "PinnedPool", PooledMut, new = PinnedPool::new(), cap = |p| p.capacity(), reserve = |p, n| p.reserve(n), iter = yes);
managed_pool4!(PLocalPinned, LocalPinnedPool<S<LocalPooledMut<()>>>, "LocalPinnedPool", LocalPooledMut, new = LocalPinnedPool::new(), cap = |p| p.capacity(), reserve = |p, n| p.reserve(n), iter = yes);
managed_pool4!(PBlind, BlindPool, "BlindPool", BlindPooledMut, new = BlindPool::new(), cap = |p| p.capacity_for::<S<BlindPooledMut<()>>>(), reserve = |p, n| p.reserve_for::<S<BlindPooledMut<()>>>(n), iter = no);
managed_pool4!(PLocalBlind, LocalBlindPool, "LocalBlindPool", LocalBlindPooledMut, new = LocalBlindPool::new(), cap = |p| p.capacity_for::<S<LocalBlindPooledMut<()>>>(), reserve = |p, n| p.reserve_for::<S<LocalBlindPooledMut<()>>>(n), iter = no);

// SAFETY (for the `S<PooledMut<()>>: Send` the thread-safe pools require): the harness never moves
// these objects to another thread; `S` holds only Send data in those instantiations.

macro_rules! raw_pool4 {
    ($wrapper:ident, $pool:ty, $name:expr, $handle:ident, new = $new:expr, cap = |$p:ident| $cap:expr, reserve = |$p2:ident, $n:ident| $reserve:expr, iter = |$p3:ident| $iter:expr) => {
        struct $wrapper($pool);
        impl Pool4 for $wrapper {
            type H = $handle<()>;
            const NAME: &'static str = $name;
            const RAW: bool = true;
            const HAS_WITH_ITER: bool = false;
            fn new() -> Self {
                $wrapper($new)
            }
            fn insert(&mut self, v: S<Self::H>) -> Self::H {
                self.0.insert(v).erase()
            }
            fn insert_with(&mut self, id: u32, init: Init) -> Self::H {
                // SAFETY: the closure either initialises the value or panics.
                unsafe { self.0.insert_with(init_closure::<Self::H>(id, init)) }.erase()
            }
            fn release(&mut self, h: Self::H) {
                // SAFETY: the handle belongs to this pool and the object is live (model).
                unsafe { self.0.remove(h) }
            }
            fn release_shared(&mut self, h: Self::H, clones: u8) {
                let first = h.into_shared();
                #[expect(clippy::clone_on_copy, reason = "the clone is the point")]
                let more: Vec<_> = (1..clones).map(|_| first.clone()).collect();
                let last = more.last().copied().unwrap_or(first);
                // SAFETY: the handle belongs to this pool and the object is live (model); shared raw
                // handles are plain copies, the object is removed once through one of them.
                unsafe { self.0.remove(last) }
            }
            fn len(&self) -> usize {
                self.0.len()
            }
            fn is_empty(&self) -> bool {
                self.0.is_empty()
            }
            fn capacity(&self) -> usize {
                let $p = &self.0;
                $cap
            }
            fn reserve(&mut self, $n: usize) {
                let $p2 = &mut self.0;
                $reserve
            }
            fn shrink(&mut self) {
                self.0.shrink_to_fit();
            }
            fn iterate(&self, panic_at: Option<usize>, _re: bool) -> Option<usize> {
                // a raw pool's iterator is driven by the caller: a panic in the loop body is not
                // code the pool runs, but iteration after earlier faults must still work
                let _ = panic_at;
                let $p3 = &self.0;
                $iter
            }
            fn probe(&self) -> Result<(), String> {
                self.0.__verif_check()
            }
            fn access(&self) -> Option<Box<dyn Fn(Reenter) -> usize>> {
                None
            }
        }
    };
}

raw_pool4!(PRawOpaque, RawOpaquePool, "RawOpaquePool", RawPooledMut, new = RawOpaquePool::with_layout_of::<S<RawPooledMut<()>>>(), cap = |p| p.capacity(), reserve = |p, n| p.reserve(n), iter = |p| Some(p.iter().count()));
raw_pool4!(PRawPinned, RawPinnedPool<S<RawPooledMut<()>>>, "RawPinnedPool", RawPooledMut, new = RawPinnedPool::new(), cap = |p| p.capacity(), reserve = |p, n| p.reserve(n), iter = |p| Some(p.iter().count()));
raw_pool4!(PRawBlind, RawBlindPool, "RawBlindPool", RawBlindPooledMut, new = RawBlindPool::new(), cap = |p| p.capacity_for::<S<RawBlindPooledMut<()>>>(), reserve = |p, n| p.reserve_for::<S<RawBlindPooledMut<()>>>(n), iter = |_p| None);

// ------------------------------------------------------------------------------------------------
// interpreter (runs inside the worker process)

#[derive(Serialize, Deserialize, Default)]
struct WorkerReply {
    failure: Option<(String, String)>,
    classes: Vec<String>,
    nontrivial: bool,
}

struct MObj<H> {
    id: u32,
    dtor: Dtor,
    handle: Option<H>,
    /// ids of objects owned (handles live inside the pooled value)
    owned: Vec<u32>,
}

fn payload_id(p: &(dyn std::any::Any + Send)) -> Option<u32> {
    p.downcast_ref::<UserPanic>().map(|u| u.0)
}

fn run<P: Pool4>(case: &Case) -> WorkerReply {
    let mut rep = WorkerReply::default();
    let kind = P::NAME;
    let fail = |rep: &mut WorkerReply, k: &str, msg: String| {
        rep.failure = Some((format!("C04/{kind}/{k}"), msg));
    };
    DROPS.with(|d| d.borrow_mut().clear());
    infinity_pool::__verif::set_capacity_override(usize::from(case.cap));
    let mut pool = P::new();
    let reentrant = case.reentrant && !P::RAW;
    POOL_ACCESS.with(|p| *p.borrow_mut() = if reentrant { pool.access() } else { None });
    rep.classes.push(format!("pool:{kind}"));
    if reentrant {
        rep.classes.push("reentrant-allowed".into());
    }
    // top-level objects (reachable through a harness-held handle) and all live objects by id
    let mut top: Vec<MObj<P::H>> = Vec::new();
    let mut all: HashMap<u32, (Dtor, Vec<u32>)> = HashMap::new();
    let mut next_id = 1u32;
    let mut faults = 0u32;
    let mut ops_after_fault = 0u32;
    let mut extra_live = 0usize;
    let mut panicky_alive = false;

    for (step, op) in case.ops.iter().enumerate() {
        if faults > 0 {
            ops_after_fault += 1;
        }
        match op {
            Op::Insert { dtor, own } => {
                let mut dtor = *dtor;
                if !reentrant && matches!(dtor, Dtor::Query | Dtor::Insert) {
                    dtor = Dtor::Plain;
                }
                // at most one panicking destructor alive: two in one destruction tree would
                // abort the process by Rust's rules, which is not the pool's doing
                if dtor == Dtor::Panic {
                    if panicky_alive {
                        dtor = Dtor::Plain;
                    } else {
                        panicky_alive = true;
                    }
                }
                let id = next_id;
                next_id += 1;
                let mut owned_handles = Vec::new();
                let mut owned_ids = Vec::new();
                if reentrant {
                    for raw in own {
                        if top.is_empty() {
                            break;
                        }
                        let i = pick_index(*raw, top.len());
                        let mut o = top.swap_remove(i);
                        owned_handles.push(o.handle.take().expect("top-level objects hold a handle"));
                        owned_ids.push(o.id);
                    }
                }
                if !owned_ids.is_empty() {
                    rep.classes.push("object-owns-handles".into());
                }
                let v = S::<P::H> {
                    magic: MAGIC,
                    id,
                    dtor,
                    owned: owned_handles,
                };
                let h = pool.insert(v);
                all.insert(id, (dtor, owned_ids.clone()));
                top.push(MObj {
                    id,
                    dtor,
                    handle: Some(h),
                    owned: owned_ids,
                });
            }
            Op::InsertWith { init } => {
                let mut init = *init;
                if !reentrant && init == Init::Query {
                    init = Init::Write;
                }
                let id = next_id;
                next_id += 1;
                let r = std::panic::catch_unwind(std::panic::AssertUnwindSafe(|| pool.insert_with(id, init)));
                match (r, matches!(init, Init::PanicBefore | Init::PanicAfter)) {
                    (Ok(h), false) => {
                        all.insert(id, (Dtor::Plain, Vec::new()));
                        top.push(MObj {
                            id,
                            dtor: Dtor::Plain,
                            handle: Some(h),
                            owned: Vec::new(),
                        });
                    }
                    (Ok(_), true) => {
                        fail(&mut rep, "insert_with/panic-swallowed", format!("step {step}: the initialisation closure panicked but insert_with returned normally"));
                        return rep;
                    }
                    (Err(p), true) => {
                        faults += 1;
                        rep.classes.push(format!("fault:insert_with-{init:?}"));
                        if payload_id(&*p) != Some(id) {
                            fail(&mut rep, "insert_with/foreign-panic", format!("step {step}: insert_with did not propagate the closure's own panic but: {}", vcommon::panic_message(&*p)));
                            return rep;
                        }
                        // a value written before the panic was never inserted: it is either
                        // dropped once or leaked, never dropped twice
                        if drops_of(id) > 1 {
                            fail(&mut rep, "insert_with/value-dropped-twice", format!("step {step}: the value written by a panicking closure was dropped {} times", drops_of(id)));
                            return rep;
                        }
                    }
                    (Err(p), false) => {
                        fail(&mut rep, &format!("insert_with/{}", classify_panic(&*p)), format!("step {step}: insert_with({init:?}) panicked: {}", vcommon::panic_message(&*p)));
                        return rep;
                    }
                }
            }
            Op::Release { obj, shared } => {
                if top.is_empty() {
                    continue;
                }
                let i = pick_index(*obj, top.len());
                let mut o = top.swap_remove(i);
                let h = o.handle.take().expect("handle");
                // the destruction tree
                let mut tree = Vec::new();
                let mut stack = vec![o.id];
                while let Some(id) = stack.pop() {
                    tree.push(id);
                    if let Some((_, kids)) = all.get(&id) {
                        stack.extend(kids.iter().copied());
                    }
                }
                let panicker = tree.iter().copied().find(|id| all.get(id).is_some_and(|(d, _)| *d == Dtor::Panic));
                let inserts = tree.iter().filter(|id| all.get(id).is_some_and(|(d, _)| *d == Dtor::Insert)).count();
                let _ = (o.dtor, &o.owned);
                let shared = *shared;
                if shared > 0 {
                    rep.classes.push(format!("release-via-shared-handle:{}", if shared > 1 { ">=2-clones" } else { "1" }));
                }
                let r = std::panic::catch_unwind(std::panic::AssertUnwindSafe(|| if shared > 0 { pool.release_shared(h, shared) } else { pool.release(h) }));
                extra_live += inserts;
                if tree.len() > 1 {
                    rep.classes.push("released-object-graph".into());
                }
                match (r, panicker) {
                    (Ok(()), None) => {}
                    (Ok(()), Some(pid)) => {
                        fail(&mut rep, "dtor-panic/swallowed", format!("step {step}: the destructor of object {pid} panicked but the removal returned normally"));
                        return rep;
                    }
                    (Err(p), Some(pid)) => {
                        faults += 1;
                        panicky_alive = false;
                        rep.classes.push("fault:dtor-panic".into());
                        if payload_id(&*p) != Some(pid) {
                            fail(&mut rep, &format!("dtor-panic/{}", classify_panic(&*p)), format!("step {step}: removal did not propagate the destructor's own panic but: {}", vcommon::panic_message(&*p)));
                            return rep;
                        }
                    }
                    (Err(p), None) => {
                        let what = if tree.len() > 1 { "reentrant-drop" } else if inserts > 0 || o.dtor == Dtor::Query { "reentrant-dtor" } else { "remove" };
                        fail(&mut rep, &format!("{what}/{}", classify_panic(&*p)), format!("step {step}: removing object {} (tree {tree:?}) panicked: {}", o.id, vcommon::panic_message(&*p)));
                        return rep;
                    }
                }
                for id in &tree {
                    let c = drops_of(*id);
                    if c != 1 {
                        fail(&mut rep, "destroyed-count", format!("step {step}: object {id} of the released tree {tree:?} has {c} destructor runs (expected exactly 1)"));
                        return rep;
                    }
                    if all.get(id).is_some_and(|(d, _)| *d == Dtor::Panic) {
                        panicky_alive = false;
                    }
                    all.remove(id);
                }
            }
            Op::Iterate { panic_at, reenter } => {
                let pa = panic_at.map(usize::from);
                let re = *reenter && reentrant;
                if !P::HAS_WITH_ITER && P::RAW {
                    // plain iteration is part of the probe below
                    continue;
                }
                let live = all.len() + extra_live;
                let r = std::panic::catch_unwind(std::panic::AssertUnwindSafe(|| pool.iterate(pa, re)));
                let expect_panic = P::HAS_WITH_ITER && pa.is_some_and(|k| k < live);
                match (r, expect_panic) {
                    (Ok(Some(n)), false) => {
                        if re && live > 0 {
                            extra_live += 1; // the closure inserted one object
                        }
                        if n != live {
                            fail(&mut rep, "iterate/count-differs-from-live", format!("step {step}: iteration saw {n} objects, {live} are alive"));
                            return rep;
                        }
                    }
                    (Ok(None), _) => {}
                    (Ok(Some(_)), true) => {
                        fail(&mut rep, "iterate/panic-swallowed", format!("step {step}: the iteration closure panicked but with_iter returned normally"));
                        return rep;
                    }
                    (Err(p), true) => {
                        faults += 1;
                        rep.classes.push("fault:iter-closure-panic".into());
                        if payload_id(&*p) != Some(u32::MAX - 1) {
                            fail(&mut rep, &format!("iterate/{}", classify_panic(&*p)), format!("step {step}: with_iter did not propagate the closure's own panic but: {}", vcommon::panic_message(&*p)));
                            return rep;
                        }
                    }
                    (Err(p), false) => {
                        let what = if re { "reentrant-iterate" } else { "iterate" };
                        fail(&mut rep, &format!("{what}/{}", classify_panic(&*p)), format!("step {step}: iteration panicked: {}", vcommon::panic_message(&*p)));
                        return rep;
                    }
                }
            }
            Op::Reserve { n } => {
                if let Err(p) = std::panic::catch_unwind(std::panic::AssertUnwindSafe(|| pool.reserve(usize::from(*n)))) {
                    fail(&mut rep, &format!("after-fault/reserve-{}", classify_panic(&*p)), format!("step {step}: reserve panicked: {}", vcommon::panic_message(&*p)));
                    return rep;
                }
            }
            Op::Shrink => {
                if let Err(p) = std::panic::catch_unwind(std::panic::AssertUnwindSafe(|| pool.shrink())) {
                    fail(&mut rep, &format!("after-fault/shrink-{}", classify_panic(&*p)), format!("step {step}: shrink_to_fit panicked: {}", vcommon::panic_message(&*p)));
                    return rep;
                }
            }
        }
        // ---- probe: the pool still works and describes exactly the live objects
        let live = all.len() + extra_live;
        let r = std::panic::catch_unwind(std::panic::AssertUnwindSafe(|| {
            let len = pool.len();
            let empty = pool.is_empty();
            let cap = pool.capacity();
            let seen = pool.iterate(None, false);
            let consistent = pool.probe();
            (len, empty, cap, seen, consistent)
        }));
        let tag = if faults > 0 { "after-fault" } else { "no-fault" };
        match r {
            Err(p) => {
                fail(&mut rep, &format!("{tag}/query-{}", classify_panic(&*p)), format!("step {step}: len/is_empty/capacity/iteration panicked after {faults} earlier fault(s): {}", vcommon::panic_message(&*p)));
                return rep;
            }
            Ok((len, empty, cap, seen, consistent)) => {
                if len != live || empty != (live == 0) {
                    fail(&mut rep, &format!("{tag}/len-differs-from-live"), format!("step {step}: len() = {len}, is_empty() = {empty}, live objects = {live} ({faults} fault(s) so far)"));
                    return rep;
                }
                if cap < len {
                    fail(&mut rep, &format!("{tag}/capacity-below-len"), format!("step {step}: capacity {cap} < len {len}"));
                    return rep;
                }
                if let Some(n) = seen {
                    if n != live {
                        fail(&mut rep, &format!("{tag}/iteration-differs-from-live"), format!("step {step}: iteration yields {n} objects, live = {live}"));
                        return rep;
                    }
                }
                if let Err(e) = consistent {
                    fail(&mut rep, &format!("{tag}/bookkeeping-inconsistent"), format!("step {step}: internal consistency probe: {e}"));
                    return rep;
                }
            }
        }
        // an insert + removal of a fresh object must work as well
        let r = std::panic::catch_unwind(std::panic::AssertUnwindSafe(|| {
            let h = pool.insert(S::<P::H> {
                magic: MAGIC,
                id: u32::MAX - 7,
                dtor: Dtor::Plain,
                owned: Vec::new(),
            });
            let l = pool.len();
            pool.release(h);
            l
        }));
        match r {
            Err(p) => {
                fail(&mut rep, &format!("{tag}/insert-remove-{}", classify_panic(&*p)), format!("step {step}: inserting and removing a fresh object panicked after {faults} earlier fault(s): {}", vcommon::panic_message(&*p)));
                return rep;
            }
            Ok(l) => {
                if l != live + 1 {
                    fail(&mut rep, &format!("{tag}/len-differs-from-live"), format!("step {step}: len() after one more insert = {l}, expected {}", live + 1));
                    return rep;
                }
            }
        }
    }
    if faults > 0 && ops_after_fault >= 5 {
        rep.nontrivial = true;
    }
    if REENTRIES.with(|r| *r.borrow()) > 0 {
        rep.classes.push("user-code-reentered-pool".into());
    }
    // teardown: release everything (plain order), clear thread-locals
    POOL_ACCESS.with(|p| *p.borrow_mut() = None);
    let _ = std::panic::catch_unwind(std::panic::AssertUnwindSafe(|| {
        while let Some(mut o) = top.pop() {
            if let Some(h) = o.handle.take() {
                let _ = std::panic::catch_unwind(std::panic::AssertUnwindSafe(|| pool.release(h)));
            }
        }
        EXTRA.with(|e| e.borrow_mut().clear());
    }));
    rep
}

fn classify_panic(p: &(dyn std::any::Any + Send)) -> String {
    let m = vcommon::panic_message(p);
    if payload_id(p).is_some() {
        "user-panic-out-of-place".into()
    } else if m.contains("poison") || m.contains("Poison") {
        "pool-poisoned".into()
    } else if m.contains("already borrowed") || m.contains("already mutably borrowed") || m.contains("BorrowMutError") || m.contains("BorrowError") {
        "already-borrowed-panic".into()
    } else {
        format!("panic:{}", vcommon::normalise(&m).chars().take(50).collect::<String>())
    }
}

fn run_case(case: &Case) -> WorkerReply {
    match case.pool_kind % 9 {
        0 => run::<PRawOpaque>(case),
        1 => run::<PLocalOpaque>(case),
        2 => run::<POpaque>(case),
        3 => run::<PRawPinned>(case),
        4 => run::<PLocalPinned>(case),
        5 => run::<PPinned>(case),
        6 => run::<PRawBlind>(case),
        7 => run::<PLocalBlind>(case),
        _ => run::<PBlind>(case),
    }
}

// ------------------------------------------------------------------------------------------------
// driver

fn family(kind: &str) -> &'static str {
    if kind.starts_with("Local") { "local-pools" } else { "thread-safe-pools" }
}

/// Failures of re-entering user code share two root causes (callbacks run while the RefCell
/// borrow / the mutex of the pool is held): one signature per pool family and callback kind.
fn normalise_reentrant(case: &Case, kind: &str, sig: &str) -> String {
    if case.reentrant && sig.ends_with("already-borrowed-panic") {
        let cb = if sig.contains("/insert_with/") {
            "init-closure"
        } else if sig.contains("iterate") {
            "iter-closure"
        } else {
            "dtor"
        };
        format!("C04/{}/reentrant/{cb}/already-borrowed-panic", family(kind))
    } else {
        sig.to_string()
    }
}

fn worker_main() -> ! {
    std::panic::set_hook(Box::new(|_| {}));
    vcommon::worker::serve(|line| {
        let rep = match serde_json::from_str::<Case>(line) {
            Ok(case) => run_case(&case),
            Err(e) => WorkerReply {
                failure: Some(("C04/harness/bad-case".into(), e.to_string())),
                ..WorkerReply::default()
            },
        };
        serde_json::to_string(&rep).unwrap_or_default()
    })
}

fn main() {
    if vcommon::worker::worker_role().is_some() {
        worker_main();
    }
    let mut h = Harness::from_args("C04");
    let cases = h.cases(60_000, 1_500_000);
    let worker = RefCell::new(Worker::spawn("c04"));
    let deadline = Duration::from_secs(5);
    // re-entrant cases are generated only while the corresponding known findings are not open:
    // with them open every such case would hang or panic, so they are excluded by construction
    // and probed once per run (section `reentrant-probe`).
    let known_reentrant = std::fs::read_to_string(std::env::var("VERIF_ROOT").unwrap_or_else(|_| "/verif".into()) + "/known_findings.jsonl").map(|t| t.lines().any(|l| l.contains("\"open\"") && l.contains("C04/") && l.contains("reentrant"))).unwrap_or(false);
    let exec = |case: &Case, ctx: &mut Ctx| -> Verdict {
        let line = serde_json::to_string(case).expect("serialise");
        let kind = KINDS[usize::from(case.pool_kind % 9)];
        let mut attempts = 0;
        loop {
            attempts += 1;
            match worker.borrow_mut().call(&line, deadline) {
                Reply::Line(l) => {
                    let rep: WorkerReply = serde_json::from_str(&l).map_err(|e| Failure::new("C04/harness/bad-reply", e.to_string()))?;
                    for c in &rep.classes {
                        ctx.classify(c);
                    }
                    if rep.nontrivial {
                        ctx.nontrivial();
                    }
                    return match rep.failure {
                        Some((sig, msg)) => Err(Failure::new(normalise_reentrant(case, kind, &sig), msg)),
                        None => Ok(()),
                    };
                }
                Reply::Timeout => {
                    if attempts >= 2 {
                        let sig = if case.reentrant {
                            format!("C04/{}/reentrant/{}/hang", family(kind), case.probe.as_deref().unwrap_or("some-callback"))
                        } else {
                            format!("C04/{kind}/hang")
                        };
                        return Err(Failure::new(sig, format!("the case did not finish within {deadline:?} in two fresh worker processes (an operation blocks)")));
                    }
                    ctx.classify("timeout-retried");
                }
                Reply::Died(why) => {
                    if attempts >= 2 {
                        return Err(Failure::new(format!("C04/{kind}/process-died"), format!("the worker process died while running the case twice: {why}")));
                    }
                }
            }
        }
    };
    h.section(
        "callbacks",
        "generated history over all nine pool types (slab capacity override none/1/2/3/8): insert of objects with scripted destructors (plain | panic | query pool | insert into pool) that may own handles to earlier objects of the same pool (managed and local pools), insert_with closures (write | panic before write | panic after write | query pool), removal / handle drop (runs the destruction tree), with_iter closures (count | panic at item k | query pool), reserve, shrink_to_fit; each case runs in a child process with a deadline. After every step: the triggering operation returned or propagated the user's own panic payload, then len / is_empty / capacity / iteration / consistency probe equal the reference model and an insert+remove of a fresh object works. non-trivial = a callback fault occurred and >= 5 further operations followed; distinct by serialised case",
        cases,
        case_strategy(!known_reentrant),
        &exec,
    );
    // the re-entrant situations behind open known findings, probed once per run
    if known_reentrant {
        let probe = |k: u8, cb: &str| -> Case {
            let ops = match cb {
                "dtor" => vec![Op::Insert { dtor: Dtor::Plain, own: vec![] }, Op::Insert { dtor: Dtor::Plain, own: vec![0] }, Op::Release { obj: 0, shared: 0 }],
                "dtor-query" => vec![Op::Insert { dtor: Dtor::Query, own: vec![] }, Op::Release { obj: 0, shared: 0 }],
                "init-closure" => vec![Op::InsertWith { init: Init::Query }],
                _ => vec![Op::Insert { dtor: Dtor::Plain, own: vec![] }, Op::Iterate { panic_at: None, reenter: true }],
            };
            Case {
                pool_kind: k,
                cap: 0,
                reentrant: true,
                probe: Some(cb.trim_end_matches("-query").to_string()),
                ops,
            }
        };
        // local pools fail fast (a RefCell panic): all of them; thread-safe pools block, so a
        // representative subset keeps the quick tier short
        let mut probes = Vec::new();
        for k in [1u8, 4, 7] {
            for cb in ["dtor", "dtor-query", "init-closure", "iter-closure"] {
                if cb == "iter-closure" && k == 7 {
                    continue; // blind pools have no with_iter
                }
                probes.push(probe(k, cb));
            }
        }
        probes.push(probe(2, "dtor"));
        probes.push(probe(2, "init-closure"));
        probes.push(probe(2, "iter-closure"));
        probes.push(probe(5, "dtor"));
        probes.push(probe(8, "dtor"));
        let short = Duration::from_millis(1500);
        let worker2 = RefCell::new(Worker::spawn("c04"));
        let exec_probe = |case: &Case, ctx: &mut Ctx| -> Verdict {
            let line = serde_json::to_string(case).expect("serialise");
            let kind = KINDS[usize::from(case.pool_kind % 9)];
            ctx.classify(&format!("probe:{}:{}", family(kind), case.probe.as_deref().unwrap_or("")));
            ctx.nontrivial();
            for attempt in 0..2 {
                match worker2.borrow_mut().call(&line, short) {
                    Reply::Line(l) => {
                        let rep: WorkerReply = serde_json::from_str(&l).map_err(|e| Failure::new("C04/harness/bad-reply", e.to_string()))?;
                        return match rep.failure {
                            Some((sig, msg)) => Err(Failure::new(normalise_reentrant(case, kind, &sig), msg)),
                            None => Ok(()),
                        };
                    }
                    Reply::Timeout if attempt == 1 => {
                        return Err(Failure::new(format!("C04/{}/reentrant/{}/hang", family(kind), case.probe.as_deref().unwrap_or("some-callback")), format!("{kind}: user code re-entering the pool blocked forever (no answer within {short:?}, twice)")));
                    }
                    Reply::Died(why) if attempt == 1 => return Err(Failure::new(format!("C04/{kind}/process-died"), why)),
                    _ => {}
                }
            }
            Ok(())
        };
        h.enumerate(
            "reentrant-probe",
            "the minimal re-entrant situations behind the open known findings (an object owning a handle to another object of the same pool is removed; a destructor / init closure / iteration closure queries the pool), on every local pool type and a representative subset of the thread-safe ones, probed once per run so that a repair is noticed; random re-entrant cases are excluded from `callbacks` by construction while these findings are open",
            probes,
            &exec_probe,
        );
    }
    h.finish()
}
