//! Linearizability checking (Wing-Gong search with memoisation) for reset events.

use std::collections::HashSet;

#[derive(Debug, Clone, Copy, PartialEq, Eq, Hash)]
pub enum OpKind {
    Set,
    Reset,
    /// try_wait returning the flag
    TryWait(bool),
    /// poll of wait future `fut` (a ready future is dropped by a separate `Cancel`)
    Poll { fut: u8, ready: bool },
    /// drop of a pending (or never polled) wait future
    Cancel { fut: u8 },
}

#[derive(Debug, Clone, Copy)]
pub struct Op {
    pub task: u8,
    pub kind: OpKind,
    pub inv: u64,
    pub res: u64,
}

/// Abstract state: stored signal / flag, registered un-notified futures, notified futures.
#[derive(Debug, Clone, Copy, PartialEq, Eq, Hash, Default)]
pub struct State {
    pub signal: bool,
    pub reg: u16,
    pub notif: u16,
}

/// Sequential specification. Returns every state the operation may lead to (empty = the
/// operation's observed result is impossible in `s`).
pub fn step(manual: bool, s: State, op: OpKind) -> Vec<State> {
    let bit = |f: u8| 1u16 << f;
    let mut out = Vec::new();
    match op {
        OpKind::Set => {
            if manual {
                out.push(State {
                    signal: true,
                    reg: 0,
                    notif: s.notif | s.reg,
                });
            } else if s.reg != 0 {
                // releases one registered waiter (any of them)
                for f in 0..16 {
                    if s.reg & (1 << f) != 0 {
                        out.push(State {
                            signal: s.signal,
                            reg: s.reg & !(1 << f),
                            notif: s.notif | (1 << f),
                        });
                    }
                }
            } else {
                out.push(State { signal: true, ..s });
            }
        }
        OpKind::Reset => out.push(State { signal: false, ..s }),
        OpKind::TryWait(b) => {
            if b == s.signal {
                out.push(if manual { s } else { State { signal: false, ..s } });
            }
        }
        OpKind::Poll { fut, ready } => {
            let f = bit(fut);
            if ready {
                // a ready poll consumes the stored signal or the future's own notification; the
                // future stays registered / notified until it is dropped (a separate Cancel)
                if manual {
                    if s.signal || s.notif & f != 0 {
                        out.push(State { notif: s.notif & !f, ..s });
                        if s.signal && s.notif & f != 0 {
                            out.push(s);
                        }
                    }
                } else {
                    if s.signal {
                        out.push(State { signal: false, ..s });
                    }
                    if s.notif & f != 0 {
                        out.push(State { notif: s.notif & !f, ..s });
                    }
                }
            } else if !s.signal && s.notif & f == 0 {
                out.push(State { reg: s.reg | f, ..s });
            }
        }
        OpKind::Cancel { fut } => {
            let f = bit(fut);
            if s.notif & f != 0 {
                let s2 = State { notif: s.notif & !f, ..s };
                if manual {
                    out.push(s2);
                } else {
                    // a cancelled notified wait passes the signal on
                    out.extend(step(false, s2, OpKind::Set));
                }
            } else {
                out.push(State { reg: s.reg & !f, ..s });
            }
        }
    }
    out
}

/// Real-time precedence: an op that responded before another was invoked precedes it.
pub fn real_time_order(ops: &[Op]) -> Vec<u64> {
    // before[j] = bitmask of ops that must precede op j
    (0..ops.len()).map(|j| (0..ops.len()).filter(|i| *i != j && ops[*i].res < ops[j].inv).fold(0u64, |m, i| m | (1u64 << i))).collect()
}

/// Searches for a sequential order of `ops` that respects `before` (bitmask of required
/// predecessors per op) and the sequential specification. Returns the final states of all valid
/// linearizations (empty = not linearizable).
pub fn linearize_with(manual: bool, ops: &[Op], before: &[u64]) -> Vec<State> {
    let n = ops.len();
    assert!(n <= 62);
    let mut finals = Vec::new();
    let mut seen: HashSet<(u64, State)> = HashSet::new();
    let mut stack = vec![(0u64, State::default())];
    let full = (1u64 << n) - 1;
    while let Some((done, st)) = stack.pop() {
        if !seen.insert((done, st)) {
            continue;
        }
        if done == full {
            if !finals.contains(&st) {
                finals.push(st);
            }
            continue;
        }
        for i in 0..n {
            if done & (1u64 << i) != 0 || before[i] & !done != 0 {
                continue;
            }
            for s2 in step(manual, st, ops[i].kind) {
                stack.push((done | (1u64 << i), s2));
            }
        }
    }
    finals
}

pub fn linearize(manual: bool, ops: &[Op]) -> Vec<State> {
    linearize_with(manual, ops, &real_time_order(ops))
}

/// Weaker specification of the manual-reset `set`: the flag is published at one point and the
/// waiters are released later, one by one, all within the call (which is what a lock-free flag
/// plus a drain loop under a mutex does). Micro-steps of one `set`: publish flag; take a
/// snapshot of the registered waiters; release each snapshot member individually; return.
/// Everything else is atomic as in `step`. Returns whether some interleaving of whole calls and
/// micro-steps explains the history.
pub fn linearize_manual_two_point(ops: &[Op], before: &[u64]) -> bool {
    linearize_manual_two_point_opt(ops, before, false)
}

/// As `linearize_manual_two_point`; with `already_set_is_noop` a `set` that finds the flag
/// already published by another, still draining `set` may return at once without releasing
/// anybody (the other `set`'s drain releases them later) - what `set()`'s "already set" fast
/// path does while an earlier `set()` is still between its two steps.
pub fn linearize_manual_two_point_opt(ops: &[Op], before: &[u64], already_set_is_noop: bool) -> bool {
    let n = ops.len();
    assert!(n <= 62);
    // open sets: (op index, phase 1 = flag published / 2 = snapshot taken, snapshot mask)
    type Open = Vec<(u8, u8, u16)>;
    let mut seen: HashSet<(u64, Open, State)> = HashSet::new();
    let mut stack: Vec<(u64, Open, State)> = vec![(0, Vec::new(), State::default())];
    let full = (1u64 << n) - 1;
    while let Some((done, open, st)) = stack.pop() {
        if !seen.insert((done, open.clone(), st)) {
            continue;
        }
        if done == full {
            return true;
        }
        // micro-steps of open sets
        for (k, (i, phase, snap)) in open.iter().enumerate() {
            let mut o2 = open.clone();
            if *phase == 1 {
                o2[k] = (*i, 2, st.reg);
                stack.push((done, o2, st));
            } else if *snap == 0 {
                o2.remove(k);
                stack.push((done | (1u64 << *i), o2, st));
            } else {
                for f in 0..16u16 {
                    if snap & (1 << f) == 0 {
                        continue;
                    }
                    let mut o3 = open.clone();
                    o3[k] = (*i, 2, snap & !(1 << f));
                    let mut s2 = st;
                    if s2.reg & (1 << f) != 0 {
                        s2.reg &= !(1 << f);
                        s2.notif |= 1 << f;
                    }
                    stack.push((done, o3, s2));
                }
            }
        }
        // starting a call
        let started: u64 = open.iter().fold(0, |m, (i, _, _)| m | (1u64 << *i));
        for i in 0..n {
            if done & (1u64 << i) != 0 || started & (1u64 << i) != 0 || before[i] & !done != 0 {
                continue;
            }
            if ops[i].kind == OpKind::Set {
                if already_set_is_noop && st.signal && !open.is_empty() {
                    stack.push((done | (1u64 << i), open.clone(), st));
                }
                let mut o2 = open.clone();
                o2.push((i as u8, 1, 0));
                o2.sort_unstable();
                stack.push((done, o2, State { signal: true, ..st }));
            } else {
                for s2 in step(true, st, ops[i].kind) {
                    stack.push((done | (1u64 << i), open.clone(), s2));
                }
            }
        }
    }
    false
}
